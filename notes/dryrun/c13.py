import sys,csv,io,random,datetime
from fractions import Fraction as F
from lib import *
r=random.Random(5); s=Srv()
pool=['a, b','he said "hi" ok','q"x"y','x,"y",z','ябълка, зелена','a/b','semi;colon','back\\.slash','z\\.z','tab x','a  b','1,5','o’quote’s','名前,值']
def gnum(r): return r.choice(["0.0005","0.0015","0.0025","1e-4","123456.7895","-0.0005","2.5","-3","0","0.1","0.2","0.7","1e6","0.0049","0.005"])
bad=0;n=0
for it in range(int(sys.argv[1])):
    names=r.sample(pool,6)
    book=[(nm,[(r.choice(pool),gnum(r)) for _ in range(r.randint(0,3))]) for nm in names[:3]]
    # make acyclic: ingredients only from names not in book heads
    heads={b[0] for b in book}
    book=[(h,[(e,v) for e,v in ents if e not in heads]) for h,ents in book]
    open("food.yaml","w").write("".join('%s:\n'%h+"".join("  %s: %s\n"%(e,v) for e,v in ents) for h,ents in book))
    days=[(datetime.date(2021,1,1+i),[(r.choice(pool),gnum(r)) for _ in range(r.randint(0,5))]) for i in range(3)]
    open("log.yaml","w").write("".join(d.strftime("%Y/%m/%d")+":\n"+"".join("  %s: %s\n"%(f,v) for f,v in e) for d,e in days))
    def rd(args):
        x=s.run(["--no-color","-d","food.yaml","-l","log.yaml"]+args); assert x["err"]==[""],x
        return list(csv.reader(io.StringIO(x["out"][0]),strict=True))
    rows=rd(["csv","log"]); n+=1
    exp=[]
    for d,e in days:
        m={}
        for f,v in e: m[f]=m.get(f,F(0))+F(v)
        exp+=[(d.strftime("%Y-%m-%d"),f,v) for f,v in m.items()]
    ok=len(rows)==len(exp) and all(a[0]==b[0] and a[1]==b[1] and re.match(r"^-?\d+\.\d{3}$",a[2]) and abs(F(a[2])-b[2])<=F(5,10000)+F(1,10**9) for a,b in zip(rows,exp))
    if not ok: bad+=1; print("LOG",rows,exp)
    rows=rd(["csv","database"]); n+=1
    exp=[(h,e,F(v)) for h,ents in book for e,v in ents]
    ok=len(rows)==len(exp) and all(a[0]==b[0] and a[1]==b[1] and re.match(r"^-?\d+\.\d{2}$",a[2]) and abs(F(a[2])-b[2])<=F(5,1000)+F(1,10**9) for a,b in zip(rows,exp))
    if not ok: bad+=1; print("DB",rows,exp)
    rows=rd(["csv","database-resolved"]); n+=1
    exp=[]
    for h,ents in sorted(book):
        m={}
        for e,v in ents: m[e]=m.get(e,F(0))+F(v)
        exp+=[(h,e,m[e]) for e in sorted(m)]
    ok=len(rows)==len(exp) and all(a[0]==b[0] and a[1]==b[1] and abs(F(a[2])-b[2])<=F(5,1000)+F(1,10**9) for a,b in zip(rows,exp))
    if not ok: bad+=1; print("RES",rows,exp)
print("checks",n,"bad",bad)
