import sys,datetime,random
from fractions import Fraction as F
from lib import *
from collections import defaultdict
r=random.Random(int(sys.argv[1])); s=Srv()
base=datetime.date(2021,2,26)
def gnum(r):
    k=r.random()
    if k<.3: return r.choice(["0.1","0.2","0.3","3.333","0.005","0.015","1e-3","123456.789","-0.7","2.675","1.005"])
    if k<.6: return "%d.%0*d"%(r.randint(-50,50),r.randint(1,4),r.randint(0,9999))
    return str(r.randint(-5,9))
def run(args):
    x=s.run(args); assert x["err"]==[""],(args,x); return x["out"][0]
bad=0;n=defaultdict(int)
def fail(tag,*a):
    global bad; bad+=1
    if bad<8: print("FAIL",tag,*a)
for it in range(int(sys.argv[2])):
    # layered DAG: layer0 leaves l0..l3 (undefined), recipes in layers 1..D
    D=r.randint(1,4); layers=[["l%d"%i for i in range(4)]]; book={}
    for d in range(1,D+1):
        names=["r%d_%d"%(d,i) for i in range(r.randint(1,3))]
        for nm in names:
            pool=[x for L in layers for x in L]
            ents=[(r.choice(pool),gnum(r)) for _ in range(r.randint(0,4))]
            if d>1 and ents: ents[0]=(r.choice(layers[d-1]),ents[0][1])
            book[nm]=ents
        layers.append(names)
    order=list(book); r.shuffle(order)
    open("food.yaml","w").write("".join(nm+":\n"+"".join("  %s: %s\n"%(e,v) for e,v in book[nm])+"\n" for nm in order))
    memo={}
    def val(nm):
        if nm not in book: return {nm:(F(1),F(1))}
        if nm in memo: return memo[nm]
        res={}
        for e,v in book[nm]:
            for x,(a,ab) in val(e).items():
                o=res.get(x,(F(0),F(0))); res[x]=(o[0]+F(v)*a,o[1]+abs(F(v))*ab)
        memo[nm]=res; return res
    # C01 via csv database-resolved
    rows=[l.split(",") for l in run(["--no-color","-d","food.yaml","csv","database-resolved"]).split("\n")[:-1]]
    exp=[(nm,x) for nm in sorted(book) for x in sorted(val(nm))]
    n["C01"]+=1
    if [(a,b) for a,b,_ in rows]!=exp: fail("C01-keys",rows,exp)
    else:
        for a,b,v in rows:
            ex,ab=val(a)[b]
            if abs(F(v)-ex)>F(5,1000)+F(1,10**9)*(1+ab): fail("C01-val",a,b,v,float(ex))
    # C02
    foods=list(book)+["l0","l1","zz/q"]
    days=[(base+datetime.timedelta(days=i),[(r.choice(foods),gnum(r)) for _ in range(r.randint(0,5))]) for i in range(r.randint(1,3))]
    open("log.yaml","w").write("".join(d.strftime("%Y/%m/%d")+":\n"+"".join("  %s: %s\n"%(f,v) for f,v in e)+"\n" for d,e in days))
    out=run(["--no-color","-d","food.yaml","-l","log.yaml","reg"]).split("\n")[:-1]
    num=r"(-?\d+\.\d\d)"
    i=0;parsed=[]
    for l in out:
        if not l.startswith("\t"): cur={"date":l,"foods":[],"tot":[]}; parsed.append(cur)
        elif l.startswith("\t-- TOTAL"): pass
        elif not l.startswith("\t\t"):
            m=re.match(r"^\t(.*?)\s*:\s*%s$"%num,l); cur["foods"].append([m.group(1),m.group(2),[]])
        else:
            m=re.match(r"^\t\t\s*(.*?)\s+%s\s+%s =\s*%s$"%(num,num,num),l)
            if m: cur["tot"].append((m.group(1),)+tuple(m.group(k) for k in (2,3,4)))
            else:
                m=re.match(r"^\t\t\s*(.*?)\s+%s$"%num,l); cur["foods"][-1][2].append((m.group(1),m.group(2)))
    n["C02"]+=1
    if len(parsed)!=len(days): fail("C02-days"); continue
    for (d,ents),pd in zip(days,parsed):
        merged={}
        for f,v in ents: merged[f]=merged.get(f,F(0))+F(v)
        if [f for f,_,_ in pd["foods"]]!=list(merged): fail("C02-foods",pd["foods"],list(merged)); continue
        tot=defaultdict(lambda:[F(0),F(0),F(0)])
        for (f,qv,ings) in pd["foods"]:
            qx=merged[f]
            if abs(F(qv)-qx)>F(5,1000)+F(1,10**9): fail("C02-q",f,qv,float(qx))
            expi={x:(qx*a,abs(qx)*ab) for x,(a,ab) in val(f).items()} if f in book else {f:(qx,abs(qx))}
            if sorted(x for x,_ in ings)!=sorted(expi): fail("C02-ingkeys",ings,list(expi))
            for x,v in ings:
                ex,ab=expi[x]
                if abs(F(v)-ex)>F(5,1000)+F(1,10**9)*(1+ab): fail("C02-ing",f,x,v,float(ex))
            for x,(ex,ab) in expi.items():
                tot[x][0 if ex>=0 else 1]+=ex; tot[x][2]+=ab
        if [t[0] for t in pd["tot"]]!=sorted(tot): fail("C02-totkeys",pd["tot"],sorted(tot))
        else:
            for name,p,ng,sm in pd["tot"]:
                ep,en,ab=tot[name]; tol=F(5,1000)+F(1,10**9)*(1+ab)
                if abs(F(p)-ep)>tol or abs(F(ng)-en)>tol or abs(F(sm)-(ep+en))>tol: fail("C02-tot",name,p,ng,sm,float(ep),float(en))
print(dict(n),"bad",bad)
