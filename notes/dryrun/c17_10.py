import sys,json
from lib import *
binp=sys.argv[1]
s=Srv(binp)
def fault(args,sink=-1,ridx=-1,rlim=-1):
    s.p.stdin.write(json.dumps({"fault":{"args":args,"sink_limit":sink,"read_idx":ridx,"read_limit":rlim}})+"\n"); s.p.stdin.flush()
    return json.loads(s.p.stdout.readline())
import shutil
shutil.copy("/repo/examples/food.yaml","food.yaml"); shutil.copy("/repo/examples/log.yaml","log.yaml")
open("badlog.yaml","w").write("2021/01/24:\n  a: 1\n  bad:1\n  c: zz\n")
G=["--no-color","--today","2021/01/26","-d","food.yaml","-l","log.yaml"]
cmds=[["reg"],["reg","--use-old-reg-reporter"],["reg","--internal-template-name","left-aligned"],["reg","-s","calories"],["reg","-s","calories","-g"],["reg","-f","egg"],["bal"],["bal","-c"],["bal","--collapse-last"],["bal","-s","fat"],["csv","log"],["csv","database"],["csv","database-resolved"],["print"],["summary","2021/01/24"],["report","totals"],["report","quantity"],["report","unresolved"],["report","element-total","fat"],["stats"],["lint","log.yaml"],["lint","badlog.yaml"]]
tot=0
for c in cmds:
    full=fault(G+c)
    assert full["err"]=="" and full["sink_errs"]==0,(c,full)
    L=full["accepted"]; viol=[]
    for k in range(0,L+1):
        x=fault(G+c,sink=k); tot+=1
        if x["panic"] if "panic" in x else False: viol.append((k,"panic"))
        if x["sink_errs"]>0 and x["err"]=="": viol.append(k)
        if x["sink_errs"]==0 and (x["err"]!="" or x["out"]!=full["out"]): viol.append((k,"spurious"))
    print("C17 %-45s len=%5d violations=%d %s"%(" ".join(c),L,len(viol),viol[:5]))
# C10 reader faults
rtot=0
for c in cmds:
    if c[0] in("stats",): continue
    base_=fault(G+c)
    nread=len(base_["readers"])
    for idx in range(nread):
        size=base_["readers"][idx]; viol=[]
        for k in range(0,size+1):
            x=fault(G+c,ridx=idx,rlim=k); rtot+=1
            if x["read_errd"][idx] and x["err"]=="": viol.append(k)
        print("C10 %-45s reader=%d size=%5d violations=%d %s"%(" ".join(c),idx,size,len(viol),viol[:3]))
print("sink runs",tot,"reader runs",rtot)
