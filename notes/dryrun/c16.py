import subprocess,os,itertools,sys
HR=sys.argv[1]
def w(p,t): open(p,"w").write(t)
# distinguishable log/db files
for tag in ("flag","env","cfg","default"):
    w("log_%s.yaml"%tag,"2021/01/24:\n  LOG_%s: 1\n"%tag)
    w("db_%s.yaml"%tag,"DBR_%s:\n  e: 1\n"%tag)
os.replace("log_default.yaml","log.yaml"); os.replace("db_default.yaml","food.yaml")
bad=0;n=0
def run(args,env):
    e={"PATH":"/usr/bin"}; e.update(env)
    p=subprocess.run([HR,"--no-color"]+args,env=e,capture_output=True,text=True)
    return p.returncode,p.stdout,p.stderr
def first(*xs):
    for x in xs:
        if x is not None: return x
# logfile
for flag,env,cfg in itertools.product([0,1],[0,1],["entry","noentry","nofile"]):
    args=[];e={}
    cfgtxt="[Global]\n"+("LogFileName=log_cfg.yaml\n" if cfg=="entry" else "")
    if cfg!="nofile": w("c.ini",cfgtxt); args+=["-c","c.ini"]
    if flag: args+=["-l","log_flag.yaml"]
    if env: e["HR_LOGFILE"]="log_env.yaml"
    rc,out,err=run(args+["csv","log"],e); n+=1
    exp=first("flag" if flag else None,"env" if env else None,"cfg" if cfg=="entry" else None,"default")
    if rc!=0 or ("LOG_"+exp) not in out: bad+=1; print("LOG",flag,env,cfg,rc,out,err)
# database
for flag,env,cfg in itertools.product([0,1],[0,1],["entry","noentry","nofile"]):
    args=[];e={}
    cfgtxt="[Global]\n"+("DbFileName=db_cfg.yaml\n" if cfg=="entry" else "")
    if cfg!="nofile": w("c.ini",cfgtxt); e["HR_CONFIG"]="c.ini"
    if flag: args+=["-d","db_flag.yaml"]
    if env: e["HR_DATABASE"]="db_env.yaml"
    rc,out,err=run(args+["csv","database"],e); n+=1
    exp=first("flag" if flag else None,"env" if env else None,"cfg" if cfg=="entry" else None,"default")
    if rc!=0 or ("DBR_"+exp) not in out: bad+=1; print("DB",flag,env,cfg,rc,out,err)
# date format: observe via stats Today line
fm={"flag":("2006-01-02","2021-01-25"),"env":("02.01.2006","25.01.2021"),"cfg":("Jan 2 2006","Jan 25 2021"),"default":("2006/01/02","2021/01/25")}
for flag,env,cfg in itertools.product([0,1],[0,1],["entry","noentry","nofile"]):
    args=[];e={}
    cfgtxt="[Global]\n"+("DateFormat=Jan 2 2006\n" if cfg=="entry" else "")
    if cfg!="nofile": w("c.ini",cfgtxt); args+=["-c","c.ini"]
    if flag: args+=["--date-format",fm["flag"][0]]
    if env: e["HR_DATE_FORMAT"]=fm["env"][0]
    exp=first("flag" if flag else None,"env" if env else None,"cfg" if cfg=="entry" else None,"default")
    w("lg.yaml",fm[exp][1]+":\n  x: 1\n")
    rc,out,err=run(args+["--today",fm[exp][1],"-l","lg.yaml","print"],e); n+=1
    if rc!=0 or not out.startswith(fm[exp][1]+":"): bad+=1; print("DF",flag,env,cfg,rc,out,err)
# maxdepth: chain books
def chain(L):
    return "".join("c%d:\n  %s: 1\n"%(i,("c%d"%(i+1) if i+1<L else "leaf")) for i in range(L))
for L in range(1,13): w("chain%d.yaml"%L,chain(L))
def effectiveN(args,e):
    # smallest L that fails == N
    for L in range(1,13):
        rc,out,err=run(args+["-d","chain%d.yaml"%L,"csv","database-resolved"],e)
        if rc!=0: return L
    return None
val={"flag":3,"env":5,"cfg":7,"default":10}
for flag,env,cfg in itertools.product([0,1],[0,1],["entry","noentry","nofile"]):
    args=[];e={}
    cfgtxt="[Resolver]\n"+("MaxDepth=7\n" if cfg=="entry" else "")
    if cfg!="nofile": w("c.ini",cfgtxt); args+=["-c","c.ini"]
    if flag: args+=["--maxdepth","3"]
    if env: e["HR_MAXDEPTH"]="5"
    exp=val[first("flag" if flag else None,"env" if env else None,"cfg" if cfg=="entry" else None,"default")]
    N=effectiveN(args,e); n+=1
    if N!=exp: bad+=1; print("DEPTH",flag,env,cfg,N,exp)
# today
for flag,cfg in itertools.product([0,1],["entry","noentry","nofile"]):
    args=[]
    cfgtxt="[Global]\n"+("Now=2020-03-04T00:00:00Z\n" if cfg=="entry" else "")
    if cfg!="nofile": w("c.ini",cfgtxt); args+=["-c","c.ini"]
    if flag: args+=["--today","2019/02/03"]
    rc,out,err=run(args+["stats"],{}); n+=1
    today=[l for l in out.split("\n") if "Today:" in l][0].split()[-1]
    import datetime
    exp="2019/02/03" if flag else "2020/03/04" if cfg=="entry" else datetime.date.today().strftime("%Y/%m/%d")
    if today!=exp: bad+=1; print("TODAY",flag,cfg,today,exp)
# explicit config missing / existing
rc,out,err=run(["-c","nonexist.ini","csv","log"],{}); n+=1
if rc==0: bad+=1; print("MISSING CONFIG ACCEPTED")
rc,out,err=run(["csv","log"],{"HR_CONFIG":"nonexist.ini"}); n+=1
if rc==0: bad+=1; print("MISSING HR_CONFIG ACCEPTED")
# no-database == empty book
w("empty.yaml","")
w("food.yaml","LOG_default:\n  zzz: 5\n")
a=run(["--no-database","reg"],{}); b=run(["-d","empty.yaml","reg"],{}); n+=1
if a!=b: bad+=1; print("NODB",a,b)
a=run(["--no-database","-d","food.yaml","bal","-s","zzz"],{}); b=run(["-d","empty.yaml","bal","-s","zzz"],{}); n+=1
if a!=b: bad+=1; print("NODB2",a,b)
print("checks",n,"bad",bad)
