import sys,datetime,random
from lib import *
r=random.Random(int(sys.argv[1])); s=Srv(sys.argv[3] if len(sys.argv)>3 else "/tmp/exp/hr_serve")
foods=["a/b","a/c","x","el1","r1","r2/z","averyveryveryveryverylongfoodnamethatexceedscolumns/xx","ябълка/зелена"]
book=[("r1",[("el1",2),("el2",3)]),("r2/z",[("r1",1),("el2",-1)]),("empty",[])]
open("food.yaml","w").write(render_book(book))
base=datetime.date(2021,2,26)
G=["-d","food.yaml"]
def run(args): 
    x=s.run(args); assert x["err"]==[""],(args,x); return x["out"][0]
ansi=re.compile(r"\x1b\[[0-9;]*m")
def blocks(out,dates):
    # split on date lines
    res=[];cur=None
    for l in out.split("\n")[:-1]:
        if l in dates: cur=[l]; res.append(cur)
        else: cur.append(l)
    return res
bad=0;n=0
for it in range(int(sys.argv[2])):
    days=[(base+datetime.timedelta(days=r.randint(0,3)),[(r.choice(foods+["empty"]),q(r)) for _ in range(r.randint(0,5))]) for _ in range(r.randint(1,6))]
    whole=render_log(days); open("log.yaml","w").write(whole)
    dates={d.strftime("%Y/%m/%d") for d,_ in days}
    # C15
    for tmpl in ([],["--internal-template-name","left-aligned"],["--use-old-reg-reporter"]):
        plain=run(["--no-color"]+G+["-l","log.yaml","reg"]+tmpl)
        col=run(G+["-l","log.yaml","reg"]+tmpl)
        if ansi.sub("",col)!=plain: bad+=1; print("COLOR",tmpl)
        plain2=run(G+["-l","log.yaml","reg","--no-color"]+tmpl)
        if plain2!=plain: bad+=1; print("POS",tmpl)
        nt=run(["--no-color"]+G+["-l","log.yaml","reg","--no-totals"]+tmpl)
        to=run(["--no-color"]+G+["-l","log.yaml","reg","--totals-only"]+tmpl)
        bd,bn,bt=blocks(plain,dates),blocks(nt,dates),blocks(to,dates)
        ok=len(bd)==len(bn)==len(bt)==len(days) and all(d==n_+t[1:] for d,n_,t in zip(bd,bn,bt))
        n+=1
        if not ok:
            bad+=1
            if bad<5: print("INTERLEAVE",tmpl,plain,nt,to)
    # C12
    for i in range(len(days)+1):
        open("p1.yaml","w").write(render_log(days[:i])); open("p2.yaml","w").write(render_log(days[i:]))
        for c in (["reg"],["csv","log"],["print"],["reg","-s","el2"],["reg","-f","a"],["reg","--use-old-reg-reporter"]):
            w=run(["--no-color"]+G+["-l","log.yaml"]+c); a=run(["--no-color"]+G+["-l","p1.yaml"]+c); b=run(["--no-color"]+G+["-l","p2.yaml"]+c)
            n+=1
            if w!=a+b: bad+=1; print("COMPOSE",c,i)
print("checks",n,"bad",bad)
