import sys,datetime,random
from lib import *
from collections import defaultdict
r=random.Random(int(sys.argv[1])); s=Srv(sys.argv[3] if len(sys.argv)>3 else "/tmp/exp/hr_serve")
foods=["a/b","a/c","x","el1","el2","r1","r2/z","d/e/f","d/e/g","empty"]
els=["el1","el2","el3"]
base=datetime.date(2021,2,26)
def run(args):
    x=s.run(args); assert x["err"]==[""],(args,x); return x["out"][0]
num=r"(-?\d+\.\d+)"
bad=0;n=defaultdict(int)
def fail(tag,*a):
    global bad; bad+=1
    if bad<8: print("FAIL",tag,*a)
for it in range(int(sys.argv[2])):
    # random 2-level book, integer coefficients
    book=[("r1",[(r.choice(els),r.choice([1,2,3,-1,0])) for _ in range(r.randint(0,3))]),
          ("r2/z",[("r1",r.choice([1,2,-1]))]+[(r.choice(els),r.choice([1,2,5])) for _ in range(r.randint(0,2))]),
          ("d/e/f",[(r.choice(els),r.choice([1,4])) ]),("empty",[])]
    r.shuffle(book)
    open("food.yaml","w").write(render_book(book))
    days=[(base+datetime.timedelta(days=r.randint(0,3)),[(r.choice(foods),q(r)) for _ in range(r.randint(0,5))]) for _ in range(r.randint(1,5))]
    open("log.yaml","w").write(render_log(days))
    G=["--no-color","-d","food.yaml","-l","log.yaml"]
    # totals
    tot={}
    for l in run(G+["report","totals"]).split("\n")[1:-1]:
        m=re.match(r"^\s*%s\s+%s\s+%s  (.*)$"%(num,num,num),l); tot[m.group(4)]=tuple(float(m.group(i)) for i in (1,2,3))
    # reg totals-only sum
    acc=defaultdict(lambda:[0,0,0]); perday=[]
    cur=None
    for l in run(G+["reg","--totals-only"]).split("\n")[:-1]:
        m=re.match(r"^\t\t\s*(.*?)\s+%s\s+%s =\s*%s$"%(num,num,num),l)
        if m:
            for i in range(3): acc[m.group(1)][i]+=float(m.group(2+i))
            cur[m.group(1)]=tuple(float(m.group(2+i)) for i in range(3))
        elif not l.startswith("\t"): cur={}; perday.append((l,cur))
    n["R1"]+=1
    if {k:tuple(v) for k,v in acc.items()}!=tot: fail("R1",dict(acc),tot)
    X=r.choice(els)
    # R2
    rows=[]
    for l in run(G+["reg","-s",X]).split("\n")[:-1]:
        m=re.match(r"^(\S+)\s+(.*?)\s+%s\s+%s =\s*%s$"%(num,num,num),l); rows.append((m.group(1),float(m.group(3)),-float(m.group(4)),float(m.group(5))))
    exp=[(d,)+t[X] for d,t in perday if X in t]
    n["R2"]+=1
    if rows!=exp: fail("R2",rows,exp)
    # R3
    out=run(G+["bal","-s",X]).split("\n")
    gt=float(out[-2].split("|")[0]); n["R3"]+=1
    if gt!=tot.get(X,(0,0,0))[2]: fail("R3",X,gt,tot.get(X))
    # R4 quantity vs csv log
    qn={}
    for l in run(G+["report","quantity"]).split("\n")[:-1]:
        v,name=l.split("\t"); qn[name]=float(v)
    cs=defaultdict(float)
    for l in run(G+["csv","log"]).split("\n")[:-1]:
        d,name,v=l.split(","); cs[name]+=float(v)
    n["R4"]+=1
    if dict(cs)!=qn: fail("R4",qn,dict(cs))
    # R5
    et=sorted((l.split("\t")[1],float(l.split("\t")[0])) for l in run(G+["report","element-total",X]).split("\n")[:-1])
    dr=sorted((l.split(",")[0],float(l.split(",")[2])) for l in run(G+["csv","database-resolved"]).split("\n")[:-1] if l.split(",")[1]==X)
    n["R5"]+=1
    if et!=dr: fail("R5",et,dr)
    # R7 unresolved
    un=set(run(G+["report","unresolved"]).split("\n")[:-1]); exp=set(cs)-{b[0] for b in book}
    n["R7"]+=1
    if un!=exp: fail("R7",un,exp)
print(dict(n),"bad",bad)
