import sys,datetime,random
from lib import *
s=Srv(sys.argv[1]); r=random.Random(3)
bad=0;n=0
for it in range(int(sys.argv[2])):
    els=["e%d"%i for i in range(12)]
    book=[("r%d"%i,[(r.choice(els),r.choice([1,2])) for _ in range(r.randint(1,4))]) for i in range(r.randint(2,12))]
    # chain near limit
    N=r.randint(2,6); L=N+r.choice([-1,0,1])
    chain=[("c%d"%i,[("c%d"%(i+1) if i+1<L-1 else "e0",1)]) for i in range(max(L-1,1))]
    book+=chain; r.shuffle(book)
    open("food.yaml","w").write(render_book(book))
    foods=[b[0] for b in book]+["u1","u2","u3","u4","a/b","a/c"]
    days=[(datetime.date(2021,1,1+i),[(r.choice(foods),r.choice([1,1,1,2])) for _ in range(r.randint(2,8))]) for i in range(3)]
    open("log.yaml","w").write(render_log(days))
    G=["--no-color","--today","2021/01/05","--maxdepth",str(N),"-d","food.yaml","-l","log.yaml"]
    for c in (["reg"],["reg","-s","e0"],["reg","-s","e0","-g"],["bal"],["bal","-c"],["bal","-s","e1"],["csv","log"],["csv","database"],["csv","database-resolved"],["print"],["summary","2021/01/02"],["report","totals"],["report","quantity"],["report","quantity","--desc"],["report","unresolved"],["report","element-total","e0"],["report","element-total","e1","--desc"],["stats"],["lint","food.yaml"]):
        x=s.run(G+c,reps=60); n+=1
        d=set(zip(x["out"],x["err"]))
        if len(d)!=1:
            bad+=1
            if bad<6: print("NONDET",c,len(d),[e for _,e in d])
print("cases",n,"bad",bad)
