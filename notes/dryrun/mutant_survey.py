import subprocess,shutil,os,sys,json
SRC="/tmp/exp/scratch"
M=[
("M01","C01","resolver/resolver.go","			nel.SumMerge(foundNode.Elements, e.Value)\n		} else {\n			var tm shared.Elements\n			tm.Add(e.Name, e.Value)\n			nel.SumMerge(tm, 1)\n		}\n	}\n	nel.Sort()\n	db[name].Elements = nel","			nel.SumMerge(foundNode.Elements, 1)\n		} else {\n			var tm shared.Elements\n			tm.Add(e.Name, e.Value)\n			nel.SumMerge(tm, 1)\n		}\n	}\n	nel.Sort()\n	db[name].Elements = nel"),
("M02","C01","resolver/resolver.go","	nel.Sort()\n	db[name].Elements = nel","	db[name].Elements = nel"),
("M03","C01","element.go","(*el)[ndx].Value += v.Value * mult","(*el)[ndx].Value = v.Value * mult"),
("M04","C02","node.go","elList[ndx].Value += el.Value","elList[ndx].Value = el.Value"),
("M05","C02","accumulator.go","acc[name][sign] += val","acc[name][sign] = val"),
("M07","C02/C07/C15","cmd/hranoprovod-cli/internal/register/reg_reporter.go","				acc.Add(repl.Name, res)","				acc.Add(repl.Name, repl.Value)"),
("M10","C04","parser/parser.go",'trimText = "\\t \\n:\\"-"','trimText = "\\t \\n:-"'),
("M11","C04","parser/parser.go",'strings.LastIndexAny(trimmedLine, "\\t ")','strings.IndexAny(trimmedLine, "\\t ")'),
("M13","C09","parser/parser.go","		lineNumber++\n		line = lineScanner.Text()\n		trimmedLine = strings.Trim(line, trimText)\n\n		//skip empty lines and lines starting with #\n		if trimmedLine == \"\" || line[0] == c.CommentChar {\n			continue\n		}","		line = lineScanner.Text()\n		trimmedLine = strings.Trim(line, trimText)\n\n		//skip empty lines and lines starting with #\n		if trimmedLine == \"\" || line[0] == c.CommentChar {\n			continue\n		}\n		lineNumber++"),
("M14","C06","filter/filter.go","	if time.Equal(compareTime) {\n		return true\n	}","	if time.Equal(compareTime) {\n		return ct == dateBeginning\n	}"),
("M15","C06","cmd/hranoprovod-cli/internal/options/options.go","now.AddDate(0, 0, -7)","now.AddDate(0, 0, -6)"),
("M16","C06","cmd/hranoprovod-cli/internal/options/options.go","func (o *Options) populateFilter(c *cli.Context) error {\n	for i := len(c.Lineage()) - 1; i >= 0; i-- {","func (o *Options) populateFilter(c *cli.Context) error {\n	for i := 0; i < len(c.Lineage()); i++ {"),
("M43","C06","cmd/hranoprovod-cli/internal/options/options.go","now.AddDate(0, 0, -1)","now.AddDate(0, 0, -2)"),
("M18","C05/C13","cmd/hranoprovod-cli/internal/csv/csv.go","	sort.Strings(keys)\n	r := NewCSVDatabaseReporter","	_ = sort.Strings\n	r := NewCSVDatabaseReporter"),
("M19","C14","cmd/hranoprovod-cli/internal/print/print_reporter.go","	if ln.Metadata != nil {","	if ln.Metadata != nil && false {"),
("M20","C15","cmd/hranoprovod-cli/internal/reporter/template_functions.go","			if num > 0 {\n				return fmt.Sprintf(negativeFormat, num)","			if num < 0 {\n				return fmt.Sprintf(negativeFormat, num)"),
("M21","C15/C07","cmd/hranoprovod-cli/internal/register/reg_reporter_template.go",'{{ printf "  %s %s = %s  %s" (formatValue $total.Positive)','{{ printf "  %s %s = %s  %s" (formatValue $total.Negative)'),
("M22","C15","cmd/hranoprovod-cli/internal/reporter/report_item.go","	if config.TotalsOnly {\n		re = nil\n	}","	if config.TotalsOnly && false {\n		re = nil\n	}"),
("M23","C07/C12","cmd/hranoprovod-cli/internal/report/quantity_reporter.go","r.accumulator[e.Name] += e.Value","r.accumulator[e.Name] = e.Value"),
("M24","C07","cmd/hranoprovod-cli/internal/report/unsolved_reporter.go","		if !found {","		if found {"),
("M25","C07","cmd/hranoprovod-cli/internal/stats/stats_reporter.go","sr.stats.Now.Sub(sr.stats.LogFirstRecord).Hours()/24","sr.stats.Now.Sub(sr.stats.LogFirstRecord).Hours()/12"),
("M26","C07","cmd/hranoprovod-cli/internal/register/single_reporter.go","acc.Add(repl.Name, repl.Value*e.Value)","acc.Add(repl.Name, repl.Value)"),
("M27","C07","cmd/hranoprovod-cli/internal/register/element_by_food_reporter.go","r.acc.Add(node.Header, repl.Value*e.Value)","r.acc.Add(node.Header, e.Value)"),
("M28","C07","cmd/hranoprovod-cli/internal/register/single_food_reporter.go","		if matched {","		if !matched {"),
("M29","C16","cmd/hranoprovod-cli/internal/options/options.go",'	if c.IsSet("logfile") || o.GlobalConfig.LogFileName == "" {','	if !c.IsSet("logfile") || o.GlobalConfig.LogFileName == "" {'),
("M30","C16","cmd/hranoprovod-cli/internal/options/options.go",'	if c.IsSet("maxdepth") || o.ResolverConfig.MaxDepth == 0 {','	if o.ResolverConfig.MaxDepth == 0 {'),
("M31","C16","cmd/hranoprovod-cli/root.go",'EnvVars: []string{"HR_LOGFILE"}','EnvVars: []string{"HR_LOG"}'),
("M37","C15","cmd/hranoprovod-cli/internal/report/report.go",'Descending:     c.IsSet("desc"),\n						ParserConfig:   o.ParserConfig,\n						ResolverConfig','Descending:     !c.IsSet("desc"),\n						ParserConfig:   o.ParserConfig,\n						ResolverConfig'),
("M46","C03","tree_aggregator.go","		tn.Children[child.Name].Total += child.Total","		tn.Children[child.Name].Total = child.Total"),
("M47","C03","cmd/hranoprovod-cli/internal/balance/balance_reporter.go","		} else if collapseLast && len(child.Children) == 1 && len(child.FirstChild().Children) == 0 {","		} else if collapseLast && len(child.FirstChild().Children) == 0 {"),
("M48","C13","cmd/hranoprovod-cli/internal/csv/csv_reporter.go","	w.Comma = config.CSVSeparator\n	return CSVReporter{","	w.Comma = config.CSVSeparator\n	w.UseCRLF = false\n	_ = w\n	return CSVReporter{"),
("M49","C13","cmd/hranoprovod-cli/internal/csv/csv_database_reporter.go",'			n.Header,\n			e.Name,','			strings.ReplaceAll(n.Header, ",", ";"),\n			e.Name,'),
("M50","C12","cmd/hranoprovod-cli/internal/register/single_reporter.go","	acc := shared.NewAccumulator()\n	singleElement","	acc := r.acc\n	singleElement"),
("M51","C18","parser/parser.go","	p.Done <- true\n}","	select {\n	case p.Done <- true:\n	default:\n	}\n}"),
("M52","C11","resolver/resolver.go","		if h >= maxDepth {","		if h > maxDepth {"),
("M53","C10","parser/parser.go","	if err = lineScanner.Err(); err != nil {\n		return NewErrorIO(err, \"\")\n	}","	if err = lineScanner.Err(); err != nil && err != bufio.ErrTooLong {\n		return NewErrorIO(err, \"\")\n	}"),
("M54","C17","cmd/hranoprovod-cli/internal/report/quantity_reporter.go","	return r.output.Flush()\n}","	r.output.Flush()\n	return nil\n}"),
("M55","C08","cmd/hranoprovod-cli/internal/register/single_reporter.go","	if len(acc) > 0 {\n		arr := (acc)[singleElement]","	{\n		arr := (acc)[singleElement]"),
("M56","C09","cmd/hranoprovod-cli/internal/lint/lint.go","	if !lc.Silent && errorsFound == 0 {","	if !lc.Silent {"),
("M57","C02","cmd/hranoprovod-cli/internal/reporter/report_item.go","	sort.Sort(ss)\n","	_ = sort.Sort\n"),
]
extra={"M49":("cmd/hranoprovod-cli/internal/csv/csv_database_reporter.go",'import (\n','import (\n	"strings"\n'),
       "M50":("cmd/hranoprovod-cli/internal/register/single_reporter.go","	output *bufio.Writer\n}","	output *bufio.Writer\n	acc    shared.Accumulator\n}")}
res=[]
for m in M:
    mid,prop,f,old,new=m
    d="/tmp/exp/mut/w"; shutil.rmtree(d,ignore_errors=True); shutil.copytree(SRC,d)
    p=os.path.join(d,f); s=open(p).read()
    if s.count(old)<1: res.append((mid,prop,"NOMATCH")); print(mid,"NOMATCH"); continue
    s=s.replace(old,new,1); open(p,"w").write(s)
    if mid in extra:
        ef,eo,en=extra[mid]; pp=os.path.join(d,ef); t=open(pp).read(); assert eo in t,(mid,eo); open(pp,"w").write(t.replace(eo,en,1))
    if mid=="M50":
        pp=os.path.join(d,"cmd/hranoprovod-cli/internal/register/single_reporter.go"); t=open(pp).read(); t=t.replace("		bufio.NewWriter(config.Output),\n	}","		bufio.NewWriter(config.Output),\n		shared.NewAccumulator(),\n	}",1); open(pp,"w").write(t)
    open("/tmp/exp/mut/go.work","w").write("go 1.17\n\nuse (\n\t%s\n\t%s/cmd/hranoprovod-cli\n)\n"%(d,d))
    env=dict(os.environ,GOWORK="/tmp/exp/mut/go.work",GOPROXY="off",GOFLAGS="")
    b=subprocess.run("cd %s && go build ./... && cd cmd/hranoprovod-cli && go build -o /tmp/exp/mut/bin_%s ."%(d,mid),shell=True,env=env,capture_output=True,text=True)
    if b.returncode!=0: res.append((mid,prop,"NOBUILD")); print(mid,"NOBUILD",b.stderr[-300:]); continue
    t=subprocess.run("cd %s && go test -vet=off -count=1 ./... && cd cmd/hranoprovod-cli && go test -vet=off -count=1 ./..."%d,shell=True,env=env,capture_output=True,text=True)
    st="SURVIVES" if t.returncode==0 else "KILLED-BY-SUITE"
    res.append((mid,prop,st)); print(mid,prop,st)
json.dump(res,open("/tmp/exp/mut/survey.json","w"))
