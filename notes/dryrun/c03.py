import sys,itertools,datetime
from lib import *
s=Srv(sys.argv[1] if len(sys.argv)>1 else "/tmp/exp/hr_serve")
segs=["a","b"]
paths=["/".join(p) for L in (1,2,3) for p in itertools.product(segs,repeat=L)]
def parse(out,single=False):
    rows=[]
    lines=out.split("\n")
    if lines and lines[-1]=="": lines=lines[:-1]
    total=None
    if single:
        assert lines[-2].startswith("-----------|"),lines
        total=float(lines[-1].split("|")[0]); lines=lines[:-2]
    for l in lines:
        m=re.match(r"^\s*(-?\d+\.\d\d) \| (( {2})*)(\S.*)$",l); assert m,repr(l)
        rows.append((len(m.group(2))//2,m.group(4),float(m.group(1))))
    # reconstruct
    stack=[];res=[];
    for i,(lvl,label,amt) in enumerate(rows):
        stack=stack[:lvl]; assert len(stack)==lvl,(rows,i)
        stack.append(label)
        path="/".join(stack)
        leaf = i+1>=len(rows) or rows[i+1][0]<=lvl
        res.append((path,amt,leaf))
    return res,total
def prefixfree(fs): return not any(a!=b and b.startswith(a+"/") for a in fs for b in fs)
bad=0;n=0
vals=[1,2,4,8]
for k in (1,2,3):
    for fs in itertools.combinations(paths,k):
        days=[(datetime.date(2021,1,1),[(f,vals[i]) for i,f in enumerate(fs)])]
        open("log.yaml","w").write(render_log(days))
        open("food.yaml","w").write("")
        truth={f:vals[i] for i,f in enumerate(fs)}
        outs={}
        for mode in ([],["-c"],["--collapse-last"]):
            r_=s.run(["--no-color","-d","food.yaml","-l","log.yaml","bal"]+mode); n+=1
            assert r_["err"]==[""]
            rows,_=parse(r_["out"][0]); outs[tuple(mode)]=rows
        d=outs[()]
        # default: every node amount == sum of foods at or below
        for path,amt,leaf in d:
            exp=sum(v for f,v in truth.items() if f==path or f.startswith(path+"/"))
            if exp!=amt: bad+=1; print("DEFAULT BAD",fs,path,amt,exp)
        if len(set(p for p,_,_ in d))!=len(d): bad+=1; print("DUP",fs)
        if prefixfree(fs):
            L0=sorted((p,a) for p,a,l in d if l)
            if L0!=sorted(truth.items()): bad+=1; print("LEAF0",fs,L0)
            for m in (("-c",),("--collapse-last",)):
                L=sorted((p,a) for p,a,l in outs[m] if l)
                if L!=L0:
                    bad+=1
                    if bad<6: print("MODE",m,fs,L,L0)
print("runs",n,"bad",bad)
