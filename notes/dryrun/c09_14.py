import sys,datetime,random
from lib import *
r=random.Random(int(sys.argv[1])); s=Srv()
base=datetime.date(2021,2,26)
badvals=["abc","1,5","1.2.3","--1","1x","1e","٣"]
names=["a/b","x y","ябълка","r1","q:z","he said \"hi\" ok","a, b"]
bad=0;n=0
fmts=[("%Y/%m/%d","2006/01/02"),("%Y-%m-%d","2006-01-02"),("%d.%m.%Y","02.01.2006"),("%b %-d %Y","Jan 2 2006"),("%d/%m/%y","02/01/06")]
for it in range(int(sys.argv[2])):
    # build log lines with known structure
    pyf,gof=r.choice(fmts)
    eol=r.choice(["\n","\r\n"])
    lines=[];planted=[];truth=[]
    if r.random()<.3: lines.append("# top comment")
    for d in range(r.randint(1,4)):
        day=base+datetime.timedelta(days=r.randint(0,5))
        lines.append(day.strftime(pyf)+":"); ents=[];notes=[]
        for e in range(r.randint(0,5)):
            k=r.random()
            if k<.15: lines.append("")
            elif k<.3: lines.append("# c")
            elif k<.45:
                kk,vv=r.choice(["note","barcode","k k"]),r.choice(["v","1 2 3","x: y"])
                if r.random()<.5: lines.append("  # %s: %s"%(kk,vv)); notes.append("  # %s: %s"%(kk,vv))
                else: lines.append("  #   plain text  "); notes.append("  # plain text")
            nm=r.choice(names); v=q(r)
            lines.append(r.choice(["  ","\t","  - "])+nm+": "+fmtq(v)); ents.append((nm,v))
            if r.random()<float(sys.argv[3]):
                kind=r.random()
                if kind<.3: l="  lonely"
                elif kind<.5: l="  "+r.choice(names)+":1"
                else: l="  "+r.choice(names)+": "+r.choice(badvals)
                lines.append(l); planted.append((len(lines),l))
        truth.append((day,ents,notes))
    text=eol.join(lines)+eol
    open("log.yaml","w",newline="").write(text); open("food.yaml","w").write("r1:\n  el: 2\n")
    G=["--no-color","--date-format",gof,"-d","food.yaml","-l","log.yaml"]
    lint=s.run(G+["lint","log.yaml"]); lo=lint["out"][0].split("\n")[:-1]
    n+=1
    exp_n=len(planted)
    msgs=[l for l in lo if l!="No errors found"]
    ok=len(msgs)==exp_n and all(("line %d"%ln) in m and ('"%s"'%raw) in m for m,(ln,raw) in zip(msgs,planted)) and (("No errors found" in lo)==(exp_n==0))
    if not ok: bad+=1; print("LINT",planted,lo)
    for c in (["reg"],["csv","log"],["print"],["bal"],["report","totals"],["stats"],["report","quantity"]):
        x=s.run(G+["--today",base.strftime(pyf)]+c); n+=1
        if planted:
            if x["err"][0]=="" or x["err"][0]!=msgs[0]: bad+=1; print("CMD",c,x["err"],msgs[:1])
        else:
            if x["err"][0]!="": bad+=1; print("CMDERR",c,x)
    if not planted:
        P=s.run(G+["print"])["out"][0]; open("p.yaml","w").write(P)
        P2=s.run(["--no-color","--date-format",gof,"-l","p.yaml","print"])["out"][0]; n+=1
        if P!=P2: bad+=1; print("IDEMP",repr(P),repr(P2))
        # expected normal form
        exp=""
        for day,ents,notes in truth:
            exp+=day.strftime(pyf)+":\n"+"".join(x+"\n" for x in notes)
            m={}
            for nm,v in ents: m[nm]=m.get(nm,0)+v
            exp+="".join("  - %s: %.2f\n"%(k,v) for k,v in m.items())+"\n"
        if exp!=P: bad+=1; print("NORMAL",repr(exp),repr(P))
print("checks",n,"bad",bad)
