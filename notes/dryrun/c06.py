import sys,datetime,random
from lib import *
r=random.Random(int(sys.argv[1])); s=Srv(sys.argv[3] if len(sys.argv)>3 else "/tmp/exp/hr_serve")
base=datetime.date(2021,2,26); win=[base+datetime.timedelta(days=i) for i in range(6)]
foods=["a/b","a/c","x","el1","r1","r2/z"]
book=[("r1",[("el1",2),("el2",3)]),("r2/z",[("r1",1),("el2",-1)])]
open("food.yaml","w").write(render_book(book))
cmds=[["reg"],["bal"],["bal","-s","el2"],["csv","log"],["print"],["report","totals"],["report","quantity"],["report","unresolved"],["reg","-s","el1"]]
subpos={"reg","bal","csv","print"}
bad=0;n=0
for it in range(int(sys.argv[2])):
    days=[(r.choice(win),[(r.choice(foods),q(r)) for _ in range(r.randint(0,4))]) for _ in range(r.randint(0,7))]
    open("log.yaml","w").write(render_log(days))
    cand=[None,base-datetime.timedelta(days=1)]+win+[base+datetime.timedelta(days=6)]
    for b in cand:
        for e in cand:
            sel=[(d,en) for d,en in days if (b is None or d>=b) and (e is None or d<=e)]
            open("sel.yaml","w").write(render_log(sel))
            c=r.choice(cmds)
            per=[]
            if b: per+=["-b",b.strftime("%Y/%m/%d")]
            if e: per+=["-e",e.strftime("%Y/%m/%d")]
            pos=r.choice(["g","s"]) if c[0] in subpos else "g"
            if pos=="g": args=["--no-color","-d","food.yaml","-l","log.yaml"]+per+c
            else:
                if c[0]=="csv": args=["--no-color","-d","food.yaml","-l","log.yaml","-b","2000/01/01","-e","2000/01/02"][:5+ (4 if b and e else 0)]+c+per
                else: args=["--no-color","-d","food.yaml","-l","log.yaml"]+c[:1]+per+c[1:]
            a=s.run(args); ref=s.run(["--no-color","-d","food.yaml","-l","sel.yaml"]+c)
            n+=1
            if a["out"]!=ref["out"] or a["err"]!=ref["err"]:
                bad+=1
                if bad<4: print("MISMATCH",args,a,ref)
print("runs",n,"bad",bad)
