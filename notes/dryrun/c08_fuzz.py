import random, subprocess, os, sys
from concurrent.futures import ThreadPoolExecutor
HR=sys.argv[1]; N=int(sys.argv[2]); seed=int(sys.argv[3])
food=open('/repo/examples/food.yaml','rb').read(); log=open('/repo/examples/log.yaml','rb').read()
cmds=[["reg"],["reg","--use-old-reg-reporter"],["reg","-s","calories"],["reg","-s","calories","-g"],["reg","-f","egg"],["bal"],["bal","-c"],["bal","--collapse-last"],["bal","-s","fat"],["bal","-s","fat","-c"],
["csv","log"],["csv","database"],["csv","database-resolved"],["print"],["summary","2021/01/24"],["report","totals"],["report","quantity"],["report","unresolved"],["report","element-total","fat"],["stats"],["lint","LOG"],["lint","DB"],["reg","--shorten"],["reg","--internal-template-name","left-aligned"]]
junk=[b":",b"-",b"\"",b"#",b"\t",b" ",b"\n",b"\r",b"\x00",b"\xff\xfe",b"NaN",b"Inf",b"-Inf",b"1e999",b"1e-999",b"0x1p-2",b"/",b"//",b"\xc3",b"9999999999999999999999",b"- ",b":\n",b"  x: 1\n",b"a:\n  a: 1\n"]
def mutate(r,b):
    b=bytearray(b)
    for _ in range(r.randint(1,6)):
        op=r.randint(0,6)
        if not b: b+=r.choice(junk); continue
        i=r.randrange(len(b))
        if op==0: del b[i:i+r.randint(1,20)]
        elif op==1: b[i:i]=r.choice(junk)
        elif op==2: b[i]=r.randrange(256)
        elif op==3: b=b[:i]
        elif op==4:
            lines=bytes(b).split(b"\n"); r.shuffle(lines); b=bytearray(b"\n".join(lines))
        elif op==5:
            lines=bytes(b).split(b"\n"); j=r.randrange(len(lines)); lines[j:j]=[lines[r.randrange(len(lines))]]*r.randint(1,3); b=bytearray(b"\n".join(lines))
        else: b[i:i+1]=r.choice(junk)
    return bytes(b)
def one(k):
    r=random.Random(seed*1000003+k)
    d=f"w{k%64}_{os.getpid()}_{k}"; os.makedirs(d,exist_ok=True)
    f=mutate(r,food) if r.random()<0.7 else (bytes(r.randrange(256) for _ in range(r.randint(0,200))) if r.random()<0.3 else food)
    l=mutate(r,log) if r.random()<0.7 else (bytes(r.randrange(256) for _ in range(r.randint(0,200))) if r.random()<0.3 else log)
    open(d+"/f","wb").write(f); open(d+"/l","wb").write(l)
    c=[ (d+"/l" if x=="LOG" else d+"/f" if x=="DB" else x) for x in r.choice(cmds)]
    extra=[]
    if r.random()<0.3: extra+=["--maxdepth",str(r.choice([1,2,3,50]))]
    try:
        p=subprocess.run([HR,"--no-color","-d",d+"/f","-l",d+"/l"]+extra+c,capture_output=True,timeout=20)
        bad = p.returncode not in (0,1) or b"panic" in p.stderr or b"fatal error" in p.stderr
        res=(bad,p.returncode,p.stderr[:300],c)
    except subprocess.TimeoutExpired:
        res=(True,"timeout",b"",c)
    if not res[0]:
        os.remove(d+"/f"); os.remove(d+"/l"); os.rmdir(d)
    return res+(d,)
with ThreadPoolExecutor(16) as ex:
    bad=[x for x in ex.map(one,range(N)) if x[0]]
print("bad",len(bad))
seen=set()
for b in bad:
    key=(b[1],b[2].split(b"\n")[0][:80],tuple(b[3][:2]))
    if key in seen: continue
    seen.add(key); print(b[1],b[3],b[4],b[2][:200])
