import sys,datetime,random,subprocess,os
from lib import render_log,q
HR=sys.argv[1]; r=random.Random(2)
T=datetime.date(2021,3,2)
offs=[-31,-30,-8,-7,-1,0,1]
kw={"today":0,"yesterday":-1,"last7":-7,"last30":-30}
bad=0;n=0
for it in range(int(sys.argv[2])):
    days=[(T+datetime.timedelta(days=o),[("f%d"%(o+40),1)]) for o in offs]; r.shuffle(days)
    open("log.yaml","w").write(render_log(days))
    for b in list(kw)+[None]:
        for e in list(kw)+[None]:
            lo=T+datetime.timedelta(days=kw[b]) if b else None; hi=T+datetime.timedelta(days=kw[e]) if e else None
            sel=[(d,x) for d,x in days if (lo is None or d>=lo) and (hi is None or d<=hi)]
            open("sel.yaml","w").write(render_log(sel))
            per=(["-b",b] if b else [])+(["-e",e] if e else [])
            outs=set()
            for tz in ("UTC","America/Los_Angeles","Asia/Tokyo","Pacific/Kiritimati"):
                for pos in ("g","s"):
                    args=[HR,"--no-color","--today",T.strftime("%Y/%m/%d"),"-l","log.yaml"]+(per+["csv","log"] if pos=="g" else ["csv","log"]+per)
                    p=subprocess.run(args,env={"TZ":tz,"PATH":"/usr/bin"},capture_output=True,text=True); n+=1
                    outs.add((p.returncode,p.stdout))
            ref=subprocess.run([HR,"--no-color","-l","sel.yaml","csv","log"],env={"PATH":"/usr/bin"},capture_output=True,text=True)
            if outs!={(ref.returncode,ref.stdout)}:
                bad+=1
                if bad<4: print("MISMATCH",b,e,outs,ref.stdout)
    # summary keyword
    for k,o in kw.items():
        if k.startswith("last"): continue
        for tz in ("UTC","America/Los_Angeles","Pacific/Kiritimati"):
            open("food.yaml","w").write("")
            p=subprocess.run([HR,"--no-color","--today",T.strftime("%Y/%m/%d"),"-d","food.yaml","-l","log.yaml","summary",k],env={"TZ":tz,"PATH":"/usr/bin"},capture_output=True,text=True); n+=1
            d=(T+datetime.timedelta(days=o)).strftime("%Y/%m/%d")
            if not p.stdout.startswith(d+" :") or p.stdout.count(" :\n")!=1: bad+=1; print("SUMMARY",k,tz,p.stdout)
print("runs",n,"bad",bad)
