import json,subprocess,os,random,itertools,re
class Srv:
    def __init__(s,binp="/tmp/exp/hr_serve",env=None):
        e={"VERIF_SERVE":"1","PATH":"/usr/bin"}; e.update(env or {})
        s.p=subprocess.Popen([binp],env=e,stdin=subprocess.PIPE,stdout=subprocess.PIPE,stderr=subprocess.DEVNULL,text=True)
    def run(s,args,reps=1,env={}):
        s.p.stdin.write(json.dumps({"args":args,"reps":reps,"env":env})+"\n"); s.p.stdin.flush()
        r=json.loads(s.p.stdout.readline())
        return r
def q(r):  # E-pool quantity
    return r.choice([0.25,0.5,0.75,1,1.25,1.5,2,2.5,3,4,-0.5,-1,-1.5,-2,0,10,7.75])
def fmtq(v):
    s=("%g"%v)
    return s
def render_log(days,fmt="%Y/%m/%d"):
    out=[]
    for d,ents in days:
        out.append(d.strftime(fmt)+":")
        for n,v in ents: out.append("  %s: %s"%(n,fmtq(v)))
        out.append("")
    return "\n".join(out)+"\n"
def render_book(book):
    out=[]
    for n,ents in book:
        out.append(n+":")
        for e,v in ents: out.append("  %s: %s"%(e,fmtq(v)))
        out.append("")
    return "\n".join(out)+"\n"
