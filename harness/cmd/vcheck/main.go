// vcheck: runs one property monitor against the binary/library built from /repo.
//
//	vcheck run <ID> [--tier quick|thorough]     (VERIF_SEED, VERIF_HR, VERIF_HR_ALT, VERIF_WORK)
//	vcheck replay <path>
package main

import (
	"encoding/json"
	"fmt"
	"os"
	"strconv"

	"verif/harness/checks"
	"verif/harness/core"
	"verif/harness/run"
)

func main() {
	if len(os.Args) < 3 {
		fmt.Fprintln(os.Stderr, "usage: vcheck run <ID> [--tier quick|thorough] | vcheck replay <path>")
		os.Exit(2)
	}
	seed := int64(1)
	if s := os.Getenv("VERIF_SEED"); s != "" {
		if v, err := strconv.ParseInt(s, 10, 64); err == nil {
			seed = v
		}
	}
	tier := os.Getenv("VERIF_TIER")
	for i := 3; i < len(os.Args); i++ {
		if os.Args[i] == "--tier" && i+1 < len(os.Args) {
			tier = os.Args[i+1]
		}
	}
	if tier != "thorough" {
		tier = "quick"
	}
	checks.EnsureReplay()
	switch os.Args[1] {
	case "run":
		ch := checks.Registry[os.Args[2]]
		if ch == nil {
			fmt.Fprintln(os.Stderr, "unknown check", os.Args[2])
			os.Exit(2)
		}
		c := core.NewCtx(ch.ID, tier, seed)
		c.Level = ch.Level
		c.HR = os.Getenv("VERIF_HR")
		c.HRAlt = os.Getenv("VERIF_HR_ALT")
		c.HRRace = os.Getenv("VERIF_HR_RACE")
		c.Work = os.Getenv("VERIF_WORK")
		if c.Work == "" {
			c.Work = core.Root + "/.work/" + ch.ID
		}
		os.MkdirAll(c.Work, 0o755)
		run.OnAbandon = func() {
			c.Inconclusive("job-servers", "the watchdog expired on 40 jobs of the in-process back-end; the run was ended early, the cases after that point were not run")
			os.Exit(c.Finish())
		}
		ch.Run(c)
		os.Exit(c.Finish())
	case "replay":
		b, err := os.ReadFile(os.Args[2])
		if err != nil {
			fmt.Fprintln(os.Stderr, err)
			os.Exit(2)
		}
		var doc struct {
			Property string          `json:"property"`
			Case     json.RawMessage `json:"case"`
		}
		if err := json.Unmarshal(b, &doc); err != nil {
			fmt.Fprintln(os.Stderr, err)
			os.Exit(2)
		}
		ch := checks.Registry[doc.Property]
		if ch == nil || ch.Replay == nil {
			fmt.Fprintln(os.Stderr, "no replay for", doc.Property)
			os.Exit(2)
		}
		c := core.NewCtx(ch.ID, tier, seed)
		c.HR = os.Getenv("VERIF_HR")
		c.Work = os.Getenv("VERIF_WORK")
		if c.Work == "" {
			c.Work = core.Root + "/.work/replay"
		}
		os.MkdirAll(c.Work, 0o755)
		if err := ch.Replay(c, doc.Case); err != nil {
			fmt.Println("REPLAY:", err)
			os.Exit(1)
		}
	}
}
