// Package model: executable reference models in exact rational arithmetic.
// Each is a few lines; none shares code with the program under test.
package model

import (
	"math/big"
	"sort"
	"strings"

	"verif/harness/gen"
)

// Elem is one resolved element.
type Elem struct {
	Name string
	V    *big.Rat
	A    *big.Rat // magnitude Σ|terms| that bounds the floating-point error of V (nil: |V|)
}

// Resolved maps every recipe of the book to its elements sorted by name.
type Resolved map[string][]Elem

// Resolve computes val(R)[x] = Σ_e coef(e)·val(e.name)[x], val(u) = {u:1} for
// names the book does not define. Elements reachable only through zero
// coefficients are present with value 0. The book must be acyclic. When a
// recipe name is declared twice the last declaration wins (map semantics).
func Resolve(b gen.Book) Resolved {
	def := map[string]gen.Recipe{}
	for _, r := range b {
		def[r.Name] = r
	}
	memo := map[string]map[string]*big.Rat{}
	visiting := map[string]bool{}
	var val func(name string) map[string]*big.Rat
	val = func(name string) map[string]*big.Rat {
		if m, ok := memo[name]; ok {
			return m
		}
		if visiting[name] {
			// a generator mistake, not a property violation: reported as a harness error by the caller
			panic("model.Resolve: the generated book is cyclic at " + name)
		}
		visiting[name] = true
		defer delete(visiting, name)
		rec, ok := def[name]
		if !ok {
			return map[string]*big.Rat{name: big.NewRat(1, 1)}
		}
		m := map[string]*big.Rat{}
		for _, e := range rec.Ents {
			for x, v := range val(e.Name) {
				p := new(big.Rat).Mul(e.Val.R, v)
				if old, ok := m[x]; ok {
					m[x] = p.Add(p, old)
				} else {
					m[x] = p
				}
			}
		}
		memo[name] = m
		return m
	}
	out := Resolved{}
	for name := range def {
		m := val(name)
		es := make([]Elem, 0, len(m))
		for x, v := range m {
			es = append(es, Elem{Name: x, V: v})
		}
		sort.Slice(es, func(i, j int) bool { return es[i].Name < es[j].Name })
		out[name] = es
	}
	return out
}

// AbsPaths is Σ_paths |Π coefficients| per (recipe, element): the magnitude that
// bounds floating-point error of any summation order.
func AbsPaths(b gen.Book) map[string]map[string]*big.Rat {
	ab := make(gen.Book, len(b))
	for i, r := range b {
		nr := gen.Recipe{Name: r.Name}
		for _, e := range r.Ents {
			nr.Ents = append(nr.Ents, gen.Ent{Name: e.Name, Val: gen.Num{Lit: e.Val.Lit, R: new(big.Rat).Abs(e.Val.R)}})
		}
		ab[i] = nr
	}
	res := Resolve(ab)
	out := map[string]map[string]*big.Rat{}
	for k, es := range res {
		m := map[string]*big.Rat{}
		for _, e := range es {
			m[e.Name] = e.V
		}
		out[k] = m
	}
	return out
}

// Chain returns the number of references on the longest chain of ingredient
// references starting at any recipe (the final reference to an undefined name
// counts), and whether the book is cyclic. An empty book or a book of empty
// recipes has chain 0.
func Chain(b gen.Book) (longest int, cyclic bool) {
	def := map[string]gen.Recipe{}
	for _, r := range b {
		def[r.Name] = r
	}
	const white, grey, black = 0, 1, 2
	color := map[string]int{}
	h := map[string]int{}
	var visit func(n string) int
	visit = func(n string) int {
		rec, ok := def[n]
		if !ok {
			return 0
		}
		switch color[n] {
		case grey:
			cyclic = true
			return 0
		case black:
			return h[n]
		}
		color[n] = grey
		best := 0
		for _, e := range rec.Ents {
			if d := 1 + visit(e.Name); d > best {
				best = d
			}
		}
		color[n] = black
		h[n] = best
		return best
	}
	for _, r := range b {
		if d := visit(r.Name); d > longest {
			longest = d
		}
	}
	return
}

// ---------------------------------------------------------------------------
// day accounting (register)

// Food is one distinct food of a day with its merged quantity and ingredient lines.
type Food struct {
	Name        string
	Qty         *big.Rat
	QtyAbs      *big.Rat // Σ |logged quantities| merged into Qty
	Ingredients []Elem   // qty × resolved element, or {food: qty}
	Defined     bool
}

// Total is one totals row.
type Total struct {
	Name          string
	Pos, Neg, Sum *big.Rat
	Abs           *big.Rat // Σ |contribution| (error bound)
}

// DayAcc is what the register must show for one day.
type DayAcc struct {
	Date   gen.Date
	Foods  []Food
	Totals []Total
}

// MergeDay merges repeated foods of a day in first-appearance order.
func MergeDay(d gen.Day) []gen.Ent {
	idx := map[string]int{}
	var out []gen.Ent
	for _, e := range d.Ents {
		if i, ok := idx[e.Name]; ok {
			out[i].Val = gen.Num{Lit: "", R: new(big.Rat).Add(out[i].Val.R, e.Val.R)}
		} else {
			idx[e.Name] = len(out)
			out = append(out, gen.Ent{Name: e.Name, Val: gen.Num{Lit: e.Val.Lit, R: new(big.Rat).Set(e.Val.R)}})
		}
	}
	return out
}

// Account computes the register view of one day. The optional abs (AbsPaths of the book) makes the
// magnitudes A / Abs bound the rounding error of values that are themselves sums of cancelling terms.
func Account(d gen.Day, res Resolved, absOpt ...map[string]map[string]*big.Rat) DayAcc {
	acc := DayAcc{Date: d.Date}
	var abs map[string]map[string]*big.Rat
	if len(absOpt) > 0 {
		abs = absOpt[0]
	}
	qabs := map[string]*big.Rat{}
	for _, e := range d.Ents {
		if qabs[e.Name] == nil {
			qabs[e.Name] = new(big.Rat)
		}
		qabs[e.Name].Add(qabs[e.Name], new(big.Rat).Abs(e.Val.R))
	}
	type tt struct{ pos, neg, abs *big.Rat }
	tot := map[string]*tt{}
	add := func(name string, v, mag *big.Rat) {
		t := tot[name]
		if t == nil {
			t = &tt{new(big.Rat), new(big.Rat), new(big.Rat)}
			tot[name] = t
		}
		if v.Sign() < 0 {
			t.neg.Add(t.neg, v)
		} else {
			t.pos.Add(t.pos, v)
		}
		t.abs.Add(t.abs, mag)
	}
	for _, e := range MergeDay(d) {
		f := Food{Name: e.Name, Qty: e.Val.R, QtyAbs: qabs[e.Name]}
		if es, ok := res[e.Name]; ok {
			f.Defined = true
			for _, x := range es {
				p := new(big.Rat).Mul(e.Val.R, x.V)
				mag := new(big.Rat).Abs(p)
				if abs != nil && abs[e.Name] != nil && abs[e.Name][x.Name] != nil {
					mag = new(big.Rat).Mul(qabs[e.Name], abs[e.Name][x.Name])
				}
				f.Ingredients = append(f.Ingredients, Elem{x.Name, p, mag})
				add(x.Name, p, mag)
			}
		} else {
			f.Ingredients = []Elem{{e.Name, e.Val.R, qabs[e.Name]}}
			add(e.Name, e.Val.R, qabs[e.Name])
		}
		acc.Foods = append(acc.Foods, f)
	}
	names := make([]string, 0, len(tot))
	for n := range tot {
		names = append(names, n)
	}
	sort.Strings(names)
	for _, n := range names {
		t := tot[n]
		acc.Totals = append(acc.Totals, Total{n, t.pos, t.neg, new(big.Rat).Add(t.pos, t.neg), t.abs})
	}
	return acc
}

// PeriodTotals sums the day totals of a log (sign routing per contribution).
func PeriodTotals(l gen.Log, res Resolved) []Total {
	m := map[string]*Total{}
	for _, d := range l {
		for _, t := range Account(d, res).Totals {
			// contributions are routed individually; day totals are already split by sign
			// of each contribution, so summing pos and neg separately is exact
			o := m[t.Name]
			if o == nil {
				o = &Total{Name: t.Name, Pos: new(big.Rat), Neg: new(big.Rat), Sum: new(big.Rat), Abs: new(big.Rat)}
				m[t.Name] = o
			}
			o.Pos.Add(o.Pos, t.Pos)
			o.Neg.Add(o.Neg, t.Neg)
			o.Sum.Add(o.Sum, t.Sum)
			o.Abs.Add(o.Abs, t.Abs)
		}
	}
	names := make([]string, 0, len(m))
	for n := range m {
		names = append(names, n)
	}
	sort.Strings(names)
	out := make([]Total, 0, len(m))
	for _, n := range names {
		out = append(out, *m[n])
	}
	return out
}

// Quantities returns Σ logged quantity per food over the log, and Σ|q|.
func Quantities(l gen.Log) (map[string]*big.Rat, map[string]*big.Rat) {
	q := map[string]*big.Rat{}
	a := map[string]*big.Rat{}
	for _, d := range l {
		for _, e := range d.Ents {
			if q[e.Name] == nil {
				q[e.Name] = new(big.Rat)
				a[e.Name] = new(big.Rat)
			}
			q[e.Name].Add(q[e.Name], e.Val.R)
			a[e.Name].Add(a[e.Name], new(big.Rat).Abs(e.Val.R))
		}
	}
	return q, a
}

// ---------------------------------------------------------------------------
// balance tree

// TreeRow is one node of the expected balance tree in pre-order.
type TreeRow struct {
	Path   string // segments joined by '/'
	Level  int
	Amount *big.Rat
	Abs    *big.Rat
	Leaf   bool
}

// Tree builds the expected balance tree (pre-order, siblings sorted by name)
// from per-food amounts: every node = Σ amounts of foods at or below its path.
func Tree(amounts map[string]*big.Rat, abs map[string]*big.Rat) []TreeRow {
	node := map[string]*TreeRow{}
	children := map[string]map[string]bool{}
	for food, v := range amounts {
		segs := strings.Split(food, "/")
		for i := 1; i <= len(segs); i++ {
			p := strings.Join(segs[:i], "/")
			parent := strings.Join(segs[:i-1], "/")
			if i == 1 {
				parent = "\x00root"
			}
			n := node[p]
			if n == nil {
				n = &TreeRow{Path: p, Level: i - 1, Amount: new(big.Rat), Abs: new(big.Rat)}
				node[p] = n
			}
			n.Amount.Add(n.Amount, v)
			if abs != nil && abs[food] != nil {
				n.Abs.Add(n.Abs, abs[food])
			} else {
				n.Abs.Add(n.Abs, new(big.Rat).Abs(v))
			}
			if children[parent] == nil {
				children[parent] = map[string]bool{}
			}
			children[parent][p] = true
		}
	}
	var out []TreeRow
	var walk func(parent string)
	walk = func(parent string) {
		// siblings sorted by their own segment name
		type kv struct{ seg, path string }
		var ks []kv
		for p := range children[parent] {
			seg := p
			if i := strings.LastIndex(p, "/"); i >= 0 && parent != "\x00root" {
				seg = p[len(parent)+1:]
			}
			ks = append(ks, kv{seg, p})
		}
		sort.Slice(ks, func(i, j int) bool { return ks[i].seg < ks[j].seg })
		for _, k := range ks {
			n := node[k.path]
			n.Leaf = len(children[k.path]) == 0
			out = append(out, *n)
			walk(k.path)
		}
	}
	walk("\x00root")
	return out
}
