// Package gen: seeded generators that know the ground truth of what they produce.
package gen

import (
	"fmt"
	"math/big"
	"math/rand"
	"strings"
	"time"
)

// Num is a number as written in a file together with its exact value.
type Num struct {
	Lit string
	R   *big.Rat
}

// N parses a decimal literal (optional sign, fraction, exponent) exactly.
func N(lit string) Num {
	r, ok := new(big.Rat).SetString(lit)
	if !ok {
		panic("gen.N: bad literal " + lit)
	}
	return Num{lit, r}
}

// F is the correctly rounded float64 of the literal (big.Rat → nearest double,
// independent of strconv).
func (n Num) F() float64 { f, _ := n.R.Float64(); return f }

// Quarter returns k/4 written as a plain decimal literal.
func Quarter(k int) Num {
	neg := k < 0
	a := k
	if neg {
		a = -k
	}
	s := fmt.Sprintf("%d", a/4)
	switch a % 4 {
	case 1:
		s += ".25"
	case 2:
		s += ".5"
	case 3:
		s += ".75"
	}
	if neg {
		s = "-" + s
	}
	return N(s)
}

// Half returns k/2.
func Half(k int) Num { return Quarter(2 * k) }

// Ent is one "name: value" line.
type Ent struct {
	Name string
	Val  Num
}

// Note is a "# key: value" (Key != "") or "# text" line under a heading.
type Note struct {
	Key  string
	Text string
}

// Recipe is one record of the book.
type Recipe struct {
	Name  string
	Ents  []Ent
	Notes []Note
}

// Book is an ordered list of recipes (declaration order).
type Book []Recipe

func (b Book) Defined() map[string]bool {
	m := map[string]bool{}
	for _, r := range b {
		m[r.Name] = true
	}
	return m
}

// Date is a calendar day.
type Date struct{ Y, M, D int }

func (d Date) Time() time.Time { return time.Date(d.Y, time.Month(d.M), d.D, 0, 0, 0, 0, time.UTC) }
func (d Date) Format(layout string) string {
	return d.Time().Format(layout)
}
func (d Date) AddDays(n int) Date {
	t := d.Time().AddDate(0, 0, n)
	return Date{t.Year(), int(t.Month()), t.Day()}
}
func (d Date) Less(o Date) bool  { return d.Time().Before(o.Time()) }
func (d Date) Equal(o Date) bool { return d == o }
func (d Date) ISO() string       { return d.Format("2006-01-02") }

// ParseDate parses a date printed with the given layout.
func ParseDate(layout, s string) (Date, error) {
	t, err := time.Parse(layout, s)
	if err != nil {
		return Date{}, err
	}
	return Date{t.Year(), int(t.Month()), t.Day()}, nil
}

// Day is one record of the log.
type Day struct {
	Date  Date
	Notes []Note
	Ents  []Ent
	// Head, when set, is the heading text to render instead of Date in the log's layout
	// (layouts with a time of day or a zone offset)
	Head string
	// NoColon: the heading line is written without the (optional) colon
	NoColon bool
}

// Log is an ordered list of days (file order; dates may repeat and be unsorted).
type Log []Day

// ---------------------------------------------------------------------------
// numbers

// EQty is an exact-pool logged quantity: a multiple of 1/2 of small magnitude.
func EQty(r *rand.Rand) Num {
	pool := []int{1, 2, 3, 4, 5, 6, 8, 20, -1, -2, -3, -4, 0, 7, 15, -9}
	return Half(pool[r.Intn(len(pool))])
}

// ELeaf is an exact-pool coefficient recipe→basic element: a multiple of 1/2.
func ELeaf(r *rand.Rand) Num {
	pool := []int{1, 2, 3, 4, 5, 7, 10, 24, 200, -1, -2, -6, -100, 0, 9, 31}
	return Half(pool[r.Intn(len(pool))])
}

// EInner is an exact-pool coefficient recipe→recipe: a small integer.
func EInner(r *rand.Rand) Num {
	pool := []int{1, 2, 3, 1, 2, -1, -2, 0, 4, 5}
	return Half(2 * pool[r.Intn(len(pool))])
}

// GNum is a general-pool decimal: arbitrary digits, sign, optional exponent.
func GNum(r *rand.Rand) Num {
	switch r.Intn(12) {
	case 0:
		return N([]string{"0.1", "0.2", "0.3", "2.675", "1.005", "0.125", "0.0005", "0.0025", "0.005", "0.015", "1e-3", "3.333", "123456.789", "123456.7895", "0", "1", "-0.1", "1e2", "2.5e-1", "-1E1", "1e+2", "0.045", "0.995", "9.995", "99.995", "010", "0755", "-012", "007.5", "1234567890.12", "98765432101234.5", "1e15", "4503599627370497", "-2147483648.5", "65536.005", "-1e-20", "4294967296", "2147483648"}[r.Intn(38)])
	case 1:
		return N(fmt.Sprintf("%d", r.Intn(2000)-300))
	case 2:
		return N(fmt.Sprintf("%d.%d", r.Intn(100), r.Intn(10)))
	case 3:
		return N(fmt.Sprintf("-%d.%02d", r.Intn(50), r.Intn(100)))
	case 4:
		return N(fmt.Sprintf("%d.%03d", r.Intn(1000), r.Intn(1000)))
	case 5:
		return N(fmt.Sprintf("%d.%04d5", r.Intn(10), r.Intn(10000)))
	case 6:
		return N(fmt.Sprintf("%d.%de%d", r.Intn(10), r.Intn(100), r.Intn(5)-2))
	case 7:
		return N(fmt.Sprintf("0.%05d", r.Intn(100000)))
	default:
		return N(fmt.Sprintf("%d.%02d", r.Intn(300), r.Intn(100)))
	}
}

// MachineLimitInts are plain integers around the limits of the 64-bit integer types (a quantity is a decimal number,
// not an int). They are not part of the general pool: next to ordinary amounts they make every sum a catastrophic
// cancellation, which only an oracle with an input-derived error bound can judge (C03, C04 use them).
var MachineLimitInts = []string{"9300000000000000000", "9223372036854775807", "9223372036854775808", "18446744073709551615", "18446744073709551616", "-9223372036854775809", "9999999999999999999"}

// ---------------------------------------------------------------------------
// names

var scripts = [][]rune{
	[]rune("abcdefghijklmnopqrstuvwxyz"),
	[]rune("ABCDEFGHIJKLMNOPQRSTUVWXYZ"),
	[]rune("0123456789"),
	[]rune("абвгдежзийклмнопрстуфхцчшщъьюяЖЩЯ"),
	[]rune("αβγδεζηθλμπσφωΩ"),
	[]rune("éèüöäñçßøåÉÜ"),
	[]rune("食品米茶水肉魚卵牛乳"),
	[]rune("אבגדהוז"),
	[]rune("कखगघचछज"),
}

// oddRunes look like blanks or like nothing but are ordinary data for the parser: no-break space,
// zero-width space, soft hyphen, combining acute accent, ideographic space. They are only used
// inside names (the ends of notes are trimmed with Unicode rules by design).
var oddRunes = []rune("\u00a0\u200b\u00ad\u0301\u3000\ufeff\u2026")

// NameOpts selects the alphabet of generated names.
type NameOpts struct {
	Unicode bool   // letters of many scripts
	Spaces  bool   // single and multiple inner blanks
	Slash   bool   // '/' separated segments
	Punct   string // inner punctuation characters allowed
	MaxLen  int    // maximum number of runes (default 12)
	MinLen  int
	// Edge: punctuation that may also begin or end a name. Only characters the parser does not
	// treat as syntax at the ends of a name qualify (not blank, tab, colon, quote, dash, and not
	// '#' at the start).
	Edge string
	// Invalid: a third of the names carry bytes that are not valid UTF-8 (a file saved as ISO-8859-1, a
	// truncated multi-byte rune, a surrogate half); Names then also adds siblings that differ only in the
	// invalid byte, or that have a rune above U+FFFD where the sibling has the invalid byte.
	Invalid bool
	// EdgeBlanks: one name in eight begins or ends with a Unicode blank that is not in the parser's trim set
	EdgeBlanks bool
}

var invalidSeqs = []string{"\xe9", "\xe8", "\xff", "\xf0", "\xc3", "\x80", "\xbd", "\xed\xa0\x80", "\xf4\x90\x80\x80", "\xe2\x82"}

// withInvalid inserts an invalid byte sequence between two runes of s (never at the ends).
func withInvalid(r *rand.Rand, s string) string {
	rs := []rune(s)
	if len(rs) < 2 {
		return s
	}
	at := 1 + r.Intn(len(rs)-1)
	return string(rs[:at]) + invalidSeqs[r.Intn(len(invalidSeqs))] + string(rs[at:])
}

// EdgePunct is the punctuation that is legitimate at either end of a name.
const EdgePunct = "=+@.,;'()&%*!?_\\[]{}<>|~^$"

func letterOrDigit(r *rand.Rand, o NameOpts) rune {
	if o.Unicode && r.Intn(3) == 0 {
		s := scripts[r.Intn(len(scripts))]
		return s[r.Intn(len(s))]
	}
	s := scripts[r.Intn(3)]
	if r.Intn(2) == 0 {
		s = scripts[0]
	}
	return s[r.Intn(len(s))]
}

// Name returns a name that starts and ends with a letter or digit; everything
// else (blanks, '/', punctuation) only occurs inside.
func Name(r *rand.Rand, o NameOpts) string {
	max := o.MaxLen
	if max == 0 {
		max = 12
	}
	min := o.MinLen
	if min < 1 {
		min = 1
	}
	n := min + r.Intn(max-min+1)
	rs := make([]rune, 0, n)
	edge := []rune(o.Edge)
	if len(edge) > 0 && n > 1 && r.Intn(6) == 0 {
		rs = append(rs, edge[r.Intn(len(edge))])
	} else {
		rs = append(rs, letterOrDigit(r, o))
	}
	for len(rs) < n-1 {
		k := r.Intn(20)
		switch {
		case k == 0 && o.Spaces:
			rs = append(rs, ' ')
			if r.Intn(4) == 0 {
				rs = append(rs, ' ')
			}
		case k == 1 && o.Slash:
			// no empty segments, no blanks around the separator
			if rs[len(rs)-1] != '/' && rs[len(rs)-1] != ' ' {
				rs = append(rs, '/')
				rs = append(rs, letterOrDigit(r, o))
			}
		case k == 3 && o.Unicode:
			rs = append(rs, oddRunes[r.Intn(len(oddRunes))])
		case k == 2 && o.Punct != "":
			p := []rune(o.Punct)
			rs = append(rs, p[r.Intn(len(p))])
		default:
			rs = append(rs, letterOrDigit(r, o))
		}
	}
	if n > 1 || len(rs) > 1 {
		// last rune: letter or digit (or edge punctuation)
		if len(edge) > 0 && r.Intn(6) == 0 {
			rs = append(rs, edge[r.Intn(len(edge))])
		} else {
			rs = append(rs, letterOrDigit(r, o))
		}
	}
	if o.EdgeBlanks && r.Intn(8) == 0 {
		// a blank the parser does not know as one (no-break space from a web page, ideographic space from an input
		// method, thin space) at the very beginning or end: part of the name, for the parser
		b := []rune("\u00a0\u3000\u2009\u202f\u0085")[r.Intn(5)]
		if r.Intn(2) == 0 {
			rs = append([]rune{b}, rs...)
		} else {
			rs = append(rs, b)
		}
	}
	s := string(rs)
	if o.Slash {
		// segments must not begin or end with a blank
		for strings.Contains(s, " /") || strings.Contains(s, "/ ") {
			s = strings.ReplaceAll(strings.ReplaceAll(s, " /", "/"), "/ ", "/")
		}
	}
	return s
}

var specialNames = []string{"null", "Null", "true", "false", "yes", "no", "on", "off", "~", "nan", "inf", "NaN", "1e3", "0x10", "12", "0.5", ".5", "1_000", "...", ".", "..", "%YAML 1.2", "!!str", "&anchor", "*alias", "<<", "@at", "`tick`", "|", ">", "[a]", "{a}", "a, b", "a=b", "$HOME", "${x}", "%s", "%d", "{{.}}", "\\n", "C:\\food", "<b>", "&amp;", "'", "''", "a'b", "(", ")", "*", "?", "+1", "1/2", "1:2",
	// a separator-and-comment-character sequence inside a name (only the last colon of a line separates)
	"tea: #2 blend", "a: #", "mix: # x: y", "b:#c", "soup: ; thick"}

// SpecialName draws one of the names that a YAML reader, a shell, a number parser or a careless line splitter
// would take for something else.
func SpecialName(r *rand.Rand) string { return specialNames[r.Intn(len(specialNames))] }

// Names returns n distinct names.
func Names(r *rand.Rand, n int, o NameOpts) []string {
	seen := map[string]bool{}
	var out []string
	for len(out) < n {
		s := Name(r, o)
		if o.Edge != "" && r.Intn(12) == 0 {
			// names that a YAML reader, a shell or a number parser would take for something else: here they are names
			s = specialNames[r.Intn(len(specialNames))]
		}
		if o.Invalid && r.Intn(3) == 0 {
			s = withInvalid(r, s)
			if r.Intn(2) == 0 && len(out)+2 < n {
				// siblings: same text with another invalid byte / with a valid rune above U+FFFD in its place
				rs := []rune(s) // the invalid bytes decode to U+FFFD one by one
				_ = rs
				for _, alt := range []string{"\xe8", "\U0001F375", "\xff"} {
					for _, q := range invalidSeqs {
						if i := strings.Index(s, q); i >= 0 && q != alt {
							t := s[:i] + alt + s[i+len(q):]
							if !seen[t] && len(out)+1 < n {
								seen[t] = true
								out = append(out, t)
							}
							break
						}
					}
				}
			}
		}
		if s == "h" || s == "help" {
			// the CLI library gives every command a "help, h" sub-command; see DESIGN (finding D14)
			continue
		}
		if !seen[s] {
			seen[s] = true
			out = append(out, s)
		}
	}
	return out
}

// HashTwins are pairs of different names with the same value under a common non-cryptographic 32-bit
// hash (FNV-1, FNV-1a, FNV-1a/64 folded, djb2 in both variants, sdbm, the times-31 hash, CRC-32, Adler-32,
// MurmurHash3 with seed 0): a table keyed by such a hash alone takes them for one name.
var HashTwins = [][2]string{
	{"costarring", "liquid"}, {"declinate", "macallums"}, {"beef/pea 186", "jam/rice 420"}, // FNV-1a
	{"yam/okra 59", "tofu/bun 12"},               // FNV-1
	{"beef/pear 43", "okra/kale 108"},            // FNV-1a 64 folded to 32
	{"kale/lime 18", "bun/okra 830"},             // djb2 (add)
	{"yam/ham 75", "plum/kale 400"},              // djb2 (xor)
	{"lime/fig 980", "pie/nut 1006"},             // sdbm
	{"Aa", "BB"}, {"pie/rice 61", "dal/pea 300"}, // h*31+c
	{"plumless", "buckeroo"}, {"bun/soy 669", "egg/tuna 802"}, // CRC-32
	{"oat/fig 14", "oat/ham 50"},     // Adler-32
	{"dal/beef 52", "lime/plum 100"}, // MurmurHash3 x86_32, seed 0
}

// PunctAll is the inner punctuation of the documented-format generators.
const PunctAll = ".,;:'()&%+*=!?@_-\"#"

// ---------------------------------------------------------------------------
// books

// BookOpts drives RandomBook.
type BookOpts struct {
	Recipes  int  // number of recipes
	Basics   int  // number of basic (undefined) element names
	MaxDepth int  // longest reference chain (in references, incl. the final one to a basic name) is <= MaxDepth
	Exact    bool // E pool (exact arithmetic with two decimals) or G pool
	Names    NameOpts
	// RecipeNames / BasicNames, when given, are used instead of generated ones.
	RecipeNames []string
	BasicNames  []string
	NoEmpty     bool
	Wide        bool // recipes with dozens of ingredients (more than 32 distinct elements)
	Redeclare   bool // some recipe headings occur twice in the file: the later declaration replaces the earlier one
	NoRepeat    bool // no repeated ingredient inside a recipe
	NoZero      bool
}

// RandomBook builds a layered DAG of recipes. Layer 1 recipes refer to basic
// names only; a layer k recipe refers to at least one recipe of layer k-1 and
// otherwise to anything below. Declaration order is shuffled, so forward and
// backward references both occur. Diamonds, repeated ingredients and empty
// recipes are produced with fixed probabilities.
func RandomBook(r *rand.Rand, o BookOpts) Book {
	if o.MaxDepth < 1 {
		o.MaxDepth = 1
	}
	rn := o.RecipeNames
	bn := o.BasicNames
	if rn == nil || bn == nil {
		all := Names(r, o.Recipes+o.Basics, o.Names)
		rn, bn = all[:o.Recipes], all[o.Recipes:]
	}
	layer := make([]int, len(rn))
	byLayer := map[int][]int{}
	for i := range rn {
		l := 1
		if o.MaxDepth > 1 && i > 0 {
			l = 1 + r.Intn(o.MaxDepth)
			// keep layers contiguous: a layer needs the one below it to be populated
			for l > 1 && len(byLayer[l-1]) == 0 {
				l--
			}
		}
		layer[i] = l
		byLayer[l] = append(byLayer[l], i)
	}
	leaf := func() Num {
		if o.Exact {
			v := ELeaf(r)
			for o.NoZero && v.R.Sign() == 0 {
				v = ELeaf(r)
			}
			return v
		}
		return GNum(r)
	}
	inner := func() Num {
		if o.Exact {
			v := EInner(r)
			for o.NoZero && v.R.Sign() == 0 {
				v = EInner(r)
			}
			return v
		}
		if r.Intn(2) == 0 {
			return N([]string{"0.4", "0.2", "0.25", "1.5", "2", "0.1", "-1", "3", "0.333"}[r.Intn(9)])
		}
		return GNum(r)
	}
	book := make(Book, len(rn))
	for i, name := range rn {
		rec := Recipe{Name: name}
		l := layer[i]
		if l == 1 && !o.NoEmpty && r.Intn(12) == 0 {
			book[i] = rec // empty recipe
			continue
		}
		used := map[string]bool{}
		add := func(n string, v Num) {
			if o.NoRepeat && used[n] {
				return
			}
			used[n] = true
			rec.Ents = append(rec.Ents, Ent{n, v})
		}
		if l > 1 {
			below := byLayer[l-1]
			add(rn[below[r.Intn(len(below))]], inner())
		}
		k := 1 + r.Intn(4)
		if o.Wide && r.Intn(2) == 0 {
			k = 25 + r.Intn(35)
		}
		for j := 0; j < k; j++ {
			if l > 1 && r.Intn(2) == 0 {
				// any recipe of a lower layer (sharing / diamonds)
				ll := 1 + r.Intn(l-1)
				c := byLayer[ll]
				add(rn[c[r.Intn(len(c))]], inner())
			} else if len(bn) > 0 {
				add(bn[r.Intn(len(bn))], leaf())
			}
		}
		if !o.NoRepeat && len(rec.Ents) > 0 && r.Intn(5) == 0 {
			// repeated ingredient
			e := rec.Ents[r.Intn(len(rec.Ents))]
			if book.isRecipeName(rn, e.Name) {
				rec.Ents = append(rec.Ents, Ent{e.Name, inner()})
			} else {
				rec.Ents = append(rec.Ents, Ent{e.Name, leaf()})
			}
		}
		r.Shuffle(len(rec.Ents), func(a, b int) { rec.Ents[a], rec.Ents[b] = rec.Ents[b], rec.Ents[a] })
		book[i] = rec
	}
	r.Shuffle(len(book), func(a, b int) { book[a], book[b] = book[b], book[a] })
	if o.Redeclare && len(book) > 0 && len(bn) > 0 {
		// later declarations of an existing heading: empty, empty with notes, or basic elements only
		// (so the book stays acyclic whatever the earlier declaration said)
		for k := 0; k < 1+r.Intn(2); k++ {
			rec := Recipe{Name: book[r.Intn(len(book))].Name}
			switch r.Intn(3) {
			case 1:
				rec.Notes = RandomNotes(r)
			case 2:
				rec.Ents = []Ent{{bn[r.Intn(len(bn))], leaf()}}
			}
			book = append(book, rec)
		}
	}
	return book
}

func (Book) isRecipeName(rn []string, n string) bool {
	for _, x := range rn {
		if x == n {
			return true
		}
	}
	return false
}

// ---------------------------------------------------------------------------
// logs

// LogOpts drives RandomLog.
type LogOpts struct {
	Days       int
	MaxEnts    int
	Foods      []string // names to log (recipes, basic elements, foods unknown to the book)
	Exact      bool
	Start      Date
	Sorted     bool // dates ascending (else any order, repeats allowed)
	Notes      bool
	EmptyDays  bool
	NoDupFoods bool
}

// RandomLog builds a log over the given food names.
func RandomLog(r *rand.Rand, o LogOpts) Log {
	if o.Start.Y == 0 {
		o.Start = Date{2021, 1, 24}
	}
	if o.MaxEnts == 0 {
		o.MaxEnts = 6
	}
	var log Log
	d := o.Start
	for i := 0; i < o.Days; i++ {
		if o.Sorted {
			d = d.AddDays(r.Intn(3))
		} else {
			d = o.Start.AddDays(r.Intn(9) - 2)
		}
		day := Day{Date: d}
		n := 1 + r.Intn(o.MaxEnts)
		if o.EmptyDays && r.Intn(8) == 0 {
			n = 0
		}
		seen := map[string]bool{}
		if len(o.Foods) >= 34 && n > 0 && !o.NoDupFoods && r.Intn(3) == 0 {
			// a long day: more than 32 different foods first, then repeats of early, late and boundary ones
			idx := r.Perm(len(o.Foods))
			distinct := 33 + r.Intn(min(len(o.Foods)-32, 45))
			qty := func() Num {
				if o.Exact {
					return EQty(r)
				}
				return GNum(r)
			}
			names := map[string]bool{}
			for _, k := range idx {
				if len(names) >= distinct {
					break
				}
				if !names[o.Foods[k]] {
					names[o.Foods[k]] = true
					day.Ents = append(day.Ents, Ent{o.Foods[k], qty()})
				}
			}
			for _, pos := range []int{0, 31, 32, 33, len(day.Ents) - 1, r.Intn(len(day.Ents))} {
				if pos < len(day.Ents) && r.Intn(3) > 0 {
					day.Ents = append(day.Ents, Ent{day.Ents[pos].Name, qty()})
				}
			}
			n = 0
		}
		for j := 0; j < n; j++ {
			f := o.Foods[r.Intn(len(o.Foods))]
			if j > 0 && !o.NoDupFoods && r.Intn(6) == 0 {
				f = day.Ents[r.Intn(len(day.Ents))].Name // repeated food within the day
			}
			if o.NoDupFoods && seen[f] {
				continue
			}
			seen[f] = true
			var v Num
			if o.Exact {
				v = EQty(r)
			} else {
				v = GNum(r)
			}
			day.Ents = append(day.Ents, Ent{f, v})
		}
		if o.Notes && r.Intn(3) == 0 {
			day.Notes = RandomNotes(r)
		}
		log = append(log, day)
	}
	return log
}

// RandomNotes returns notes of the two documented forms, already in normal form
// (no surrounding blanks, single-line).
func RandomNotes(r *rand.Rand) []Note {
	var ns []Note
	k := 1 + r.Intn(3)
	for i := 0; i < k; i++ {
		o := NameOpts{Unicode: true, Spaces: true, MaxLen: 10, Punct: ".,;'()&%+*=!?@_-/\""}
		if r.Intn(2) == 0 {
			// the value of a keyed note may itself contain colons (only the first one separates)
			v := o
			v.Punct += ":"
			ns = append(ns, Note{Key: Name(r, NameOpts{Spaces: true, MaxLen: 8}), Text: Name(r, v)})
		} else {
			ns = append(ns, Note{Text: Name(r, o)})
		}
	}
	return ns
}

// ---------------------------------------------------------------------------
// rendering

// Style chooses the layout of a rendered file. The zero value (or nil rng) is
// the canonical layout: two-space indentation, LF, one blank line after a record.
type Style struct {
	R        *rand.Rand
	CRLF     bool
	NoEOL    bool // last line without line terminator
	Comments bool // comment lines at column 0 and blank/whitespace-only lines anywhere
	Dashes   bool // "- " list dashes
	Quotes   bool // quoted names
	Tabs     bool // tab / mixed indentation, tabs after the colon
	Trailing bool // trailing blanks
	Compact  bool // no blank line between records
	Comment  byte // comment character (0: '#'); the parser's CommentChar must be configured to match
	// NoteIndentOnly: notes rendered (they are always indented)
}

// Hostile returns a style that uses every documented layout variant at random.
func Hostile(r *rand.Rand) *Style {
	return &Style{R: r, CRLF: r.Intn(3) == 0, NoEOL: r.Intn(4) == 0, Comments: true, Dashes: true, Quotes: true, Tabs: true, Trailing: true, Compact: r.Intn(3) == 0}
}

func (s *Style) cc() string {
	if s == nil || s.Comment == 0 {
		return "#"
	}
	return string([]byte{s.Comment})
}

func (s *Style) coin(n int) bool { return s != nil && s.R != nil && s.R.Intn(n) == 0 }

func (s *Style) eol() string {
	if s != nil && s.CRLF {
		return "\r\n"
	}
	return "\n"
}

func (s *Style) indent() string {
	if s == nil || s.R == nil {
		return "  "
	}
	if s.Tabs {
		switch s.R.Intn(8) {
		case 0:
			return "\t"
		case 1:
			return "\t\t"
		case 2:
			return " \t"
		case 3:
			return "\t "
		}
	}
	return strings.Repeat(" ", 1+s.R.Intn(4))
}

func (s *Style) trail() string {
	if s != nil && s.Trailing && s.coin(5) {
		return []string{" ", "  ", "\t", " \t"}[s.R.Intn(4)]
	}
	return ""
}

func (s *Style) filler(sb *strings.Builder) {
	if s == nil || !s.Comments || s.R == nil {
		return
	}
	for s.coin(6) {
		switch s.R.Intn(5) {
		case 0:
			sb.WriteString(s.eol())
		case 1:
			sb.WriteString("   " + s.eol())
		case 2:
			sb.WriteString(s.cc() + " a comment: 12" + s.eol())
		case 3:
			sb.WriteString(s.cc() + s.eol())
		case 4:
			// a heading that was commented out, its former lines left in place: a comment like any other
			sb.WriteString(s.cc() + []string{"2021/01/02:", "lunch:", " 2021/01/03:", "old/recipe:"}[s.R.Intn(4)] + s.eol())
		}
	}
}

func (s *Style) heading(sb *strings.Builder, name string) {
	h := name
	if (s != nil && s.Quotes && s.coin(6)) || (strings.HasPrefix(name, "#") && (s == nil || s.Comment == 0 || s.Comment == '#')) {
		// a name that begins with the comment character can only be a heading, and only in quotes
		h = `"` + name + `"`
	}
	sb.WriteString(h + ":" + s.trail() + s.eol())
}

func (s *Style) entry(sb *strings.Builder, e Ent) {
	ind := s.indent()
	if s != nil && s.Dashes && s.coin(3) {
		ind += "- "
	}
	n := e.Name
	if s != nil && s.Quotes && s.coin(6) {
		n = `"` + n + `"`
	}
	sep := " "
	if s != nil && s.R != nil && s.Tabs {
		sep = []string{" ", "  ", "\t", " \t", "   "}[s.R.Intn(5)]
	}
	sb.WriteString(ind + n + ":" + sep + e.Val.Lit + s.trail() + s.eol())
}

func (s *Style) note(sb *strings.Builder, n Note) {
	ind := s.indent()
	sp := " "
	if s != nil && s.R != nil && s.coin(4) {
		sp = []string{"", "  ", "\t"}[s.R.Intn(3)]
	}
	if n.Key != "" {
		sb.WriteString(ind + s.cc() + sp + n.Key + ":" + sp + n.Text + s.trail() + s.eol())
	} else {
		sb.WriteString(ind + s.cc() + sp + n.Text + s.trail() + s.eol())
	}
}

func (s *Style) record(sb *strings.Builder, head string, notes []Note, ents []Ent) {
	s.filler(sb)
	s.heading(sb, head)
	// notes may be interleaved with entries in the file; the parser attaches them to the record
	ni := 0
	for _, e := range ents {
		for ni < len(notes) && (s == nil || s.R == nil || s.R.Intn(2) == 0) {
			s.note(sb, notes[ni])
			ni++
		}
		s.filler(sb)
		s.entry(sb, e)
	}
	for ; ni < len(notes); ni++ {
		s.note(sb, notes[ni])
	}
	if s == nil || !s.Compact {
		sb.WriteString(s.eol())
	}
}

func (s *Style) finish(sb *strings.Builder) string {
	out := sb.String()
	if s != nil && s.NoEOL {
		out = strings.TrimRight(out, "\r\n")
		// a trailing blank-only tail could otherwise remain; that is fine
	}
	return out
}

// leadNote: an indented note line above the first heading of a file (a remark left by an export tool): it belongs
// to no record and is not data; the records below it are what they are without it.
func (s *Style) leadNote(sb *strings.Builder) {
	if s == nil || !s.Comments || s.R == nil || !s.coin(8) {
		return
	}
	ind := s.indent()
	if s.Dashes && s.coin(4) {
		ind += "- "
	}
	sb.WriteString(ind + s.cc() + []string{" exported from the kitchen spreadsheet", "", " source: an app", " x: 1"}[s.R.Intn(4)] + s.eol())
}

// RenderBook renders a book.
func RenderBook(b Book, s *Style) string {
	var sb strings.Builder
	s.leadNote(&sb)
	for _, rec := range b {
		s.record(&sb, rec.Name, rec.Notes, rec.Ents)
	}
	s.filler(&sb)
	return s.finish(&sb)
}

// RenderLog renders a log with the given date layout.
func RenderLog(l Log, layout string, s *Style) string {
	var sb strings.Builder
	s.leadNote(&sb)
	for _, d := range l {
		head := d.Date.Format(layout)
		if d.Head != "" {
			head = d.Head
		}
		start := sb.Len()
		s.record(&sb, head, d.Notes, d.Ents)
		if d.NoColon {
			// the colon after a heading is optional for the parser: drop the one that follows this heading
			text := sb.String()
			if k := strings.Index(text[start:], head); k >= 0 {
				at := start + k + len(head)
				if at < len(text) && text[at] == '"' {
					at++
				}
				if at < len(text) && text[at] == ':' {
					sb.Reset()
					sb.WriteString(text[:at] + text[at+1:])
				}
			}
		}
	}
	s.filler(&sb)
	return s.finish(&sb)
}

// Concat returns the concatenation of logs.
func Concat(ls ...Log) Log {
	var out Log
	for _, l := range ls {
		out = append(out, l...)
	}
	return out
}
