// Package obs: parsers for what the program prints. They anchor on the numeric
// fields and tolerate any run of blanks, so a change of column width is not an
// alarm; they return an error when the output does not have the expected shape.
package obs

import (
	"fmt"
	"math/big"
	"regexp"
	"strings"
)

var ansi = regexp.MustCompile("\x1b\\[[0-9;]*m")

// StripANSI removes colour escape sequences.
func StripANSI(s string) string { return ansi.ReplaceAllString(s, "") }

// Dec parses a printed decimal exactly.
func Dec(s string) (*big.Rat, bool) {
	if !decRe.MatchString(s) {
		return nil, false
	}
	return new(big.Rat).SetString(s)
}

var decRe = regexp.MustCompile(`^-?\d+(\.\d+)?$`)

// Lines splits output into lines without the final empty one.
func Lines(s string) []string {
	if s == "" {
		return nil
	}
	s = strings.TrimSuffix(s, "\n")
	return strings.Split(s, "\n")
}

const num = `(-?\d+\.\d+)`

// ---------------------------------------------------------------------------
// register

type NameVal struct {
	Name string
	V    *big.Rat
	Raw  string
}

type TotalRow struct {
	Name          string
	Pos, Neg, Sum *big.Rat
	Raw           [3]string
}

type RegFood struct {
	Name        string
	Qty         *big.Rat
	Raw         string
	Ingredients []NameVal
}

type RegDay struct {
	Date      string
	Foods     []RegFood
	HasTotals bool // a TOTAL header was printed
	Totals    []TotalRow
}

var (
	regFoodRe  = regexp.MustCompile(`^\t(\S.*?)\s*:\s*` + num + `$`)
	regIngRe   = regexp.MustCompile(`^\t\t\s*(\S.*?)\s+` + num + `$`)
	regTotRe   = regexp.MustCompile(`^\t\t\s*(\S.*?)\s+` + num + `\s+` + num + `\s+=\s*` + num + `$`)
	regTotHdr  = regexp.MustCompile(`^\t-- TOTAL\s+-+$`)
	laFoodRe   = regexp.MustCompile(`^  \s*` + num + `  (\S.*)$`)
	laIngRe    = regexp.MustCompile(`^  \s*` + num + `    (\S.*)$`)
	laTotRe    = regexp.MustCompile(`^  \s*` + num + `\s+` + num + `\s+=\s+` + num + `  (\S.*)$`)
	laTotHdr   = regexp.MustCompile(`^-+ TOTAL --$`)
	foodGreedy = regexp.MustCompile(`^\t(\S.*\S|\S)\s*:\s*` + num + `$`)
)

func mustDec(s string) *big.Rat {
	r, ok := Dec(s)
	if !ok {
		return new(big.Rat)
	}
	return r
}

// ParseReg parses `reg` output of the default template and of the old reporter
// (same line shapes). Input must be free of colour codes.
func ParseReg(out string) ([]RegDay, error) {
	var days []RegDay
	var cur *RegDay
	inTotals := false
	for i, ln := range Lines(out) {
		switch {
		case !strings.HasPrefix(ln, "\t"):
			days = append(days, RegDay{Date: ln})
			cur = &days[len(days)-1]
			inTotals = false
		case cur == nil:
			return nil, fmt.Errorf("line %d: %q before any date line", i+1, ln)
		case regTotHdr.MatchString(ln):
			cur.HasTotals = true
			inTotals = true
		case strings.HasPrefix(ln, "\t\t"):
			if inTotals {
				m := regTotRe.FindStringSubmatch(ln)
				if m == nil {
					return nil, fmt.Errorf("line %d: bad totals row %q", i+1, ln)
				}
				cur.Totals = append(cur.Totals, TotalRow{m[1], mustDec(m[2]), mustDec(m[3]), mustDec(m[4]), [3]string{m[2], m[3], m[4]}})
			} else {
				m := regIngRe.FindStringSubmatch(ln)
				if m == nil || len(cur.Foods) == 0 {
					return nil, fmt.Errorf("line %d: bad ingredient row %q", i+1, ln)
				}
				f := &cur.Foods[len(cur.Foods)-1]
				f.Ingredients = append(f.Ingredients, NameVal{m[1], mustDec(m[2]), m[2]})
			}
		default:
			if inTotals {
				return nil, fmt.Errorf("line %d: food row %q after totals", i+1, ln)
			}
			m := foodGreedy.FindStringSubmatch(ln)
			if m == nil {
				return nil, fmt.Errorf("line %d: bad food row %q", i+1, ln)
			}
			cur.Foods = append(cur.Foods, RegFood{Name: strings.TrimRight(m[1], " "), Qty: mustDec(m[2]), Raw: m[2]})
		}
	}
	return days, nil
}

// ParseRegLeft parses the left-aligned template.
func ParseRegLeft(out string) ([]RegDay, error) {
	var days []RegDay
	var cur *RegDay
	inTotals := false
	for i, ln := range Lines(out) {
		switch {
		case laTotHdr.MatchString(ln):
			if cur == nil {
				return nil, fmt.Errorf("line %d: totals header before date", i+1)
			}
			cur.HasTotals = true
			inTotals = true
		case !strings.HasPrefix(ln, "  "):
			days = append(days, RegDay{Date: ln})
			cur = &days[len(days)-1]
			inTotals = false
		case cur == nil:
			return nil, fmt.Errorf("line %d: %q before any date line", i+1, ln)
		case inTotals:
			m := laTotRe.FindStringSubmatch(ln)
			if m == nil {
				return nil, fmt.Errorf("line %d: bad totals row %q", i+1, ln)
			}
			cur.Totals = append(cur.Totals, TotalRow{m[4], mustDec(m[1]), mustDec(m[2]), mustDec(m[3]), [3]string{m[1], m[2], m[3]}})
		default:
			if m := laIngRe.FindStringSubmatch(ln); m != nil && len(cur.Foods) > 0 {
				f := &cur.Foods[len(cur.Foods)-1]
				f.Ingredients = append(f.Ingredients, NameVal{m[2], mustDec(m[1]), m[1]})
			} else if m := laFoodRe.FindStringSubmatch(ln); m != nil {
				cur.Foods = append(cur.Foods, RegFood{Name: m[2], Qty: mustDec(m[1]), Raw: m[1]})
			} else {
				return nil, fmt.Errorf("line %d: bad row %q", i+1, ln)
			}
		}
	}
	return days, nil
}

// ---------------------------------------------------------------------------
// balance

type BalRow struct {
	Level  int
	Label  string
	Amount *big.Rat
	Raw    string
}

type Bal struct {
	Rows     []BalRow
	HasGrand bool
	Grand    *big.Rat
	GrandRaw string
	GrandTag string
}

var (
	balRowRe = regexp.MustCompile(`^\s*` + num + ` \| (.*)$`)
	balSepRe = regexp.MustCompile(`^-+\|$`)
)

// ParseBal parses `bal` output (all modes). Level = number of two-blank
// indentation units before the label; labels therefore must not start with a blank.
func ParseBal(out string) (Bal, error) {
	var b Bal
	lines := Lines(out)
	for i := 0; i < len(lines); i++ {
		ln := lines[i]
		if balSepRe.MatchString(ln) {
			if i+2 != len(lines) {
				return b, fmt.Errorf("line %d: separator not followed by exactly one grand total line", i+1)
			}
			m := balRowRe.FindStringSubmatch(lines[i+1])
			if m == nil {
				return b, fmt.Errorf("line %d: bad grand total %q", i+2, lines[i+1])
			}
			b.HasGrand, b.Grand, b.GrandRaw, b.GrandTag = true, mustDec(m[1]), m[1], m[2]
			return b, nil
		}
		m := balRowRe.FindStringSubmatch(ln)
		if m == nil {
			return b, fmt.Errorf("line %d: bad row %q", i+1, ln)
		}
		label := m[2]
		lvl := 0
		for strings.HasPrefix(label, "  ") {
			label = label[2:]
			lvl++
		}
		b.Rows = append(b.Rows, BalRow{lvl, label, mustDec(m[1]), m[1]})
	}
	return b, nil
}

// BalPaths reconstructs full paths: path = parent path + label (a label may
// contain several '/'-joined segments in collapse modes). Returns rows with
// Label replaced by the full path, and for each row whether it has child rows.
func BalPaths(rows []BalRow) (paths []string, leaf []bool, err error) {
	var stack []string
	paths = make([]string, len(rows))
	leaf = make([]bool, len(rows))
	for i, r := range rows {
		if r.Level > len(stack) {
			return nil, nil, fmt.Errorf("row %d (%q): level %d jumps over its parent", i, r.Label, r.Level)
		}
		stack = stack[:r.Level]
		p := r.Label
		if r.Level > 0 {
			p = stack[r.Level-1] + "/" + r.Label
		}
		stack = append(stack, p)
		paths[i] = p
		leaf[i] = i+1 >= len(rows) || rows[i+1].Level <= r.Level
	}
	return
}

// ---------------------------------------------------------------------------
// tabular reports

// ParseTotals parses `report totals`: header + "%12.2f  %12.2f  %12.2f  %s".
func ParseTotals(out string) ([]TotalRow, error) {
	lines := Lines(out)
	if len(lines) == 0 {
		return nil, nil
	}
	if f := strings.Fields(lines[0]); len(f) != 4 || f[0] != "positive" || f[1] != "negative" || f[2] != "sum" || f[3] != "element" {
		return nil, fmt.Errorf("bad header %q", lines[0])
	}
	re := regexp.MustCompile(`^\s*` + num + `\s+` + num + `\s+` + num + `  (.*)$`)
	var rows []TotalRow
	for i, ln := range lines[1:] {
		m := re.FindStringSubmatch(ln)
		if m == nil {
			return nil, fmt.Errorf("line %d: bad row %q", i+2, ln)
		}
		rows = append(rows, TotalRow{m[4], mustDec(m[1]), mustDec(m[2]), mustDec(m[3]), [3]string{m[1], m[2], m[3]}})
	}
	return rows, nil
}

var valTabName = regexp.MustCompile(`^\s*` + num + `\t(.*)$`)

// ParseValTabName parses "%0.2f\t%s" rows (report quantity, element-total, reg -s -g).
func ParseValTabName(out string) ([]NameVal, error) {
	var rows []NameVal
	for i, ln := range Lines(out) {
		m := valTabName.FindStringSubmatch(ln)
		if m == nil {
			return nil, fmt.Errorf("line %d: bad row %q", i+1, ln)
		}
		rows = append(rows, NameVal{m[2], mustDec(m[1]), m[1]})
	}
	return rows, nil
}

// SingleRow is one row of `reg -s X`.
type SingleRow struct {
	Date          string
	Name          string
	Pos, Neg, Sum *big.Rat // Neg as printed (the program prints -1·negative)
}

// ParseRegSingle parses `reg -s X` rows: "<date> <name right-aligned> pos neg =sum".
// The date layout must not contain blanks followed by a name-like token; the
// element name is given to cut the line unambiguously.
func ParseRegSingle(out, element string) ([]SingleRow, error) {
	re := regexp.MustCompile(`^(.*?)\s+` + regexp.QuoteMeta(element) + `\s+` + num + `\s+` + num + `\s+=\s*` + num + `$`)
	var rows []SingleRow
	for i, ln := range Lines(out) {
		m := re.FindStringSubmatch(ln)
		if m == nil {
			return nil, fmt.Errorf("line %d: bad row %q", i+1, ln)
		}
		rows = append(rows, SingleRow{m[1], element, mustDec(m[2]), mustDec(m[3]), mustDec(m[4])})
	}
	return rows, nil
}

// FoodRow is one row of `reg -f P`: date \t name \t value.
type FoodRow struct {
	Date, Name string
	V          *big.Rat
	Raw        string
}

func ParseRegFood(out string) ([]FoodRow, error) {
	var rows []FoodRow
	for i, ln := range Lines(out) {
		f := strings.Split(ln, "\t")
		if len(f) != 3 {
			return nil, fmt.Errorf("line %d: bad row %q", i+1, ln)
		}
		v, ok := Dec(f[2])
		if !ok {
			return nil, fmt.Errorf("line %d: bad number %q", i+1, f[2])
		}
		rows = append(rows, FoodRow{f[0], f[1], v, f[2]})
	}
	return rows, nil
}

// ---------------------------------------------------------------------------
// CSV: strict RFC 4180 reader (independent of encoding/csv). Record ends may be
// CRLF or LF; a field is either free of quotes, commas and line breaks, or
// enclosed in double quotes with inner quotes doubled.

func ParseCSV(s string) ([][]string, error) {
	var recs [][]string
	var rec []string
	i := 0
	n := len(s)
	if n == 0 {
		return nil, nil
	}
	for {
		// parse one field
		var f strings.Builder
		if i < n && s[i] == '"' {
			i++
			for {
				if i >= n {
					return nil, fmt.Errorf("record %d: unterminated quoted field", len(recs)+1)
				}
				if s[i] == '"' {
					if i+1 < n && s[i+1] == '"' {
						f.WriteByte('"')
						i += 2
						continue
					}
					i++
					break
				}
				f.WriteByte(s[i])
				i++
			}
			if i < n && s[i] != ',' && s[i] != '\n' && s[i] != '\r' {
				return nil, fmt.Errorf("record %d: text after closing quote", len(recs)+1)
			}
		} else {
			for i < n && s[i] != ',' && s[i] != '\n' && s[i] != '\r' {
				if s[i] == '"' {
					return nil, fmt.Errorf("record %d: bare quote in unquoted field", len(recs)+1)
				}
				f.WriteByte(s[i])
				i++
			}
		}
		rec = append(rec, f.String())
		if i >= n {
			return nil, fmt.Errorf("record %d: last record without line terminator", len(recs)+1)
		}
		switch s[i] {
		case ',':
			i++
			continue
		case '\r':
			if i+1 >= n || s[i+1] != '\n' {
				return nil, fmt.Errorf("record %d: bare CR", len(recs)+1)
			}
			i += 2
		case '\n':
			i++
		}
		recs = append(recs, rec)
		rec = nil
		if i >= n {
			return recs, nil
		}
	}
}

// ---------------------------------------------------------------------------
// print

type PrintDay struct {
	Date  string
	Notes []string // raw note lines without the leading "  # "
	Ents  []NameVal
}

var printEntRe = regexp.MustCompile(`^  - (.*): (-?\d+\.\d\d)$`)

// ParsePrint parses `print` output: "<date>:", "  # …", "  - name: v", blank.
func ParsePrint(out string) ([]PrintDay, error) {
	var days []PrintDay
	var cur *PrintDay
	for i, ln := range Lines(out) {
		switch {
		case ln == "":
			cur = nil
		case strings.HasPrefix(ln, "  # "):
			if cur == nil {
				return nil, fmt.Errorf("line %d: note outside a record", i+1)
			}
			cur.Notes = append(cur.Notes, ln[4:])
		case strings.HasPrefix(ln, "  - "):
			m := printEntRe.FindStringSubmatch(ln)
			if m == nil || cur == nil {
				return nil, fmt.Errorf("line %d: bad entry %q", i+1, ln)
			}
			cur.Ents = append(cur.Ents, NameVal{m[1], mustDec(m[2]), m[2]})
		case strings.HasSuffix(ln, ":") && !strings.HasPrefix(ln, " "):
			if cur != nil {
				return nil, fmt.Errorf("line %d: heading %q not preceded by a blank line", i+1, ln)
			}
			days = append(days, PrintDay{Date: strings.TrimSuffix(ln, ":")})
			cur = &days[len(days)-1]
		default:
			return nil, fmt.Errorf("line %d: unexpected %q", i+1, ln)
		}
	}
	return days, nil
}

// ---------------------------------------------------------------------------
// summary

type SummaryDay struct {
	Date   string
	Totals []NameVal // positive totals per element
	Foods  []NameVal
}

var sumRowRe = regexp.MustCompile(`^\s*` + num + ` : (.*)$`)

func ParseSummary(out string) ([]SummaryDay, error) {
	var days []SummaryDay
	var cur *SummaryDay
	below := false
	for i, ln := range Lines(out) {
		switch {
		case ln == "------------":
			if cur == nil {
				return nil, fmt.Errorf("line %d: separator before date", i+1)
			}
			below = true
		case sumRowRe.MatchString(ln):
			m := sumRowRe.FindStringSubmatch(ln)
			if cur == nil {
				return nil, fmt.Errorf("line %d: row before date", i+1)
			}
			nv := NameVal{m[2], mustDec(m[1]), m[1]}
			if below {
				cur.Foods = append(cur.Foods, nv)
			} else {
				cur.Totals = append(cur.Totals, nv)
			}
		case strings.HasSuffix(ln, " :"):
			days = append(days, SummaryDay{Date: strings.TrimSuffix(ln, " :")})
			cur = &days[len(days)-1]
			below = false
		default:
			return nil, fmt.Errorf("line %d: unexpected %q", i+1, ln)
		}
	}
	return days, nil
}

// ---------------------------------------------------------------------------
// stats

type Stats struct {
	Fields map[string]string
}

func ParseStats(out string) (Stats, error) {
	st := Stats{Fields: map[string]string{}}
	for _, ln := range Lines(out) {
		if strings.TrimSpace(ln) == "" {
			continue
		}
		i := strings.Index(ln, ":")
		if i < 0 {
			return st, fmt.Errorf("bad stats line %q", ln)
		}
		st.Fields[strings.TrimSpace(ln[:i])] = strings.TrimSpace(ln[i+1:])
	}
	return st, nil
}
