package run

import (
	"bytes"
	"errors"
	"os"
	"os/exec"
	"path/filepath"
	"sync"
	"syscall"
	"time"
)

type lockedBuf struct {
	mu sync.Mutex
	b  bytes.Buffer
}

func (l *lockedBuf) Write(p []byte) (int, error) {
	l.mu.Lock()
	defer l.mu.Unlock()
	return l.b.Write(p)
}
func (l *lockedBuf) Len() int       { l.mu.Lock(); defer l.mu.Unlock(); return l.b.Len() }
func (l *lockedBuf) String() string { l.mu.Lock(); defer l.mu.Unlock(); return l.b.String() }

// ExecInterrupted runs the program while one of its files is a named pipe that delivers `first`, then stays
// open and silent: the run is then in the middle of its work, and it is sent sig. After the signal the rest
// of the file is delivered and the pipe closed (a program that ignores the signal finishes normally).
// ok=false: the scenario could not be set up. delivered reports whether the first part had been taken from
// the pipe when the signal was sent.
func ExecInterrupted(hr string, args []string, o ExecOpts, fifo, first, rest string, sig syscall.Signal) (res Result, delivered, ok bool) {
	p := filepath.Join(o.Dir, fifo)
	os.Remove(p)
	if err := syscall.Mkfifo(p, 0o644); err != nil {
		return res, false, false
	}
	defer os.Remove(p)
	cmd := exec.Command(hr, args...)
	cmd.Dir = o.Dir
	cmd.Env = BaseEnv()
	for k, v := range o.Env {
		cmd.Env = append(cmd.Env, k+"="+v)
	}
	var so, se lockedBuf
	cmd.Stdout, cmd.Stderr = &so, &se
	if err := cmd.Start(); err != nil {
		return res, false, false
	}
	exited := make(chan error, 1)
	go func() { exited <- cmd.Wait() }()
	// open the pipe for writing without blocking for ever if the program never opens it
	var w *os.File
	for i := 0; i < 400 && w == nil; i++ {
		f, err := os.OpenFile(p, os.O_WRONLY|syscall.O_NONBLOCK, 0)
		if err == nil {
			w = f
			break
		}
		select {
		case err := <-exited:
			// ended before it opened the file
			exited <- err
			i = 400
		case <-time.After(10 * time.Millisecond):
		}
	}
	var waitErr error
	if w != nil {
		syscall.SetNonblock(int(w.Fd()), false)
		wrote := make(chan struct{})
		go func() { w.Write([]byte(first)); close(wrote) }()
		select {
		case <-wrote:
			delivered = true
		case <-time.After(5 * time.Second):
		}
		// give the program the time to work through what it was given (not an oracle: the verdict does not depend on it)
		for i := 0; i < 30; i++ {
			n := so.Len()
			time.Sleep(10 * time.Millisecond)
			if so.Len() == n && i >= 5 {
				break
			}
		}
		cmd.Process.Signal(sig)
		time.Sleep(30 * time.Millisecond)
		go func() { <-wrote; w.Write([]byte(rest)); w.Close() }()
	}
	select {
	case waitErr = <-exited:
	case <-time.After(o.timeoutOr(30 * time.Second)):
		cmd.Process.Kill()
		waitErr = <-exited
		res.TimedOut = true
	}
	if w == nil {
		// never opened: release nothing
	}
	res.Out, res.Serr, res.Count = so.String(), se.String(), 1
	if waitErr != nil {
		var ee *exec.ExitError
		if errors.As(waitErr, &ee) {
			if ws, k := ee.Sys().(syscall.WaitStatus); k && ws.Signaled() {
				res.Signal = ws.Signal().String()
				res.Exit = 128 + int(ws.Signal())
			} else {
				res.Exit = ee.ExitCode()
			}
		} else {
			res.Exit = -1
		}
	}
	return res, delivered, w != nil
}

func (o ExecOpts) timeoutOr(d time.Duration) time.Duration {
	if o.Timeout > 0 {
		return o.Timeout
	}
	return d
}

// ExecPausedPipe runs the program while one of its files is a named pipe whose writer delivers `first`, stays
// silent for `pause` (the pipe stays open), then delivers `rest` and closes. ok=false: the scenario could not be
// set up (the program never opened the pipe).
func ExecPausedPipe(hr string, args []string, o ExecOpts, fifo, first, rest string, pause time.Duration) (res Result, ok bool) {
	p := filepath.Join(o.Dir, fifo)
	os.Remove(p)
	if err := syscall.Mkfifo(p, 0o644); err != nil {
		return res, false
	}
	defer os.Remove(p)
	cmd := exec.Command(hr, args...)
	cmd.Dir = o.Dir
	cmd.Env = BaseEnv()
	for k, v := range o.Env {
		cmd.Env = append(cmd.Env, k+"="+v)
	}
	var so, se lockedBuf
	cmd.Stdout, cmd.Stderr = &so, &se
	if err := cmd.Start(); err != nil {
		return res, false
	}
	exited := make(chan error, 1)
	go func() { exited <- cmd.Wait() }()
	var w *os.File
	for i := 0; i < 400 && w == nil; i++ {
		if f, err := os.OpenFile(p, os.O_WRONLY|syscall.O_NONBLOCK, 0); err == nil {
			w = f
			break
		}
		select {
		case err := <-exited:
			exited <- err
			i = 400
		case <-time.After(10 * time.Millisecond):
		}
	}
	if w != nil {
		syscall.SetNonblock(int(w.Fd()), false)
		go func() {
			w.Write([]byte(first))
			time.Sleep(pause)
			w.Write([]byte(rest))
			w.Close()
		}()
	}
	var waitErr error
	select {
	case waitErr = <-exited:
	case <-time.After(pause + o.timeoutOr(30*time.Second)):
		cmd.Process.Kill()
		waitErr = <-exited
		res.TimedOut = true
	}
	res.Out, res.Serr, res.Count = so.String(), se.String(), 1
	if waitErr != nil {
		var ee *exec.ExitError
		if errors.As(waitErr, &ee) {
			if ws, k := ee.Sys().(syscall.WaitStatus); k && ws.Signaled() {
				res.Signal = ws.Signal().String()
				res.Exit = 128 + int(ws.Signal())
			} else {
				res.Exit = ee.ExitCode()
			}
		} else {
			res.Exit = -1
		}
	}
	return res, w != nil
}
