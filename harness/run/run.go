// Package run: the two back-ends that execute the program under test.
//
//	L1 Exec   – the real binary as a child process (fresh process, fresh hash seed)
//	L2 Server – the same binary in job-server mode (hook files, build tag verif)
package run

import (
	"bufio"
	"bytes"
	"context"
	"encoding/json"
	"errors"
	"fmt"
	"io"
	"os"
	"os/exec"
	"path/filepath"
	"regexp"
	"sort"
	"strings"
	"sync"
	"sync/atomic"
	"syscall"
	"time"
	"unsafe"
)

// Result of one execution (or of a group of identical repetitions, Count > 1).
type Result struct {
	Out      string `json:"out"`
	Serr     string `json:"serr,omitempty"`
	Err      string `json:"err,omitempty"`
	Exit     int    `json:"exit"`
	Panic    string `json:"panic,omitempty"`
	Count    int    `json:"count,omitempty"`
	Signal   string `json:"signal,omitempty"`
	TimedOut bool   `json:"timed_out,omitempty"`
}

var logPrefix = regexp.MustCompile(`(?m)^\d{4}/\d{2}/\d{2} \d{2}:\d{2}:\d{2} `)

// ErrText returns the error message of a run independent of the back-end:
// L2 returns the error value, L1 prints it through log.Fatal with a timestamp.
func (r Result) ErrText() string {
	if r.Err != "" {
		return r.Err
	}
	return strings.TrimRight(logPrefix.ReplaceAllString(r.Serr, ""), "\n")
}

// Crashed reports whether the run shows a panic / runtime fatal error / signal.
func (r Result) Crashed() bool {
	if r.Panic != "" || r.Signal != "" {
		return true
	}
	for _, m := range []string{"panic:", "fatal error:", "runtime error", "goroutine 1 ["} {
		if strings.Contains(r.Serr, m) {
			return true
		}
	}
	return false
}

// WriteFiles writes the case's files below dir (names may contain sub-directories).
func WriteFiles(dir string, files map[string]string) error {
	if err := os.MkdirAll(dir, 0o755); err != nil {
		return err
	}
	for name, content := range files {
		p := filepath.Join(dir, name)
		if strings.Contains(name, "/") {
			if err := os.MkdirAll(filepath.Dir(p), 0o755); err != nil {
				return err
			}
		}
		if err := os.WriteFile(p, []byte(content), 0o644); err != nil {
			return err
		}
	}
	return nil
}

// BaseEnv is the scrubbed environment every execution starts from.
func BaseEnv() []string {
	// a narrow terminal exported by the shell (as watch(1) or a preview pane do), a non-English locale, a pager:
	// nothing of this is an input of the program, so no report may depend on it
	// plus the XDG base directories, and variables named like the program's flags that it does not document
	// (only HR_DATABASE, HR_LOGFILE, HR_CONFIG, HR_DATE_FORMAT and HR_MAXDEPTH are), with false-like or empty values
	return []string{"PATH=/usr/local/bin:/usr/bin:/bin", "HOME=/nonexistent-verif-home", "LANG=C", "COLUMNS=48", "LINES=12", "LC_ALL=tr_TR.UTF-8", "PAGER=cat",
		"XDG_CONFIG_HOME=/nonexistent-verif-xdg/config", "XDG_DATA_HOME=/nonexistent-verif-xdg/data", "XDG_CACHE_HOME=/nonexistent-verif-xdg/cache",
		"HR_SILENT=false", "HR_NO_COLOR=false", "HR_NO_DATABASE=false", "HR_NO_TOTALS=0", "HR_TOTALS_ONLY=", "HR_CSV=false", "HR_SHORTEN=0", "HR_COLLAPSE=false", "HR_COLLAPSE_LAST=",
		"HR_DESC=false", "HR_GROUP_FOOD=0", "HR_USE_OLD_REG_REPORTER=false", "HR_TODAY=", "HR_BEGIN=", "HR_END=", "HR_SINGLE_ELEMENT=", "HR_SINGLE_FOOD=", "HR_INTERNAL_TEMPLATE_NAME="}
}

// ExecOpts are the knobs of an L1 run.
type ExecOpts struct {
	Dir     string
	Env     map[string]string
	Timeout time.Duration // default 30 s
	Stdout  *os.File      // nil: captured
	Prefix  []string      // e.g. strace …, unshare …
	Stdin   *string       // fed through a pipe (a non-seekable input), nil: no stdin
}

// ExecPty runs the real binary with a pseudo-terminal as standard output (through script(1)); the CR LF
// line ends the terminal layer produces are turned back into LF. ok is false when script is not installed.
func ExecPty(hr string, args []string, o ExecOpts) (res Result, ok bool) {
	sp, err := exec.LookPath("script")
	if err != nil {
		return Result{}, false
	}
	q := func(s string) string { return "'" + strings.ReplaceAll(s, "'", `'\''`) + "'" }
	line := q(hr)
	for _, a := range args {
		line += " " + q(a)
	}
	ctx, cancel := context.WithTimeout(context.Background(), 60*time.Second)
	defer cancel()
	cmd := exec.CommandContext(ctx, sp, "-qec", line, "/dev/null")
	cmd.Dir = o.Dir
	cmd.Env = BaseEnv()
	for k, v := range o.Env {
		cmd.Env = append(cmd.Env, k+"="+v)
	}
	var out bytes.Buffer
	cmd.Stdout = &out
	cmd.Stderr = &out
	err = cmd.Run()
	res.Out = strings.ReplaceAll(out.String(), "\r\n", "\n")
	if ee, isExit := err.(*exec.ExitError); isExit {
		res.Exit = ee.ExitCode()
	} else if err != nil {
		return res, false
	}
	res.Count = 1
	return res, true
}

// ExecPtyStalled runs the real binary with a pseudo-terminal as standard output that nobody reads for the
// given time (a terminal stopped with XOFF, a slow remote session): the program blocks in its writes once the
// terminal buffer is full. Standard error is a pipe. CR LF from the terminal layer is turned back into LF.
func ExecPtyStalled(hr string, args []string, o ExecOpts, stall time.Duration) (res Result, ok bool) {
	m, err := os.OpenFile("/dev/ptmx", os.O_RDWR|syscall.O_NOCTTY, 0)
	if err != nil {
		return res, false
	}
	defer m.Close()
	var unlock int32
	if _, _, e := syscall.Syscall(syscall.SYS_IOCTL, m.Fd(), syscall.TIOCSPTLCK, uintptr(unsafe.Pointer(&unlock))); e != 0 {
		return res, false
	}
	var n uint32
	if _, _, e := syscall.Syscall(syscall.SYS_IOCTL, m.Fd(), syscall.TIOCGPTN, uintptr(unsafe.Pointer(&n))); e != 0 {
		return res, false
	}
	sl, err := os.OpenFile(fmt.Sprintf("/dev/pts/%d", n), os.O_RDWR|syscall.O_NOCTTY, 0)
	if err != nil {
		return res, false
	}
	ctx, cancel := context.WithTimeout(context.Background(), 60*time.Second)
	defer cancel()
	cmd := exec.CommandContext(ctx, hr, args...)
	cmd.Dir = o.Dir
	cmd.Env = BaseEnv()
	for k, v := range o.Env {
		cmd.Env = append(cmd.Env, k+"="+v)
	}
	var serr bytes.Buffer
	cmd.Stdout = sl
	cmd.Stderr = &serr
	if err := cmd.Start(); err != nil {
		sl.Close()
		return res, false
	}
	sl.Close()
	time.Sleep(stall)
	var out bytes.Buffer
	done := make(chan struct{})
	go func() {
		buf := make([]byte, 65536)
		for {
			k, err := m.Read(buf)
			out.Write(buf[:k])
			if err != nil {
				break
			}
		}
		close(done)
	}()
	werr := cmd.Wait()
	select {
	case <-done:
	case <-time.After(5 * time.Second):
		return res, false
	}
	res.Out = strings.ReplaceAll(out.String(), "\r\n", "\n")
	res.Serr = serr.String()
	res.Count = 1
	if ee, isExit := werr.(*exec.ExitError); isExit {
		res.Exit = ee.ExitCode()
	} else if werr != nil {
		return res, false
	}
	return res, true
}

// Exec runs the real binary once.
func Exec(hr string, args []string, o ExecOpts) Result {
	if o.Timeout == 0 {
		// the default limit is a watchdog, not an oracle: a run that exceeds it on a loaded machine is repeated once
		// with four times the limit before it is reported as timed out (callers that pass their own limit decide
		// themselves what an expiry means)
		o.Timeout = 30 * time.Second
		if r := execOnce(hr, args, o); !r.TimedOut {
			return r
		}
		o.Timeout = 120 * time.Second
	}
	return execOnce(hr, args, o)
}

func execOnce(hr string, args []string, o ExecOpts) Result {
	ctx, cancel := context.WithTimeout(context.Background(), o.Timeout)
	defer cancel()
	argv := append(append([]string{}, o.Prefix...), hr)
	argv = append(argv, args...)
	cmd := exec.CommandContext(ctx, argv[0], argv[1:]...)
	cmd.Dir = o.Dir
	cmd.Env = BaseEnv()
	// its own process group, killed as a whole when the watchdog fires: a run started through a wrapper
	// (unshare, setpriv, sh) must not leave the program behind, spinning
	cmd.SysProcAttr = &syscall.SysProcAttr{Setpgid: true}
	cmd.Cancel = func() error { return syscall.Kill(-cmd.Process.Pid, syscall.SIGKILL) }
	cmd.WaitDelay = 5 * time.Second
	keys := make([]string, 0, len(o.Env))
	for k := range o.Env {
		keys = append(keys, k)
	}
	sort.Strings(keys)
	for _, k := range keys {
		cmd.Env = append(cmd.Env, k+"="+o.Env[k])
	}
	if o.Stdin != nil {
		// through a reader that is not an *os.File, so that the child gets a pipe
		cmd.Stdin = io.MultiReader(strings.NewReader(*o.Stdin))
	}
	var so, se bytes.Buffer
	if o.Stdout != nil {
		cmd.Stdout = o.Stdout
	} else {
		cmd.Stdout = &so
	}
	cmd.Stderr = &se
	err := cmd.Run()
	r := Result{Out: so.String(), Serr: se.String(), Count: 1}
	if ctx.Err() == context.DeadlineExceeded {
		r.TimedOut = true
	}
	if err != nil {
		var ee *exec.ExitError
		if errors.As(err, &ee) {
			if ws, ok := ee.Sys().(syscall.WaitStatus); ok && ws.Signaled() {
				r.Signal = ws.Signal().String()
				r.Exit = 128 + int(ws.Signal())
			} else {
				r.Exit = ee.ExitCode()
			}
		} else {
			r.Exit = -1
			r.Serr += "\nverif: exec: " + err.Error()
		}
	}
	return r
}

// ---------------------------------------------------------------------------
// L2: job server

type ReadFault struct {
	Idx     int  `json:"idx"`
	Limit   int  `json:"limit"`
	Chunk   int  `json:"chunk,omitempty"`
	Partial bool `json:"partial,omitempty"`
}

type FaultJob struct {
	Args      []string `json:"args"`
	SinkLimit int      `json:"sink_limit"`
	// SinkKind: which error the sink returns once it fails: "" a made-up one, "epipe" / "enospc" / "closed" the
	// real error values of a pipe without reader, a full device, a closed file
	SinkKind string      `json:"sink_kind,omitempty"`
	Reads    []ReadFault `json:"reads,omitempty"`
	// Nested: a second job that runs from start to end inside this one, at the first read of this one's file
	// number NestedAt (two reports alive in one process)
	Nested   *FaultJob `json:"nested,omitempty"`
	NestedAt int       `json:"nested_at,omitempty"`
	// Parallel: jobs that run side by side in goroutines of the server process; their command lines are parsed
	// one after the other, then each waits at its first file read until all have arrived
	Parallel []FaultJob `json:"parallel,omitempty"`
}

type ReaderState struct {
	Name      string `json:"name"`
	Delivered int    `json:"delivered"`
	Reads     int    `json:"reads"`
	Errd      bool   `json:"errd"`
	EOF       bool   `json:"eof"`
}

type FaultRes struct {
	Out      string        `json:"out"`
	Err      string        `json:"err,omitempty"`
	Exit     int           `json:"exit"`
	Panic    string        `json:"panic,omitempty"`
	Accepted int           `json:"accepted"`
	SinkErrs int           `json:"sink_errs"`
	Writes   int           `json:"writes"`
	Readers  []ReaderState `json:"readers,omitempty"`
	Died     string        `json:"died,omitempty"`
	Nested   *FaultRes     `json:"nested,omitempty"`
	Parallel []FaultRes    `json:"parallel,omitempty"`
}

type job struct {
	Fault     *FaultJob         `json:"fault,omitempty"`
	Args      []string          `json:"args"`
	Env       map[string]string `json:"env,omitempty"`
	Cwd       string            `json:"cwd,omitempty"`
	Reps      int               `json:"reps,omitempty"`
	Reuse     bool              `json:"reuse,omitempty"`
	Cancelled bool              `json:"cancelled,omitempty"`
}

type response struct {
	Runs  []Result  `json:"runs"`
	Fault *FaultRes `json:"fault"`
	Bad   string    `json:"bad"`
	Gor   int       `json:"gor"`
}

// Server is one job-server process with its own scratch directory. Not safe
// for concurrent use: each worker goroutine owns one.
type Server struct {
	// ExtraEnv is added to the environment of the server process (set before the first job)
	ExtraEnv []string
	Primed   int
	hr       string
	Dir      string
	cmd      *exec.Cmd
	in       io.WriteCloser
	out      *bufio.Reader
	errBuf   *bytes.Buffer
	joblog   *os.File
	Jobs     int
	Deaths   int
	// LastGor: goroutines alive in the server once the last job was over (0: the hook does not report it)
	LastGor int
}

// NewServer starts a job server; dir is created.
func NewServer(hr, dir string) (*Server, error) {
	if err := os.MkdirAll(dir, 0o755); err != nil {
		return nil, err
	}
	s := &Server{hr: hr, Dir: dir}
	lf, err := os.Create(filepath.Join(dir, ".joblog"))
	if err != nil {
		return nil, err
	}
	s.joblog = lf
	return s, s.start()
}

func (s *Server) start() error {
	cmd := exec.Command(s.hr)
	cmd.Dir = s.Dir
	cmd.Env = append(append(BaseEnv(), "VERIF_SERVE=1"), s.ExtraEnv...)
	in, err := cmd.StdinPipe()
	if err != nil {
		return err
	}
	out, err := cmd.StdoutPipe()
	if err != nil {
		return err
	}
	s.errBuf = &bytes.Buffer{}
	cmd.Stderr = s.errBuf
	if err := cmd.Start(); err != nil {
		return err
	}
	s.cmd, s.in, s.out = cmd, in, bufio.NewReaderSize(out, 1<<20)
	// every server process first serves a run that sets whatever can be set - each HR_* variable, the global
	// flags, the flags of reg - to values no case uses: what one invocation was given must not reach the next
	// one of the same process, and every case that follows is compared with an oracle that knows nothing of it
	b, _ := json.Marshal(primingJob)
	if _, err := in.Write(append(b, '\n')); err == nil {
		if _, err := s.out.ReadBytes('\n'); err == nil {
			s.Primed++
		}
	}
	return nil
}

var primingJob = job{
	Args: []string{"--maxdepth", "2", "--date-format", "02.01.2006", "-b", "01.01.2001", "-e", "02.01.2001", "--today", "03.01.2001", "--no-color=false",
		"reg", "--no-totals", "--totals-only", "--shorten", "--csv", "-g", "--internal-template-name", "left-aligned", "-s", "primed-element", "-f", "primed-food"},
	Env: map[string]string{"HR_MAXDEPTH": "3", "HR_DATE_FORMAT": "Jan _2 06", "HR_DATABASE": "verif-primed-food.yaml", "HR_LOGFILE": "verif-primed-log.yaml", "HR_CONFIG": "verif-primed.conf"},
}

func (s *Server) Close() {
	if s.cmd != nil {
		s.in.Close()
		done := make(chan struct{})
		go func() { s.cmd.Wait(); close(done) }()
		select {
		case <-done:
		case <-time.After(5 * time.Second):
			s.cmd.Process.Kill()
			<-done
		}
		s.cmd = nil
	}
	if s.joblog != nil {
		s.joblog.Close()
	}
}

// Write puts the case's files into the server's directory.
func (s *Server) Write(files map[string]string) error { return WriteFiles(s.Dir, files) }

// watchdogExpiries counts the jobs of all servers that ran into their time limit.
var watchdogExpiries atomic.Int64

// OnAbandon is called once when the watchdog has expired on 40 jobs (set by vcheck: report and exit).
var OnAbandon func()
var abandonOnce sync.Once

// roundTrip sends one job; if the process dies the death is reported with its stderr.
func (s *Server) roundTrip(j job, timeout time.Duration) (response, string) {
	if watchdogExpiries.Load() >= 40 {
		// the program hangs on job after job: what has been seen is reported and the run ends here
		if OnAbandon != nil {
			abandonOnce.Do(OnAbandon)
		}
		return response{}, "not run: the watchdog has expired on 40 jobs of this run already"
	}
	b, _ := json.Marshal(j)
	// the job is on disk before the process sees it
	s.joblog.Truncate(0)
	s.joblog.WriteAt(append(b, '\n'), 0)
	s.Jobs++
	if s.cmd == nil {
		if err := s.start(); err != nil {
			return response{}, "cannot start server: " + err.Error()
		}
	}
	type rd struct {
		line []byte
		err  error
	}
	ch := make(chan rd, 1)
	go func() {
		if _, err := s.in.Write(append(b, '\n')); err != nil {
			ch <- rd{nil, err}
			return
		}
		line, err := s.out.ReadBytes('\n')
		ch <- rd{line, err}
	}()
	var got rd
	timedOut := false
	// a run that hangs is reported by the caller each time; once several jobs of this harness process have hit
	// the watchdog the verdict is settled, and the remaining jobs get a short limit so that the run ends
	switch n := watchdogExpiries.Load(); {
	case n >= 20:
		timeout = min(timeout, 3*time.Second)
	case n >= 3:
		timeout = min(timeout, 15*time.Second)
	}
	select {
	case got = <-ch:
	case <-time.After(timeout):
		timedOut = true
		watchdogExpiries.Add(1)
		s.cmd.Process.Signal(syscall.SIGQUIT)
		select {
		case got = <-ch:
		case <-time.After(10 * time.Second):
			s.cmd.Process.Kill()
			got = <-ch
		}
	}
	var resp response
	if got.err == nil && !timedOut {
		if err := json.Unmarshal(got.line, &resp); err == nil {
			s.LastGor = resp.Gor
			return resp, ""
		} else {
			got.err = fmt.Errorf("bad response: %v: %.200q", err, got.line)
		}
	}
	// process death (fatal error, os.Exit, kill) or watchdog
	s.in.Close()
	s.cmd.Wait()
	s.Deaths++
	msg := fmt.Sprintf("server process ended (%v)", got.err)
	if timedOut {
		msg = fmt.Sprintf("TIMEOUT after %v; %s", timeout, msg)
	}
	st := s.errBuf.String()
	if len(st) > 6000 {
		st = st[:3000] + "\n…\n" + st[len(st)-3000:]
	}
	msg += "\n" + st
	s.cmd = nil
	return response{}, msg
}

// App runs the production app reps times in-process and returns the distinct
// outcomes with their counts (a single element when the command is deterministic).
func (s *Server) App(args []string, env map[string]string, reps int) []Result {
	resp, died := s.roundTrip(job{Args: args, Env: env, Cwd: s.Dir, Reps: reps}, 120*time.Second)
	if died != "" {
		return []Result{{Panic: died, Exit: -1, Count: 1, TimedOut: strings.HasPrefix(died, "TIMEOUT")}}
	}
	if resp.Bad != "" {
		return []Result{{Panic: "verif: bad job: " + resp.Bad, Exit: -1, Count: 1}}
	}
	return resp.Runs
}

// AppReused runs the production app once in-process, on the one App value the server keeps for such jobs (a
// caller that builds the application once and calls Run for every request). No environment: the CLI library
// itself keeps values taken from variables in the flag objects of an App value.
func (s *Server) AppReused(args []string) Result {
	resp, died := s.roundTrip(job{Args: args, Cwd: s.Dir, Reps: 1, Reuse: true}, 120*time.Second)
	if died != "" {
		return Result{Panic: died, Exit: -1}
	}
	if resp.Bad != "" || len(resp.Runs) == 0 {
		return Result{Panic: "verif: bad job: " + resp.Bad, Exit: -1}
	}
	return resp.Runs[0]
}

// AppCancelled runs the production app once in-process through RunContext with a context that is already
// cancelled (a caller whose own request was abandoned).
func (s *Server) AppCancelled(args []string) Result {
	resp, died := s.roundTrip(job{Args: args, Cwd: s.Dir, Reps: 1, Cancelled: true}, 120*time.Second)
	if died != "" {
		return Result{Panic: died, Exit: -1}
	}
	if resp.Bad != "" || len(resp.Runs) == 0 {
		return Result{Panic: "verif: bad job: " + resp.Bad, Exit: -1}
	}
	return resp.Runs[0]
}

// App1 runs the production app once in-process.
func (s *Server) App1(args []string, env map[string]string) Result {
	rs := s.App(args, env, 1)
	if len(rs) == 0 {
		return Result{Panic: "verif: empty response", Exit: -1}
	}
	return rs[0]
}

// Fault runs one fault job.
func (s *Server) Fault(fj FaultJob, env map[string]string) FaultRes {
	resp, died := s.roundTrip(job{Fault: &fj, Env: env, Cwd: s.Dir}, 120*time.Second)
	if died != "" {
		return FaultRes{Died: died, Exit: -1}
	}
	if resp.Bad != "" || resp.Fault == nil {
		return FaultRes{Died: "verif: bad job: " + resp.Bad, Exit: -1}
	}
	return *resp.Fault
}

// Pool is a set of servers, one per worker.
type Pool struct {
	Servers []*Server
}

func NewPool(hr, work string, n int) (*Pool, error) {
	p := &Pool{}
	for i := 0; i < n; i++ {
		s, err := NewServer(hr, filepath.Join(work, fmt.Sprintf("w%02d", i)))
		if err != nil {
			p.Close()
			return nil, err
		}
		p.Servers = append(p.Servers, s)
	}
	return p, nil
}

func (p *Pool) Close() {
	for _, s := range p.Servers {
		s.Close()
	}
}

// Primed is the number of priming runs served (one per server process started).
func (p *Pool) Primed() (n int) {
	for _, s := range p.Servers {
		n += s.Primed
	}
	return
}

func (p *Pool) Stats() (jobs, deaths int) {
	for _, s := range p.Servers {
		jobs += s.Jobs
		deaths += s.Deaths
	}
	return
}
