package run

import (
	"errors"
	"fmt"
	"os"
	"os/exec"
	"strings"
	"syscall"
	"time"
	"unsafe"
)

// ExecTerminalInput runs the program with a terminal as one of its input files: a pseudo-terminal is created,
// mkArgs gets the path of its slave side (/dev/pts/N) to put where the file name goes, and content is typed
// into the master side followed by the end-of-file character (canonical mode, echo off: each read of the
// program returns one line). failAt > 0: the failAt-th and all later reads of the terminal fail with EIO
// (strace fault injection on that path): the terminal went away. ok=false: the scenario could not be set up.
// With failAt > 0 the result's Err field carries "injected" when strace reports that it did inject the error at least
// once (its counter is per thread, and the Go runtime may spread the reads over several threads: a large failAt
// may never be reached).
func ExecTerminalInput(hr string, mkArgs func(slave string) []string, content string, o ExecOpts, failAt int) (res Result, ok bool) {
	m, err := os.OpenFile("/dev/ptmx", os.O_RDWR|syscall.O_NOCTTY, 0)
	if err != nil {
		return res, false
	}
	defer m.Close()
	var unlock int32
	if _, _, e := syscall.Syscall(syscall.SYS_IOCTL, m.Fd(), syscall.TIOCSPTLCK, uintptr(unsafe.Pointer(&unlock))); e != 0 {
		return res, false
	}
	var n uint32
	if _, _, e := syscall.Syscall(syscall.SYS_IOCTL, m.Fd(), syscall.TIOCGPTN, uintptr(unsafe.Pointer(&n))); e != 0 {
		return res, false
	}
	slave := fmt.Sprintf("/dev/pts/%d", n)
	sl, err := os.OpenFile(slave, os.O_RDWR|syscall.O_NOCTTY, 0)
	if err != nil {
		return res, false
	}
	defer sl.Close()
	var tio syscall.Termios
	if _, _, e := syscall.Syscall(syscall.SYS_IOCTL, sl.Fd(), syscall.TCGETS, uintptr(unsafe.Pointer(&tio))); e != 0 {
		return res, false
	}
	tio.Lflag &^= syscall.ECHO | syscall.ECHONL
	tio.Lflag |= syscall.ICANON
	tio.Iflag &^= syscall.ICRNL | syscall.INLCR | syscall.IXON
	if _, _, e := syscall.Syscall(syscall.SYS_IOCTL, sl.Fd(), syscall.TCSETS, uintptr(unsafe.Pointer(&tio))); e != 0 {
		return res, false
	}
	argv := append([]string{hr}, mkArgs(slave)...)
	straceLog := ""
	if failAt > 0 {
		if f, err := os.CreateTemp("", "verif-strace-*"); err == nil {
			straceLog = f.Name()
			f.Close()
			defer os.Remove(straceLog)
		}
		argv = append([]string{"strace", "-f", "-o", straceLog, "-P", slave, "-e", "trace=read", "-e", fmt.Sprintf("inject=read:error=EIO:when=%d+", failAt)}, argv...)
	}
	cmd := exec.Command(argv[0], argv[1:]...)
	cmd.Dir = o.Dir
	cmd.Env = BaseEnv()
	for k, v := range o.Env {
		cmd.Env = append(cmd.Env, k+"="+v)
	}
	var so, se lockedBuf
	cmd.Stdout, cmd.Stderr = &so, &se
	cmd.SysProcAttr = &syscall.SysProcAttr{Setpgid: true}
	if err := cmd.Start(); err != nil {
		return res, false
	}
	go func() {
		if len(content) > 0 && content[len(content)-1] != '\n' {
			content += "\n"
		}
		m.Write([]byte(content))
		m.Write([]byte{4})
	}()
	exited := make(chan error, 1)
	go func() { exited <- cmd.Wait() }()
	var werr error
	select {
	case werr = <-exited:
	case <-time.After(o.timeoutOr(30 * time.Second)):
		syscall.Kill(-cmd.Process.Pid, syscall.SIGKILL)
		werr = <-exited
		res.TimedOut = true
	}
	res.Out, res.Serr, res.Count = so.String(), se.String(), 1
	if straceLog != "" {
		if b, err := os.ReadFile(straceLog); err == nil && strings.Contains(string(b), "(INJECTED)") {
			res.Err = "injected"
		}
	}
	if werr != nil {
		var ee *exec.ExitError
		if errors.As(werr, &ee) {
			if ws, k := ee.Sys().(syscall.WaitStatus); k && ws.Signaled() {
				res.Signal = ws.Signal().String()
				res.Exit = 128 + int(ws.Signal())
			} else {
				res.Exit = ee.ExitCode()
			}
		} else {
			res.Exit = -1
		}
	}
	return res, true
}
