package checks

import (
	"math/big"

	"verif/harness/gen"
)

// c05Val: a literal of the determinism workload; nan/inf literals are accepted by the program's
// parser but have no rational value: they are only rendered, never modelled.
func c05Val(lit string) gen.Num {
	if r, ok := new(big.Rat).SetString(lit); ok {
		return gen.Num{Lit: lit, R: r}
	}
	return gen.Num{Lit: lit, R: new(big.Rat)}
}
