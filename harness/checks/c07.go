package checks

import (
	"fmt"
	"math/big"
	"regexp"
	"sort"
	"strings"
	"time"
	"unicode"
	"unicode/utf8"

	"verif/harness/core"
	"verif/harness/gen"
	"verif/harness/model"
	"verif/harness/obs"
	"verif/harness/run"
)

func init() {
	register(&Check{ID: "C07", Level: "exploration", Run: runC07})
}

var alnumRun = regexp.MustCompile(`[A-Za-z0-9]+`)

// tolN: |a-b| <= n half-units of 10^-d + eps
func tolN(a, b *big.Rat, halfUnits int, d int, absSum *big.Rat) bool {
	t := new(big.Rat).SetFrac64(int64(halfUnits), 2)
	for i := 0; i < d; i++ {
		t.Mul(t, big.NewRat(1, 10))
	}
	t.Add(t, eps(absSum))
	return absDiff(a, b).Cmp(t) <= 0
}

func runC07(c *core.Ctx) {
	c.SetRule("cases: generated (book, log, period, element X, pattern P) tuples as in C02 plus periods and elements logged directly; each tuple runs ~16 report commands of the real program and checks 11 relations between pairs of them (R1 totals vs daily totals, R2 reg -s vs daily totals and period total, R3 bal -s grand total vs totals, R4 quantity vs bal nodes vs csv log sums, R5 element-total vs csv database-resolved, R6 summary vs reg -b D -e D, R7 unresolved vs logged-but-undefined, R8 stats vs headings/dates/--today, R9 old/left-aligned vs default reg, R10 reg -s -g vs bal -s leaves, R11 reg -f vs csv log). Exact pool: printed numbers equal; general pool: derived rounding bounds. No reference model decides a relation; generator truth is used only for 'is this food defined' and heading counts. Non-trivial = tuple in which >= 6 relations were exercised non-vacuously; distinct = hash(files, period, X).")
	pool := newPool(c, c.Procs)
	if pool == nil {
		return
	}
	defer pool.Close()
	n := c.N(1000, 20000)
	core.ParallelFor(n, c.Procs, func(wk, i int) {
		srv := pool.Servers[wk]
		r := c.Rng("tuple", i)
		layout := []string{"2006/01/02", "2006/01/02", "2006-01-02", "02.01.2006", "Jan 2 2006"}[r.Intn(5)]
		wo := worldOpts{Exact: i%2 == 0, Sorted: r.Intn(2) == 0, MinDays: 1, Hostile: i%5 == 0, Notes: true, Layout: layout}
		if i%4 == 2 {
			// names longer than any column of any report (recipes, elements, foods the book does not know)
			wo.Names = gen.NameOpts{Unicode: true, Spaces: true, Slash: true, Punct: ".,'()&+-_", MinLen: 1, MaxLen: 45}
		}
		w := newWorld(r, wo)
		if i%6 == 4 && len(w.Basics) > 0 && w.Conf == "" {
			// an element whose name carries an invisible direction mark (what a right-to-left keyboard leaves next to
			// digits and punctuation), next to the same name without it: two elements, in every report alike
			b := w.Basics[0]
			rs := []rune(b)
			marked := string(rs[:1]) + string([]rune{0x200f, 0x200e, 0x061c, 0x202b, 0x2067}[i/6%5]) + string(rs[1:])
			ren := func(n string) string {
				if n == b {
					return marked
				}
				return n
			}
			for bi := range w.Book {
				w.Book[bi].Name = ren(w.Book[bi].Name)
				for ei := range w.Book[bi].Ents {
					w.Book[bi].Ents[ei].Name = ren(w.Book[bi].Ents[ei].Name)
				}
			}
			for di := range w.Log {
				for ei := range w.Log[di].Ents {
					w.Log[di].Ents[ei].Name = ren(w.Log[di].Ents[ei].Name)
				}
			}
			// and the unmarked name once more, in the first recipe and in the first day
			if len(w.Book) > 0 {
				w.Book[0].Ents = append(w.Book[0].Ents, gen.Ent{Name: b, Val: gen.Half(3)})
			}
			if len(w.Log) > 0 {
				w.Log[0].Ents = append(w.Log[0].Ents, gen.Ent{Name: b, Val: gen.Half(2)})
			}
			w.Basics = append([]string{marked}, w.Basics...)
			w.Res = model.Resolve(w.Book)
			w.Abs = model.AbsPaths(w.Book)
			w.BookText = gen.RenderBook(w.Book, nil)
			w.LogText = gen.RenderLog(w.Log, w.Layout, nil)
			c.Count("tuples_with_a_direction_mark_in_an_element_name", 1)
		}
		srv.Write(w.Files())
		today := gen.Date{Y: 2021, M: 3, D: 1}
		pre := []string{"--no-color", "-d", "food.yaml", "-l", "log.yaml", "--today", today.Format(w.Layout)}
		if w.Layout != "2006/01/02" {
			pre = append(pre, "--date-format", w.Layout)
		}
		var period []string
		var pb, pe *gen.Date
		if r.Intn(2) == 0 {
			b := w.Log[r.Intn(len(w.Log))].Date
			e := w.Log[r.Intn(len(w.Log))].Date
			if e.Less(b) {
				b, e = e, b
			}
			switch r.Intn(3) {
			case 0:
				period, pb, pe = []string{"-b", b.Format(w.Layout), "-e", e.Format(w.Layout)}, &b, &e
			case 1:
				period, pb = []string{"-b", b.Format(w.Layout)}, &b
			case 2:
				period, pe = []string{"-e", e.Format(w.Layout)}, &e
			}
		}
		sel := restrict(w.Log, pb, pe)
		exercised := 0
		failed := false
		runCmd := func(periodAware bool, cmd ...string) (run.Result, []string) {
			args := append([]string{}, pre...)
			if periodAware {
				args = append(args, period...)
			}
			args = append(args, cmd...)
			args = respell(r, args)
			res := srv.App1(args, nil)
			c.Eval(1)
			if res.Exit != 0 || res.Panic != "" {
				failed = true
				c.Violation(strings.Join(cmd[:min(2, len(cmd))], " ")+"|fails-on-valid-input", fmt.Sprintf("exit %d err %q %s", res.Exit, res.Err, clip(res.Panic, 300)), caseDoc{Files: w.Files(), Args: args, Observed: resDoc(res)})
			}
			return res, args
		}
		viol := func(rel, msg string, a1 []string, r1 run.Result, a2 []string, r2 run.Result) {
			c.Violation(rel, msg, caseDoc{Files: w.Files(), Args: a1, Observed: map[string]any{"left": resDoc(r1), "right_args": a2, "right": resDoc(r2)}})
		}
		ok := func(rel string) { c.Count("relation_"+rel+"_exercised", 1); exercised++ }
		exact := w.Exact

		// common outputs
		regRes, regArgs := runCmd(true, "reg")
		totRes, totArgs := runCmd(true, "report", "totals")
		csvRes, csvArgs := runCmd(true, "csv", "log")
		qtyRes, qtyArgs := runCmd(true, "report", "quantity")
		balRes, balArgs := runCmd(true, "bal")
		if failed {
			return
		}
		regDays, e1 := obs.ParseReg(regRes.Out)
		totals, e2 := obs.ParseTotals(totRes.Out)
		csvRows, e3 := obs.ParseCSV(csvRes.Out)
		qty, e4 := obs.ParseValTabName(qtyRes.Out)
		bal, e5 := obs.ParseBal(balRes.Out)
		for _, e := range []error{e1, e2, e3, e4, e5} {
			if e != nil {
				c.Violation("parse|unparsable-output", e.Error(), caseDoc{Files: w.Files(), Args: regArgs})
				return
			}
		}
		absAll := new(big.Rat)
		for _, d := range sel {
			for _, e := range d.Ents {
				q := absRat(e.Val.R)
				if m, okk := w.Abs[e.Name]; okk {
					for _, v := range m {
						absAll.Add(absAll, new(big.Rat).Mul(q, v))
					}
				}
				absAll.Add(absAll, q)
			}
		}

		// R1: report totals == Σ daily totals of reg
		{
			type acc struct {
				pos, neg, sum *big.Rat
				k             int
			}
			sums := map[string]*acc{}
			for _, d := range regDays {
				for _, t := range d.Totals {
					a := sums[t.Name]
					if a == nil {
						a = &acc{new(big.Rat), new(big.Rat), new(big.Rat), 0}
						sums[t.Name] = a
					}
					a.pos.Add(a.pos, t.Pos)
					a.neg.Add(a.neg, t.Neg)
					a.sum.Add(a.sum, t.Sum)
					a.k++
				}
			}
			bad := ""
			if len(sums) != len(totals) {
				bad = fmt.Sprintf("report totals lists %d elements, the register's daily totals %d", len(totals), len(sums))
			}
			for _, t := range totals {
				a := sums[t.Name]
				if a == nil {
					bad = fmt.Sprintf("element %q in report totals but in no daily total", t.Name)
					break
				}
				if exact {
					if a.pos.Cmp(t.Pos) != 0 || a.neg.Cmp(t.Neg) != 0 || a.sum.Cmp(t.Sum) != 0 {
						bad = fmt.Sprintf("element %q: report totals %v, sum of daily totals %s %s %s", t.Name, t.Raw, rs(a.pos), rs(a.neg), rs(a.sum))
					}
				} else if !tolN(a.pos, t.Pos, a.k+1, 2, absAll) || !tolN(a.neg, t.Neg, a.k+1, 2, absAll) || !tolN(a.sum, t.Sum, a.k+1, 2, absAll) {
					bad = fmt.Sprintf("element %q: report totals %v, sum of %d daily totals %s %s %s", t.Name, t.Raw, a.k, rs(a.pos), rs(a.neg), rs(a.sum))
				}
			}
			if bad != "" {
				viol("R1 report totals vs reg daily totals", bad, totArgs, totRes, regArgs, regRes)
			} else if len(totals) > 0 {
				ok("R1")
			}
		}

		// choose X
		var X string
		if len(totals) > 0 {
			X = totals[r.Intn(len(totals))].Name
		} else if els := w.Elements(); len(els) > 0 {
			X = els[0]
		} else {
			X = w.Basics[0]
		}
		if r.Intn(5) == 0 {
			// a name the book defines is never an element of the totals: every single-element view of it is empty
			X = w.Recipes[r.Intn(len(w.Recipes))]
			c.Count("tuples_with_a_recipe_name_as_element", 1)
		}
		var totX *obs.TotalRow
		for k := range totals {
			if totals[k].Name == X {
				totX = &totals[k]
			}
		}

		// R2: reg -s X rows == daily total rows for X; Σ == report totals X
		{
			sRes, sArgs := runCmd(true, "reg", "-s", X)
			if failed {
				return
			}
			rows, err := obs.ParseRegSingle(sRes.Out, X)
			if err != nil {
				viol("R2 reg -s vs reg", "unparsable: "+err.Error(), sArgs, sRes, regArgs, regRes)
			} else {
				type dr struct {
					date string
					t    obs.TotalRow
				}
				var want []dr
				for _, d := range regDays {
					for _, t := range d.Totals {
						if t.Name == X {
							want = append(want, dr{d.Date, t})
						}
					}
				}
				bad := ""
				if len(rows) != len(want) {
					bad = fmt.Sprintf("reg -s %s prints %d rows, the register has %d days with a total for it", X, len(rows), len(want))
				} else {
					sp, sn, ss := new(big.Rat), new(big.Rat), new(big.Rat)
					for k, row := range rows {
						wt := want[k]
						negAsPrinted := new(big.Rat).Neg(wt.t.Neg)
						if row.Date != wt.date || row.Pos.Cmp(wt.t.Pos) != 0 || row.Neg.Cmp(negAsPrinted) != 0 || row.Sum.Cmp(wt.t.Sum) != 0 {
							bad = fmt.Sprintf("row %d: reg -s shows %s %s %s %s, register day %s shows %v", k, row.Date, rs(row.Pos), rs(row.Neg), rs(row.Sum), wt.date, wt.t.Raw)
							break
						}
						sp.Add(sp, row.Pos)
						sn.Sub(sn, row.Neg)
						ss.Add(ss, row.Sum)
					}
					if bad == "" && totX != nil {
						good := sp.Cmp(totX.Pos) == 0 && sn.Cmp(totX.Neg) == 0 && ss.Cmp(totX.Sum) == 0
						if !exact {
							good = tolN(sp, totX.Pos, len(rows)+1, 2, absAll) && tolN(sn, totX.Neg, len(rows)+1, 2, absAll) && tolN(ss, totX.Sum, len(rows)+1, 2, absAll)
						}
						if !good {
							bad = fmt.Sprintf("Σ reg -s %s rows = %s %s %s, report totals %v", X, rs(sp), rs(sn), rs(ss), totX.Raw)
						}
					}
				}
				if bad == "" {
					// the --csv variant shows the same rows: date;"name";pos;neg;sum
					cRes, cArgs := runCmd(true, "reg", "-s", X, "--csv")
					if failed {
						return
					}
					cl := obs.Lines(cRes.Out)
					if len(cl) != len(rows) {
						bad = fmt.Sprintf("reg -s --csv prints %d rows, reg -s %d", len(cl), len(rows))
					}
					for k, ln := range cl {
						if bad != "" {
							break
						}
						f := strings.Split(ln, ";")
						if len(f) < 5 {
							bad = fmt.Sprintf("csv row %q", ln)
							break
						}
						n := len(f)
						p1, o1 := obs.Dec(f[n-3])
						p2, o2 := obs.Dec(f[n-2])
						p3, o3 := obs.Dec(f[n-1])
						name := strings.Join(f[1:n-3], ";")
						if !o1 || !o2 || !o3 || f[0] != rows[k].Date || name != "\""+X+"\"" || p1.Cmp(rows[k].Pos) != 0 || p2.Cmp(rows[k].Neg) != 0 || p3.Cmp(rows[k].Sum) != 0 {
							bad = fmt.Sprintf("csv row %d %q differs from the plain row %s %s %s %s", k, ln, rows[k].Date, rs(rows[k].Pos), rs(rows[k].Neg), rs(rows[k].Sum))
						}
					}
					if bad != "" {
						viol("R2 reg -s --csv vs reg -s", bad, cArgs, cRes, sArgs, sRes)
						bad = ""
					}
				}
				if bad == "" && totX != nil {
					// presentation flags of the register do not change what the single-element rows add up to
					for _, extra := range [][]string{{"--totals-only"}, {"--no-totals"}, {"--shorten"}, {"--use-old-reg-reporter"}, {"--internal-template-name", "left-aligned"}} {
						fArgsCmd := append([]string{"reg", "-s", X}, extra...)
						fRes, fArgs := runCmd(true, fArgsCmd...)
						if failed {
							return
						}
						fr, ferr := obs.ParseRegSingle(fRes.Out, X)
						ss := new(big.Rat)
						for _, row := range fr {
							ss.Add(ss, row.Sum)
						}
						good := ferr == nil && ss.Cmp(totX.Sum) == 0
						if ferr == nil && !exact {
							good = tolN(ss, totX.Sum, len(fr)+1, 2, absAll)
						}
						if !good {
							viol("R2 reg -s with presentation flags vs report totals", fmt.Sprintf("Σ %s rows = %s (%d rows, %v), report totals sum %s", joinArgs(fArgsCmd), rs(ss), len(fr), ferr, rs(totX.Sum)), fArgs, fRes, totArgs, totRes)
							break
						}
					}
				}
				if bad != "" {
					viol("R2 reg -s vs daily totals/report totals", bad, sArgs, sRes, totArgs, totRes)
				} else if len(rows) > 0 {
					ok("R2")
				}
			}
		}

		// R3: bal -s X grand total == report totals X sum
		bsRes, bsArgs := runCmd(true, "bal", "-s", X)
		if failed {
			return
		}
		bs, err := obs.ParseBal(bsRes.Out)
		if err != nil || !bs.HasGrand {
			viol("R3 bal -s vs report totals", "unparsable bal -s output", bsArgs, bsRes, totArgs, totRes)
		} else {
			want := new(big.Rat)
			if totX != nil {
				want = totX.Sum
			}
			good := bs.Grand.Cmp(want) == 0
			if !exact {
				good = sameTrueValue(bs.Grand, want, 2, absAll)
			}
			if !good {
				viol("R3 bal -s grand total vs report totals", fmt.Sprintf("bal -s %s grand total %s, report totals sum %s", X, bs.GrandRaw, rs(want)), bsArgs, bsRes, totArgs, totRes)
			} else if totX != nil {
				ok("R3")
			}
		}

		// R4: report quantity == Σ csv log rows == bal own amounts
		{
			csvSum := map[string]*big.Rat{}
			csvK := map[string]int{}
			bad := ""
			for _, row := range csvRows {
				if len(row) != 3 {
					bad = fmt.Sprintf("csv row %q", row)
					break
				}
				v, okk := obs.Dec(row[2])
				if !okk {
					bad = fmt.Sprintf("csv amount %q", row[2])
					break
				}
				if csvSum[row[1]] == nil {
					csvSum[row[1]] = new(big.Rat)
				}
				csvSum[row[1]].Add(csvSum[row[1]], v)
				csvK[row[1]]++
			}
			if bad == "" && len(qty) != len(csvSum) {
				bad = fmt.Sprintf("report quantity lists %d foods, csv log %d", len(qty), len(csvSum))
			}
			paths, _, perr := obs.BalPaths(bal.Rows)
			balAmt := map[string]*big.Rat{}
			if perr == nil {
				for k, p := range paths {
					balAmt[p] = bal.Rows[k].Amount
				}
			}
			for _, q := range qty {
				if bad != "" {
					break
				}
				cs := csvSum[q.Name]
				if cs == nil {
					bad = fmt.Sprintf("food %q in report quantity but not in csv log", q.Name)
					break
				}
				if exact {
					if cs.Cmp(q.V) != 0 {
						bad = fmt.Sprintf("food %q: report quantity %s, Σ csv log %s", q.Name, q.Raw, rs(cs))
					}
				} else {
					// k csv rows each within 0.0005, quantity within 0.005
					t := new(big.Rat).Add(new(big.Rat).Mul(big.NewRat(int64(csvK[q.Name]), 1), ratHalfMil), ratHalfCent)
					t.Add(t, eps(absAll))
					if absDiff(cs, q.V).Cmp(t) > 0 {
						bad = fmt.Sprintf("food %q: report quantity %s, Σ of %d csv log rows %s", q.Name, q.Raw, csvK[q.Name], rs(cs))
					}
				}
				// balance: own amount = node − Σ direct child rows
				if bad == "" && perr == nil {
					node, okk := balAmt[q.Name]
					if !okk {
						bad = fmt.Sprintf("food %q in report quantity but no balance row for that path", q.Name)
						break
					}
					own := new(big.Rat).Set(node)
					kids := 0
					for p, a := range balAmt {
						if strings.HasPrefix(p, q.Name+"/") && !strings.Contains(p[len(q.Name)+1:], "/") {
							own.Sub(own, a)
							kids++
						}
					}
					if exact {
						if own.Cmp(q.V) != 0 {
							bad = fmt.Sprintf("food %q: report quantity %s, balance node minus children %s", q.Name, q.Raw, rs(own))
						}
					} else if !tolN(own, q.V, kids+2, 2, absAll) {
						bad = fmt.Sprintf("food %q: report quantity %s, balance node minus %d children %s", q.Name, q.Raw, kids, rs(own))
					}
				}
			}
			if bad != "" {
				viol("R4 report quantity vs csv log/bal", bad, qtyArgs, qtyRes, balArgs, balRes)
				_ = csvArgs
			} else if len(qty) > 0 {
				ok("R4")
			}
		}

		// R5: report element-total X == csv database-resolved rows with element X
		{
			x5 := w.Basics[r.Intn(len(w.Basics))]
			etRes, etArgs := runCmd(false, "report", "element-total", x5)
			dbRes, dbArgs := runCmd(false, "csv", "database-resolved")
			if failed {
				return
			}
			et, err1 := obs.ParseValTabName(etRes.Out)
			db, err2 := obs.ParseCSV(dbRes.Out)
			bad := ""
			if err1 != nil || err2 != nil {
				bad = fmt.Sprint("unparsable: ", err1, err2)
			} else {
				want := map[string]string{}
				for _, row := range db {
					if len(row) == 3 && row[1] == x5 {
						want[row[0]] = row[2]
					}
				}
				if len(et) != len(want) {
					bad = fmt.Sprintf("element-total %s: %d rows, resolved CSV has %d rows for it", x5, len(et), len(want))
				}
				for _, e := range et {
					if want[e.Name] != e.Raw {
						bad = fmt.Sprintf("element-total %s: recipe %q shows %s, resolved CSV %q", x5, e.Name, e.Raw, want[e.Name])
					}
				}
				if bad == "" && len(et) > 0 {
					// ascending by value
					for k := 1; k < len(et); k++ {
						if et[k].V.Cmp(et[k-1].V) < 0 {
							bad = fmt.Sprintf("element-total rows not in ascending order at row %d", k)
						}
					}
				}
			}
			if bad != "" {
				viol("R5 element-total vs csv database-resolved", bad, etArgs, etRes, dbArgs, dbRes)
			} else if len(et) > 0 {
				ok("R5")
			}
		}

		// R6: summary D == reg -b D -e D
		if len(w.Log) > 0 {
			D := w.Log[r.Intn(len(w.Log))].Date.Format(w.Layout)
			suRes, suArgs := runCmd(false, "summary", D)
			rdRes, rdArgs := runCmd(false, "reg", "-b", D, "-e", D)
			if failed {
				return
			}
			su, err1 := obs.ParseSummary(suRes.Out)
			rd, err2 := obs.ParseReg(rdRes.Out)
			bad := ""
			if err1 != nil || err2 != nil {
				bad = fmt.Sprint("unparsable: ", err1, err2)
			} else if len(su) != len(rd) {
				bad = fmt.Sprintf("summary shows %d day blocks, reg -b D -e D %d", len(su), len(rd))
			} else {
				for k := range su {
					if su[k].Date != rd[k].Date || len(su[k].Foods) != len(rd[k].Foods) || len(su[k].Totals) != len(rd[k].Totals) {
						bad = fmt.Sprintf("block %d: summary %s with %d foods/%d totals, register %s with %d/%d", k, su[k].Date, len(su[k].Foods), len(su[k].Totals), rd[k].Date, len(rd[k].Foods), len(rd[k].Totals))
						break
					}
					for x := range su[k].Foods {
						if su[k].Foods[x].Name != rd[k].Foods[x].Name || su[k].Foods[x].Raw != rd[k].Foods[x].Raw {
							bad = fmt.Sprintf("block %d food %d: summary (%q,%s), register (%q,%s)", k, x, su[k].Foods[x].Name, su[k].Foods[x].Raw, rd[k].Foods[x].Name, rd[k].Foods[x].Raw)
						}
					}
					for x := range su[k].Totals {
						if su[k].Totals[x].Name != rd[k].Totals[x].Name || su[k].Totals[x].Raw != rd[k].Totals[x].Raw[0] {
							bad = fmt.Sprintf("block %d total %d: summary (%q,%s), register (%q, positive %s)", k, x, su[k].Totals[x].Name, su[k].Totals[x].Raw, rd[k].Totals[x].Name, rd[k].Totals[x].Raw[0])
						}
					}
				}
			}
			if bad != "" {
				viol("R6 summary vs reg -b D -e D", bad, suArgs, suRes, rdArgs, rdRes)
			} else if len(su) > 0 {
				ok("R6")
			}
		}

		// R7: report unresolved == logged foods the book does not define
		{
			unRes, unArgs := runCmd(true, "report", "unresolved")
			if failed {
				return
			}
			defined := w.Book.Defined()
			want := map[string]bool{}
			for _, row := range csvRows {
				if len(row) == 3 && !defined[row[1]] {
					want[row[1]] = true
				}
			}
			// cross-check against the register: a food whose only ingredient row is itself
			fromReg := map[string]bool{}
			for _, d := range regDays {
				for _, f := range d.Foods {
					if len(f.Ingredients) == 1 && f.Ingredients[0].Name == f.Name && !defined[f.Name] {
						fromReg[f.Name] = true
					}
				}
			}
			got := map[string]bool{}
			dup := false
			for _, ln := range obs.Lines(unRes.Out) {
				if got[ln] {
					dup = true
				}
				got[ln] = true
			}
			bad := ""
			if dup {
				bad = "a name is listed twice"
			}
			for k := range want {
				if !got[k] {
					bad = fmt.Sprintf("logged food %q is not defined in the book but missing from report unresolved", k)
				}
				if !fromReg[k] {
					bad = fmt.Sprintf("food %q: csv log and the register disagree on whether it is unresolved", k)
				}
			}
			for k := range got {
				if !want[k] {
					bad = fmt.Sprintf("report unresolved lists %q, which is defined in the book or not logged in the period", k)
				}
			}
			if bad != "" {
				viol("R7 report unresolved vs logged-undefined", bad, unArgs, unRes, csvArgs, csvRes)
			} else if len(want) > 0 {
				ok("R7")
			}
		}

		// R8: stats
		{
			stRes, stArgs := runCmd(false, "stats")
			prRes, prArgs := runCmd(false, "print")
			if failed {
				return
			}
			st, err1 := obs.ParseStats(stRes.Out)
			pr, err2 := obs.ParsePrint(prRes.Out)
			bad := ""
			if err1 != nil || err2 != nil {
				bad = fmt.Sprint("unparsable: ", err1, err2)
			} else {
				if st.Fields["Log records"] != fmt.Sprint(len(pr)) || len(pr) != len(w.Log) {
					bad = fmt.Sprintf("stats Log records %q, print shows %d headings, file has %d", st.Fields["Log records"], len(pr), len(w.Log))
				}
				if st.Fields["Database records"] != fmt.Sprint(len(w.Book)) {
					bad = fmt.Sprintf("stats Database records %q, book has %d headings", st.Fields["Database records"], len(w.Book))
				}
				if st.Fields["Today"] != today.Format(w.Layout) {
					bad = fmt.Sprintf("stats Today %q, --today %s", st.Fields["Today"], today.Format(w.Layout))
				}
				if bad == "" && len(w.Log) > 0 {
					first, last := w.Log[0].Date, w.Log[len(w.Log)-1].Date
					wf := fmt.Sprintf("%s (%d days ago)", first.Format(w.Layout), int(today.Time().Sub(first.Time()).Hours()/24))
					wl := fmt.Sprintf("%s (%d days ago)", last.Format(w.Layout), int(today.Time().Sub(last.Time()).Hours()/24))
					if st.Fields["First record"] != wf || st.Fields["Last record"] != wl {
						bad = fmt.Sprintf("stats First/Last record %q / %q, want %q / %q", st.Fields["First record"], st.Fields["Last record"], wf, wl)
					}
					if pr[0].Date != first.Format(w.Layout) || pr[len(pr)-1].Date != last.Format(w.Layout) {
						bad = fmt.Sprintf("print first/last heading %q/%q", pr[0].Date, pr[len(pr)-1].Date)
					}
				}
			}
			if bad != "" {
				viol("R8 stats vs headings/--today", bad, stArgs, stRes, prArgs, prRes)
			} else {
				ok("R8")
			}
		}

		// R8b: day distances when headings and --today carry a time of day: whole days elapsed between the two instants
		if i%6 == 0 {
			lay := "2006/01/02 15:04"
			d1 := gen.Date{Y: 2021, M: 1 + r.Intn(12), D: 1 + r.Intn(28)}
			gap, ahead := r.Intn(40), r.Intn(40)
			h1, h2, h3 := r.Intn(24*60), r.Intn(24*60), r.Intn(24*60)
			t1 := d1.Time().Add(time.Duration(h1) * time.Minute)
			t2 := d1.AddDays(gap).Time().Add(time.Duration(h2) * time.Minute)
			if t2.Before(t1) {
				t2 = t1
			}
			t3 := d1.AddDays(gap + ahead).Time().Add(time.Duration(h3) * time.Minute)
			if t3.Before(t2) {
				t3 = t2
			}
			tlog := fmt.Sprintf("%s:\n  a: 1\n%s:\n  b: 2\n", t1.Format(lay), t2.Format(lay))
			srv.Write(map[string]string{"timed.yaml": tlog})
			targs := []string{"--no-color", "-d", "food.yaml", "-l", "timed.yaml", "--date-format", lay, "--today", t3.Format(lay), "stats"}
			tres := srv.App1(targs, nil)
			c.Eval(1)
			st, _ := obs.ParseStats(tres.Out)
			wf := fmt.Sprintf("%s (%d days ago)", t1.Format(lay), int(t3.Sub(t1).Hours()/24))
			wl := fmt.Sprintf("%s (%d days ago)", t2.Format(lay), int(t3.Sub(t2).Hours()/24))
			if tres.Exit != 0 || st.Fields["First record"] != wf || st.Fields["Last record"] != wl {
				c.Violation("R8b stats day distances with times of day", fmt.Sprintf("stats First/Last record %q / %q, want %q / %q (--today %s)", st.Fields["First record"], st.Fields["Last record"], wf, wl, t3.Format(lay)),
					caseDoc{Files: map[string]string{"food.yaml": w.BookText, "timed.yaml": tlog}, Args: targs, Observed: resDoc(tres)})
			} else {
				ok("R8b")
			}
		}

		// R9: old reporter and left-aligned show the same records and numbers as the default
		for _, rr := range regRenderers[1:] {
			res, args := runCmd(true, rr.args...)
			if failed {
				return
			}
			days, err := rr.parse(res.Out)
			bad := ""
			if err != nil {
				bad = "unparsable: " + err.Error()
			} else if len(days) != len(regDays) {
				bad = fmt.Sprintf("%d days vs %d", len(days), len(regDays))
			} else {
				for k := range days {
					if s1, s2 := regDayString(days[k]), regDayString(regDays[k]); s1 != s2 {
						bad = fmt.Sprintf("day %d differs:\n%s\nvs default:\n%s", k, s1, s2)
						break
					}
				}
			}
			if bad != "" {
				viol("R9 "+rr.name+" vs default reg", bad, args, res, regArgs, regRes)
			} else if len(days) > 0 {
				ok("R9")
			}
		}

		// R9b: the daily totals shown under --totals-only, and the food rows shown under --no-totals, are the ones
		// of the plain register, in every renderer (so R1 holds under the presentation flags as well)
		{
			rr := regRenderers[r.Intn(len(regRenderers))]
			flag := []string{"--totals-only", "--no-totals"}[r.Intn(2)]
			res, args := runCmd(true, append(append([]string{}, rr.args...), flag)...)
			if failed {
				return
			}
			days, err := rr.parse(res.Out)
			part := func(d obs.RegDay) string {
				if flag == "--totals-only" {
					d.Foods = nil
				} else {
					d.Totals = nil
				}
				return regDayString(d)
			}
			bad := ""
			if err != nil {
				bad = "unparsable: " + err.Error()
			} else if len(days) != len(regDays) {
				bad = fmt.Sprintf("%d days vs %d", len(days), len(regDays))
			} else {
				for k := range days {
					if s1, s2 := regDayString(days[k]), part(regDays[k]); s1 != s2 {
						bad = fmt.Sprintf("day %d differs:\n%s\nvs the plain register:\n%s", k, s1, s2)
						break
					}
				}
			}
			if bad != "" {
				viol("R9b "+rr.name+" "+flag+" vs plain reg", bad, args, res, regArgs, regRes)
			} else if len(days) > 0 {
				ok("R9b")
			}
		}

		// R9c: --shorten abbreviates labels; the amounts of every food row, ingredient row and totals row are those of
		// the plain register, in the same order (names that were cut are compared by their amounts only)
		{
			rr := regRenderers[r.Intn(2)]
			res, args := runCmd(true, append(append([]string{}, rr.args...), "--shorten")...)
			if failed {
				return
			}
			days, err := rr.parse(res.Out)
			amounts := func(d obs.RegDay) string {
				var sb strings.Builder
				for _, f := range d.Foods {
					var ing []string
					for _, x := range f.Ingredients {
						ing = append(ing, x.Raw)
					}
					sort.Strings(ing)
					fmt.Fprintf(&sb, " %s %v\n", f.Raw, ing)
				}
				for _, t := range d.Totals {
					fmt.Fprintf(&sb, " T %v\n", t.Raw)
				}
				return sb.String()
			}
			bad := ""
			if err != nil {
				bad = "unparsable: " + err.Error()
			} else if len(days) != len(regDays) {
				bad = fmt.Sprintf("%d days vs %d", len(days), len(regDays))
			} else {
				for k := range days {
					if s1, s2 := amounts(days[k]), amounts(regDays[k]); s1 != s2 {
						bad = fmt.Sprintf("day %d differs:\n%s\nvs the plain register:\n%s", k, s1, s2)
						break
					}
				}
			}
			if bad != "" {
				viol("R9c "+rr.name+" --shorten vs plain reg", bad, args, res, regArgs, regRes)
			} else if len(days) > 0 {
				ok("R9c")
			}
		}

		// R10: reg -s X -g rows == bal -s X amounts of foods defined in the book
		if err == nil && bs.HasGrand {
			gRes, gArgs := runCmd(true, "reg", "-s", X, "-g")
			if failed {
				return
			}
			g, gerr := obs.ParseValTabName(gRes.Out)
			paths, leaf, perr := obs.BalPaths(bs.Rows)
			bad := ""
			if gerr != nil || perr != nil {
				bad = fmt.Sprint("unparsable: ", gerr, perr)
			} else {
				defined := w.Book.Defined()
				amt := map[string]*big.Rat{}
				isLeaf := map[string]bool{}
				for k, p := range paths {
					amt[p] = bs.Rows[k].Amount
					isLeaf[p] = leaf[k]
				}
				for _, row := range g {
					if !defined[row.Name] {
						bad = fmt.Sprintf("reg -s -g lists %q, which the book does not define", row.Name)
						break
					}
					a, okk := amt[row.Name]
					if !okk {
						bad = fmt.Sprintf("reg -s -g lists %q, bal -s has no such path", row.Name)
						break
					}
					if isLeaf[row.Name] {
						good := a.Cmp(row.V) == 0
						if !exact {
							good = sameTrueValue(a, row.V, 2, absAll)
						}
						if !good {
							bad = fmt.Sprintf("food %q: reg -s -g %s, bal -s leaf %s", row.Name, row.Raw, rs(a))
							break
						}
					}
				}
				for k := 1; k < len(g); k++ {
					if g[k-1].Name >= g[k].Name {
						bad = "reg -s -g rows not sorted by food name"
					}
				}
			}
			if bad != "" {
				viol("R10 reg -s -g vs bal -s", bad, gArgs, gRes, bsArgs, bsRes)
			} else if len(g) > 0 {
				ok("R10")
			}
		}

		// R12: a selector is the name as given. X decorated with characters that are syntax in the files (a colon, quotes,
		// blanks - also ones only Unicode knows as blanks) names no element of this book, so every single-element report
		// for it is the report for any other name the book does not have
		hasLetter := false
		for _, ch := range X {
			hasLetter = hasLetter || unicode.IsLetter(ch)
		}
		// (names of fewer than three runes or without a letter could be found inside the amounts of a report, where the
		// comparison below substitutes text)
		if i%3 == 1 && strings.TrimSpace(X) == X && hasLetter && utf8.RuneCountInString(X) >= 3 {
			D := []string{X + ":", " " + X, X + "\u00a0", "\"" + X + "\"", X + " ", "\u3000" + X, X + "\t"}[r.Intn(7)]
			Z := "no-such-element"
			known := false
			for _, n := range w.Elements() {
				known = known || n == D || n == Z
			}
			for _, rec := range w.Book {
				known = known || rec.Name == D
			}
			if !known {
				for _, cmd := range [][]string{{"report", "element-total", "SEL"}, {"bal", "-s", "SEL"}, {"reg", "-s", "SEL"}, {"bal", "-s", "SEL", "-c"}} {
					with := func(sel string) (run.Result, []string) {
						a := append([]string{}, cmd...)
						a[len(a)-1-btoi(len(cmd) == 4)] = sel
						return runCmd(cmd[0] != "report", a...)
					}
					dRes, dArgs := with(D)
					zRes, zArgs := with(Z)
					if failed {
						return
					}
					if strings.ReplaceAll(dRes.Out, D, "SEL") != strings.ReplaceAll(zRes.Out, Z, "SEL") {
						viol("R12 "+cmd[0]+" "+cmd[1]+" selector compared as given", fmt.Sprintf("the selector %q (the element %q decorated) gives a report that differs from the one for a name the book does not have", D, X), dArgs, dRes, zArgs, zRes)
					} else {
						ok("R12")
					}
				}
			}
		}

		// R11: reg -f P rows == csv log rows whose food contains P (P literal, regex-safe)
		if len(csvRows) > 0 {
			name := csvRows[r.Intn(len(csvRows))][1]
			runs := alnumRun.FindAllString(name, -1)
			if len(runs) > 0 {
				P := runs[r.Intn(len(runs))]
				if len(P) > 2 {
					P = P[:2]
				}
				fRes, fArgs := runCmd(true, "reg", "-f", P)
				if failed {
					return
				}
				rows, ferr := obs.ParseRegFood(fRes.Out)
				bad := ""
				if ferr != nil {
					bad = "unparsable: " + ferr.Error()
				} else {
					var want [][]string
					for _, row := range csvRows {
						if strings.Contains(row[1], P) {
							want = append(want, row)
						}
					}
					if len(rows) != len(want) {
						bad = fmt.Sprintf("reg -f %s prints %d rows, csv log has %d rows whose food contains it", P, len(rows), len(want))
					} else {
						for k, row := range rows {
							wv, okv := obs.Dec(want[k][2])
							iso, perr := gen.ParseDate(w.Layout, row.Date)
							// 2-decimal vs 3-decimal print of the same float: differ by at most 0.005+0.0005
							t := new(big.Rat).Add(ratHalfCent, ratHalfMil)
							t.Add(t, eps(absAll))
							if perr != nil || iso.ISO() != want[k][0] || row.Name != want[k][1] || !okv || absDiff(row.V, wv).Cmp(t) > 0 {
								bad = fmt.Sprintf("row %d: reg -f (%s,%q,%s), csv log %q", k, row.Date, row.Name, row.Raw, want[k])
								break
							}
						}
					}
				}
				if bad != "" {
					viol("R11 reg -f vs csv log", bad, fArgs, fRes, csvArgs, csvRes)
				} else if len(rows) > 0 {
					ok("R11")
				}
			}
		}

		if exercised >= 6 {
			c.Nontrivial(w.BookText, w.LogText, strings.Join(period, " "), X)
		}
		c.Count("tuples", 1)
		if i%50 == 0 {
			crossCheck(c, srv, totArgs, nil, totRes)
			crossCheck(c, srv, bsArgs, nil, bsRes)
		}
		if i < 2 {
			c.Sample(map[string]any{"food.yaml": clip(w.BookText, 500), "log.yaml": clip(w.LogText, 500), "period": period, "element": X, "relations_exercised": exercised})
		}
	})
	// R5 with the two element names that collide with the CLI library's implicit "help, h" sub-command
	for _, el := range []string{"h", "help", "x"} {
		files := map[string]string{"food.yaml": "soup:\n  h: 2\n  help: 3\n  x: 4\n\nstew:\n  soup: 2\n  h: 1\n", "log.yaml": "2021/01/01:\n  soup: 1\n"}
		dir := c.Work + "/r5names"
		run.WriteFiles(dir, files)
		a1 := withBase("report", "element-total", el)
		a2 := withBase("csv", "database-resolved")
		r1 := run.Exec(c.HR, a1, run.ExecOpts{Dir: dir})
		r2 := run.Exec(c.HR, a2, run.ExecOpts{Dir: dir})
		c.Eval(2)
		et, err1 := obs.ParseValTabName(r1.Out)
		db, _ := obs.ParseCSV(r2.Out)
		want := map[string]string{}
		for _, row := range db {
			if len(row) == 3 && row[1] == el {
				want[row[0]] = row[2]
			}
		}
		bad := ""
		if err1 != nil || r1.Exit != 0 {
			bad = fmt.Sprintf("report element-total %s does not print the report (exit %d): %s", el, r1.Exit, clip(r1.Out, 120))
		} else if len(et) != len(want) {
			bad = fmt.Sprintf("element-total %s: %d rows, resolved CSV has %d", el, len(et), len(want))
		} else {
			for _, e := range et {
				if want[e.Name] != e.Raw {
					bad = fmt.Sprintf("element-total %s: recipe %q shows %s, resolved CSV %q", el, e.Name, e.Raw, want[e.Name])
				}
			}
		}
		c.Nontrivial("r5names", el)
		if bad != "" {
			c.Violation("R5 element-total vs csv database-resolved|element-named-like-help", bad, caseDoc{Files: files, Args: a1, Observed: resDoc(r1), Expected: resDoc(r2)})
		} else {
			c.Count("relation_R5_exercised", 1)
		}
	}
	jobs, deaths := pool.Stats()
	c.Count("l2_jobs", jobs)
	c.Count("l2_process_deaths", deaths)
	c.Count("l2_priming_runs", pool.Primed())
}

func regDayString(d obs.RegDay) string {
	var sb strings.Builder
	sb.WriteString(d.Date + "\n")
	for _, f := range d.Foods {
		fmt.Fprintf(&sb, " %s=%s\n", f.Name, f.Raw)
		ing := append([]obs.NameVal{}, f.Ingredients...)
		sort.Slice(ing, func(i, j int) bool { return ing[i].Name < ing[j].Name })
		for _, x := range ing {
			fmt.Fprintf(&sb, "   %s=%s\n", x.Name, x.Raw)
		}
	}
	for _, t := range d.Totals {
		fmt.Fprintf(&sb, " T %s=%v\n", t.Name, t.Raw)
	}
	return sb.String()
}
