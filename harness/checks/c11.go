package checks

import (
	shared "github.com/aquilax/hranoprovod-cli/v3"
	"github.com/aquilax/hranoprovod-cli/v3/resolver"

	"fmt"
	"math"
	"math/rand"
	"strings"
	"sync"
	"time"

	"verif/harness/core"
	"verif/harness/gen"
	"verif/harness/model"
	"verif/harness/run"
)

func init() {
	register(&Check{ID: "C11", Level: "exploration", Run: runC11})
}

type c11Replay struct {
	Book     string `json:"book"`
	Order    string `json:"insertion_order,omitempty"`
	Entry    int    `json:"entry_point"`
	N        int    `json:"max_depth"`
	Chain    int    `json:"longest_chain_in_references"`
	Cyclic   bool   `json:"cyclic"`
	Expected string `json:"expected"`
	Observed string `json:"observed"`
}

func isDepthError(err error) bool {
	return err != nil && strings.Contains(strings.ToLower(err.Error()), "depth")
}

// c11Verdict runs one resolve and classifies the outcome against the graph oracle.
// Returns "ok"/"err" as observed.
func c11Verdict(c *core.Ctx, b gen.Book, order []int, entry, n, chain int, cyclic bool) string {
	db := buildDB(b, order)
	err := resolveVia(entry, db, n)
	c.Eval(1)
	wantErr := cyclic || chain >= n
	got := "ok"
	if err != nil {
		got = "err"
	}
	rep := func(obsv string) c11Replay {
		exp := "success"
		if wantErr {
			exp = "maximum-depth error"
		}
		return c11Replay{bookText(b), orderStr(order), entry, n, chain, cyclic, exp, obsv}
	}
	switch {
	case wantErr && err == nil && cyclic:
		c.Violation("resolve|accepts-cycle", fmt.Sprintf("cyclic book accepted with limit %d", n), rep("success"))
	case wantErr && err == nil:
		c.Violation("resolve|accepts-deep-chain", fmt.Sprintf("chain of %d references accepted with limit %d", chain, n), rep("success"))
	case wantErr && !isDepthError(err):
		c.Violation("resolve|wrong-error", fmt.Sprintf("expected the maximum-depth error, got %q", err), rep(err.Error()))
	case !wantErr && err != nil:
		c.Violation("resolve|rejects-legal-nesting", fmt.Sprintf("chain of %d references rejected with limit %d: %v", chain, n, err), rep(err.Error()))
	}
	return got
}

// chainBook: r1 -> r2 -> … -> r_len -> x  has len references on its longest chain.
func chainBook(length int, extra *rand.Rand) gen.Book {
	var b gen.Book
	for i := 1; i <= length; i++ {
		next := fmt.Sprintf("r%02d", i+1)
		if i == length {
			next = "x"
		}
		rec := gen.Recipe{Name: fmt.Sprintf("r%02d", i), Ents: []gen.Ent{{Name: next, Val: gen.Half(2)}}}
		if extra != nil && extra.Intn(3) == 0 {
			rec.Ents = append(rec.Ents, gen.Ent{Name: "y", Val: gen.Half(3)})
		}
		if extra != nil && i+2 <= length && extra.Intn(4) == 0 {
			// sharing: a shortcut further down the chain (does not change the longest chain)
			rec.Ents = append(rec.Ents, gen.Ent{Name: fmt.Sprintf("r%02d", i+2), Val: gen.Half(2)})
		}
		b = append(b, rec)
	}
	return b
}

// cycleBook: a cycle of the given length entered through a prefix chain of the given length.
func cycleBook(cycleLen, prefix int) gen.Book {
	var b gen.Book
	for i := 1; i <= prefix; i++ {
		next := fmt.Sprintf("p%02d", i+1)
		if i == prefix {
			next = "c01"
		}
		b = append(b, gen.Recipe{Name: fmt.Sprintf("p%02d", i), Ents: []gen.Ent{{Name: next, Val: gen.Half(2)}, {Name: "y", Val: gen.Half(1)}}})
	}
	for i := 1; i <= cycleLen; i++ {
		next := fmt.Sprintf("c%02d", i%cycleLen+1)
		b = append(b, gen.Recipe{Name: fmt.Sprintf("c%02d", i), Ents: []gen.Ent{{Name: "x", Val: gen.Half(2)}, {Name: next, Val: gen.Half(2)}}})
	}
	return b
}

func runC11(c *core.Ctx) {
	c.SetRule("books: (1) all 32768 structures over 3 recipes + 2 basic names x N in 1..5 x 6 insertion orders x R repetitions x both entry points; (2) chains of N-2..N+2 references for N in 1..12 with sharing, cycles of length 1..8 behind prefixes of 0..6, random DAGs, random insertion orders, repeated; (3) the same through --maxdepth / HR_MAXDEPTH / config MaxDepth of the real binary in fresh processes; (4) cyclic books with a huge limit (termination). Oracle: harness-side longest-path/cycle detection; expected failure iff cyclic or longest chain (in references, counting the final reference to an undefined name) >= N. Non-trivial = (book, N) with chain within 1 of N or cyclic; distinct = hash of (book, N, order, entry).")
	c.Assume("counting convention taken from the code at N=1 (any non-empty recipe is rejected) and from the default N=10 accepting the README book")

	c.RunPart("l3-exhaustive", 30*time.Minute, func(c *core.Ctx) {
		reps := c.N(2, 12)
		var mu sync.Mutex
		varies := 0
		core.ParallelFor(1<<15, c.Procs, func(w, s int) {
			b := structBook(s, edgeMods{})
			chain, cyc := model.Chain(b)
			c.Crumb(w, fmt.Sprintf("structure %d\n%s", s, bookText(b)))
			for n := 1; n <= 5; n++ {
				seen := map[string]bool{}
				for _, p := range perms3 {
					for entry := 0; entry < 2; entry++ {
						for k := 0; k < reps; k++ {
							seen[c11Verdict(c, b, p[:], entry, n, chain, cyc)] = true
						}
					}
				}
				if cyc || (chain >= n-1 && chain <= n+1) {
					c.Nontrivial(fmt.Sprint(s), fmt.Sprint(n))
				}
				if len(seen) > 1 {
					mu.Lock()
					varies++
					mu.Unlock()
					c.Violation("resolve|verdict-varies", fmt.Sprintf("structure %d limit %d: both success and failure observed across insertion orders/repetitions", s, n),
						c11Replay{bookText(b), "all", -1, n, chain, cyc, "one verdict", "both"})
				}
			}
			if s == 4711 {
				c.Sample(map[string]any{"part": "exhaustive", "structure": s, "book": bookText(b), "longest_chain": chain, "cyclic": cyc})
			}
		})
		c.Count("exhaustive_structures", 1<<15)
		c.Count("exhaustive_book_limit_pairs_with_both_verdicts", varies)
	})

	if !c.Quick() {
		c.RunPart("l3-exhaustive-4", 40*time.Minute, func(c *core.Ctx) {
			// 1048576 structures over four recipes x N in 1..6 x 4 PRNG-chosen insertion orders x both entry points
			var mu sync.Mutex
			varies := 0
			core.ParallelFor(1<<20, c.Procs, func(w, s int) {
				b := struct4Book(s)
				chain, cyc := model.Chain(b)
				if s%4096 == 0 {
					c.Crumb(w, fmt.Sprintf("4-recipe structure %d\n%s", s, bookText(b)))
				}
				r := rand.New(rand.NewSource(int64(s)*7919 + c.Seed))
				for n := 1; n <= 6; n++ {
					seen := map[string]bool{}
					for k := 0; k < 4; k++ {
						p := perms4[r.Intn(len(perms4))]
						for entry := 0; entry < 2; entry++ {
							seen[c11Verdict(c, b, p, entry, n, chain, cyc)] = true
						}
					}
					if cyc || (chain >= n-1 && chain <= n+1) {
						c.Nontrivial("s4", fmt.Sprint(s), fmt.Sprint(n))
					}
					if len(seen) > 1 {
						mu.Lock()
						varies++
						mu.Unlock()
						c.Violation("resolve|verdict-varies", fmt.Sprintf("4-recipe structure %d limit %d: both success and failure observed", s, n),
							c11Replay{bookText(b), "several", -1, n, chain, cyc, "one verdict", "both"})
					}
				}
			})
			c.Count("exhaustive4_structures", 1<<20)
			c.Count("exhaustive4_book_limit_pairs_with_both_verdicts", varies)
		})
	}

	c.RunPart("l3-chains", 30*time.Minute, func(c *core.Ctx) {
		reps := c.N(12, 60)
		type tc struct {
			b    gen.Book
			n    int
			what string
		}
		var cases []tc
		r := c.Rng("chains", 0)
		for n := 1; n <= 12; n++ {
			for l := n - 2; l <= n+2; l++ {
				if l < 1 {
					continue
				}
				cases = append(cases, tc{chainBook(l, nil), n, fmt.Sprintf("chain %d limit %d", l, n)})
				cases = append(cases, tc{chainBook(l, r), n, fmt.Sprintf("chain+sharing %d limit %d", l, n)})
			}
		}
		for cl := 1; cl <= 8; cl++ {
			for _, pre := range []int{0, 1, 2, 4, 6} {
				for _, n := range []int{1, 2, 3, 5, 10, 12} {
					cases = append(cases, tc{cycleBook(cl, pre), n, fmt.Sprintf("cycle %d prefix %d limit %d", cl, pre, n)})
				}
			}
		}
		for _, l := range []int{63, 64, 65, 100, 150} {
			for _, n := range []int{66, 1000, l, l + 1} {
				cases = append(cases, tc{chainBook(l, nil), n, fmt.Sprintf("chain %d limit %d", l, n)})
			}
		}
		nr := c.N(300, 3000)
		for i := 0; i < nr; i++ {
			rr := c.Rng("dag", i)
			depth := 1 + rr.Intn(7)
			b := gen.RandomBook(rr, gen.BookOpts{Recipes: 2 + rr.Intn(10), Basics: 2, MaxDepth: depth, Exact: true, Names: gen.NameOpts{MaxLen: 5}})
			ch, _ := model.Chain(b)
			n := ch - 1 + rr.Intn(3)
			if n < 1 {
				n = 1
			}
			cases = append(cases, tc{b, n, fmt.Sprintf("random dag chain %d limit %d", ch, n)})
		}
		c.Count("chain_cycle_dag_cases", len(cases))
		core.ParallelFor(len(cases), c.Procs, func(w, i int) {
			t := cases[i]
			chain, cyc := model.Chain(t.b)
			rr := c.Rng("order", i)
			c.Crumb(w, t.what+"\n"+bookText(t.b))
			seen := map[string]bool{}
			for k := 0; k < reps; k++ {
				order := rr.Perm(len(t.b))
				for entry := 0; entry < 2; entry++ {
					seen[c11Verdict(c, t.b, order, entry, t.n, chain, cyc)] = true
				}
			}
			c.Nontrivial(bookText(t.b), fmt.Sprint(t.n))
			if len(seen) > 1 {
				c.Violation("resolve|verdict-varies", t.what+": both success and failure observed across insertion orders/repetitions",
					c11Replay{bookText(t.b), "random", -1, t.n, chain, cyc, "one verdict", "both"})
			}
			if i == 3 || i == 200 {
				c.Sample(map[string]any{"part": "chains", "case": t.what, "book": bookText(t.b), "limit": t.n, "longest_chain": chain, "cyclic": cyc, "verdicts_seen": sortedKeys(seen)})
			}
		})
	})

	// a chain beyond any round number a limit might silently be capped at (2^20 references): accepted under a larger
	// limit - the next integer, the largest integer -, refused under its own length; in a child of its own, whose
	// death would be attributed to this case
	c.RunPart("l3-million-chain", 4*time.Minute, func(c *core.Ctx) {
		length := 1<<20 + 3
		build := func() shared.DBNodeMap {
			db := shared.NewDBNodeMap()
			for i := 1; i <= length; i++ {
				n := shared.NewParserNode(fmt.Sprintf("c%07d", i))
				if i == length {
					n.Elements.Add("x", 1)
				} else {
					n.Elements.Add(fmt.Sprintf("c%07d", i+1), 1)
				}
				db.Push(shared.NewDBNodeFromNode(n))
			}
			return db
		}
		for k, limit := range []int{length + 1, math.MaxInt64, length} {
			entry := k % 2
			c.Crumb(0, fmt.Sprintf("chain of %d references, limit %d, entry %d", length, limit, entry))
			err := resolveVia(entry, build(), limit)
			c.Eval(1)
			c.Count("million_chain_runs", 1)
			c.Nontrivial("million-chain", fmt.Sprint(limit))
			wantErr := limit <= length
			if (err != nil) != wantErr || (err != nil && !isDepthError(err)) {
				class := "rejects-legal-nesting"
				if wantErr {
					class = "accepts-deep-chain"
				}
				c.Violation(fmt.Sprintf("resolve entry%d|%s", entry, class), fmt.Sprintf("chain of %d references under limit %d: error = %v", length, limit, err),
					map[string]any{"chain_references": length, "limit": limit, "entry_point": entry, "error": fmt.Sprint(err), "note": "book built in memory: recipe c0000001 uses c0000002 ... the last one uses the element x"})
			}
		}
	})

	// the resolver value and the book it was made for have separate lives: the book may be filled, grown or
	// corrected between NewResolver and Resolve, and between two calls of Resolve; the verdict is about the
	// book as it is when Resolve runs
	c.RunPart("l3-resolver-lifetime", 10*time.Minute, func(c *core.Ctx) {
		push := func(db shared.DBNodeMap, rec gen.Recipe) {
			n := shared.NewParserNode(rec.Name)
			for _, e := range rec.Ents {
				n.Elements.Add(e.Name, e.Val.F())
			}
			db.Push(shared.NewDBNodeFromNode(n))
		}
		verdict := func(what string, b gen.Book, n int, err error) {
			chain, cyc := model.Chain(b)
			wantErr := cyc || chain >= n
			c.Eval(1)
			c.Count("resolver_lifetime_cases", 1)
			c.Nontrivial("lifetime", what, bookText(b), fmt.Sprint(n))
			rep := map[string]any{"sequence": what, "book_when_resolve_runs": bookText(b), "max_depth": n, "longest_chain": chain, "cyclic": cyc, "returned": fmt.Sprint(err)}
			switch {
			case wantErr && err == nil:
				c.Violation("Resolver.Resolve|stale-verdict-accepts", fmt.Sprintf("%s: chain %d (cyclic %v) accepted with limit %d", what, chain, cyc, n), rep)
			case !wantErr && err != nil:
				c.Violation("Resolver.Resolve|stale-verdict-rejects", fmt.Sprintf("%s: chain %d rejected with limit %d: %v", what, chain, n, err), rep)
			}
		}
		r := c.Rng("lifetime", 0)
		for n := 2; n <= 7; n++ {
			for l := n - 1; l <= n+1; l++ {
				for rep := 0; rep < c.N(6, 30); rep++ {
					b := chainBook(l, r)
					order := r.Perm(len(b))
					// (a) the book is filled after the resolver was made
					db := shared.NewDBNodeMap()
					rs := resolver.NewResolver(db, resolver.Config{MaxDepth: n})
					for _, i := range order {
						push(db, b[i])
					}
					verdict("NewResolver on an empty book, book filled, Resolve", b, n, rs.Resolve())
					// (b) a legal book is resolved, then grows beyond the limit, and is resolved again
					if l >= 2 {
						short := b[1:] // chain of l-1 references
						db2 := buildDB(short, r.Perm(len(short)))
						rs2 := resolver.NewResolver(db2, resolver.Config{MaxDepth: n})
						err0 := rs2.Resolve()
						verdict("Resolve on the shorter book", short, n, err0)
						if err0 == nil {
							// the shorter book is resolved in place by now: each of its recipes refers to basic names only
							flat := gen.Book{b[0]}
							for _, rec := range short {
								flat = append(flat, gen.Recipe{Name: rec.Name, Ents: []gen.Ent{{Name: "x", Val: gen.Half(2)}}})
							}
							push(db2, b[0])
							verdict("book grown by its head recipe after a first Resolve, Resolve again", flat, n, rs2.Resolve())
						}
						// grown before the first Resolve
						db4 := buildDB(short, r.Perm(len(short)))
						rs4 := resolver.NewResolver(db4, resolver.Config{MaxDepth: n})
						push(db4, b[0])
						verdict("NewResolver on the shorter book, head recipe added, Resolve", b, n, rs4.Resolve())
					}
					// (c) a cyclic declaration is replaced by a correct one before Resolve
					cyc := append(gen.Book{}, b...)
					cyc[len(cyc)-1] = gen.Recipe{Name: b[len(b)-1].Name, Ents: []gen.Ent{{Name: b[0].Name, Val: gen.Half(2)}}}
					db3 := buildDB(cyc, r.Perm(len(cyc)))
					rs3 := resolver.NewResolver(db3, resolver.Config{MaxDepth: n})
					push(db3, b[len(b)-1])
					verdict("NewResolver on a cyclic book, cycle removed, Resolve", b, n, rs3.Resolve())
				}
			}
		}
	})

	// termination with a huge limit: own part, because the expected failure mode is process death
	c.RunPart("l3-huge-limit", 10*time.Minute, func(c *core.Ctx) {
		for i, b := range []gen.Book{cycleBook(1, 0), cycleBook(2, 1), cycleBook(3, 0), structBook(1|1<<6|1<<12, edgeMods{})} {
			chain, cyc := model.Chain(b)
			// incl. the largest values an int holds (a height of "limit" or "limit + 1" must not wrap around)
			for _, n := range []int{100000000, 1 << 40, math.MaxInt32, math.MaxInt32 + 1, math.MaxInt64 - 1, math.MaxInt64} {
				for entry := 0; entry < 2; entry++ {
					c.Crumb(0, fmt.Sprintf("cyclic book %d with limit %d entry %d\n%s", i, n, entry, bookText(b)))
					c11Verdict(c, b, []int{0, 1, 2, 3, 4, 5, 6, 7}[:len(b)], entry, n, chain, cyc)
					c.Nontrivial("huge", bookText(b), fmt.Sprint(n), fmt.Sprint(entry))
					c.Count("huge_limit_cyclic_runs", 1)
				}
			}
		}
	})

	if c.InChild() {
		return
	}
	// (3) CLI: the limit from flag, environment and configuration file, fresh processes
	procs := c.N(8, 24)
	type cli struct {
		b     gen.Book
		n     int
		via   string
		cmd   []string
		label string
		// ordered: the declaration order of b matters (a heading declared twice: the later one counts)
		ordered bool
	}
	var cases []cli
	cmds := [][]string{{"csv", "database-resolved"}, {"reg"}, {"bal"}, {"report", "element-total", "x"}, {"report", "totals"}, {"summary", "2021/01/24"},
		{"report", "element-total", "r01"}, {"report", "element-total", "c01"}, {"report", "unresolved"}, {"bal", "-s", "x"}, {"reg", "-s", "x"}}
	r := c.Rng("cli", 0)
	// plus resolving command shapes drawn from the catalogue (reg -f, renderer x presentation flags, ...)
	for len(cmds) < 40 {
		if sp := randomCmd(r, "x", "r", "2021/01/24"); sp.Resolves {
			cmds = append(cmds, sp.Args)
		}
	}
	for n := 1; n <= 6; n++ {
		for l := n - 1; l <= n+1; l++ {
			if l < 1 {
				continue
			}
			for _, via := range []string{"flag", "env", "config"} {
				cases = append(cases, cli{chainBook(l, r), n, via, cmds[r.Intn(len(cmds))], fmt.Sprintf("chain %d limit %d via %s", l, n, via), false})
			}
		}
	}
	// a limit given by flag or variable decides even when the configuration file names another one,
	// also when it restates the built-in default of 10
	for _, n := range []int{10, 4, 12} {
		for _, k := range []int{3, 20} {
			for _, l := range []int{n - 1, n, n + 1} {
				for _, via := range []string{"flag-over-config", "env-over-config"} {
					cases = append(cases, cli{chainBook(l, nil), n, fmt.Sprintf("%s:%d", via, k), cmds[r.Intn(len(cmds))], fmt.Sprintf("chain %d limit %d via %s (config says %d)", l, n, via, k), false})
				}
			}
		}
	}
	for cl := 1; cl <= 4; cl++ {
		for ni, n := range []int{1, 3, 10, 100000000, math.MaxInt32, math.MaxInt64 - 1, math.MaxInt64} {
			via := []string{"flag", "env", "config"}[(cl+ni)%3]
			if n < 100000000 {
				via = "flag"
			}
			cases = append(cases, cli{cycleBook(cl, cl-1), n, via, cmds[r.Intn(len(cmds))], fmt.Sprintf("cycle %d limit %d via %s", cl, n, via), false})
		}
	}
	for _, l := range []int{64, 110} {
		for _, n := range []int{1000, l + 1, l} {
			cases = append(cases, cli{chainBook(l, nil), n, "flag", cmds[0], fmt.Sprintf("chain %d limit %d via flag", l, n), false})
		}
	}
	// the top of the chain is a recipe whose quoted name begins with the comment character ("#1 combo"): a heading
	// like any other, wherever it is declared
	for _, n := range []int{3, 4, 5, 10} {
		for l := n - 1; l <= n+1; l++ {
			for rep := 0; rep < 3; rep++ {
				b := chainBook(l, nil)
				b[0].Name = "#1 combo"
				via := []string{"flag", "env", "config"}[rep]
				cases = append(cases, cli{b, n, via, cmds[r.Intn(len(cmds))], fmt.Sprintf("chain %d limit %d via %s, top recipe \"#1 combo\"", l, n, via), false})
			}
		}
	}
	// limits and chains far beyond anything a person would type (a cap or a counter width hidden anywhere
	// between the option and the resolver shows here): 1100, 10050 and 66000 references
	for li, l := range []int{1100, 10050, 66000} {
		for ni, n := range []int{l + 1, l, 3 * l} {
			via := []string{"flag", "env", "config"}[(li+ni)%3]
			cases = append(cases, cli{chainBook(l, nil), n, via, cmds[(li+ni)%3], fmt.Sprintf("chain %d limit %d via %s", l, n, via), false})
		}
	}
	// a heading declared twice: only the later declaration counts, also when it is empty or carries
	// nothing but a note; references of the superseded declaration must not be counted
	{
		x := func(n string) gen.Ent { return gen.Ent{Name: n, Val: gen.Half(2)} }
		note := []gen.Note{{Key: "source", Text: "label"}}
		superseded := []struct {
			b     gen.Book
			label string
		}{
			{gen.Book{{Name: "r01", Ents: []gen.Ent{x("stock")}}, {Name: "stock", Ents: []gen.Ent{x("r01")}}, {Name: "stock", Notes: note}}, "cycle only through a superseded declaration (later one: note only)"},
			{gen.Book{{Name: "r01", Ents: []gen.Ent{x("stock")}}, {Name: "stock", Ents: []gen.Ent{x("r01")}}, {Name: "stock"}}, "cycle only through a superseded declaration (later one: empty)"},
			{gen.Book{{Name: "r01", Ents: []gen.Ent{x("s1")}}, {Name: "s1", Ents: []gen.Ent{x("s2")}}, {Name: "s2", Ents: []gen.Ent{x("s3")}}, {Name: "s3", Ents: []gen.Ent{x("x")}}, {Name: "s1", Ents: []gen.Ent{x("x")}, Notes: note}}, "long chain only through a superseded declaration"},
			{gen.Book{{Name: "r01", Ents: []gen.Ent{x("s1")}}, {Name: "s1", Ents: []gen.Ent{x("x")}}, {Name: "s1", Ents: []gen.Ent{x("r01")}}}, "later declaration closes a cycle"},
		}
		// references written on two rows whose amounts cancel: still references (the limit is about the chain, not
		// about the amounts that come through it)
		m := func(n string, k int) gen.Ent { return gen.Ent{Name: n, Val: gen.Half(2 * k)} }
		superseded = append(superseded, []struct {
			b     gen.Book
			label string
		}{
			{gen.Book{{Name: "r01", Ents: []gen.Ent{m("batter", 1), m("batter", -1), x("x")}}, {Name: "batter", Ents: []gen.Ent{x("r01")}}}, "cycle through a reference written on two rows that cancel"},
			{gen.Book{{Name: "r01", Ents: []gen.Ent{m("r01", 2), x("x"), m("r01", -2)}}}, "self-reference on two rows that cancel"},
			{gen.Book{{Name: "r01", Ents: []gen.Ent{m("s1", 1), m("s1", -1)}}, {Name: "s1", Ents: []gen.Ent{x("s2")}}, {Name: "s2", Ents: []gen.Ent{x("s3")}}, {Name: "s3", Ents: []gen.Ent{x("x")}}}, "chain of 4 through a reference written on two rows that cancel"},
			{gen.Book{{Name: "r01", Ents: []gen.Ent{x("s1")}}, {Name: "s1", Ents: []gen.Ent{m("s2", 3), m("x", 1), m("s2", -3)}}, {Name: "s2", Ents: []gen.Ent{x("r01")}}}, "3-cycle through cancelling rows in the middle"},
		}...)
		for _, sp := range superseded {
			for _, n := range []int{3, 10} {
				cases = append(cases, cli{b: sp.b, n: n, via: "flag", cmd: cmds[0], label: fmt.Sprintf("%s, limit %d", sp.label, n), ordered: true})
			}
		}
	}
	// ladders: two recipes per level, each using both recipes of the next level. The number of reference paths
	// doubles with every level (2^30, 2^48) while the longest chain is just the number of levels: the limit is
	// about the chain, and deciding it - and resolving - takes time in the number of recipes, not of paths
	for _, levels := range []int{30, 48} {
		var b gen.Book
		for lv := 1; lv <= levels; lv++ {
			for _, side := range []string{"a", "b"} {
				name := fmt.Sprintf("l%02d%s", lv, side)
				if lv == 1 && side == "a" {
					name = "r01"
				}
				rec := gen.Recipe{Name: name}
				if lv == levels {
					rec.Ents = []gen.Ent{{Name: "x", Val: gen.Half(2)}}
				} else {
					rec.Ents = []gen.Ent{{Name: fmt.Sprintf("l%02da", lv+1), Val: gen.Half(2)}, {Name: fmt.Sprintf("l%02db", lv+1), Val: gen.Half(1)}}
				}
				b = append(b, rec)
			}
		}
		for ni, n := range []int{64, levels + 1, levels, 12} {
			via := []string{"flag", "env", "config"}[(levels+ni)%3]
			cases = append(cases, cli{b, n, via, cmds[ni%3], fmt.Sprintf("ladder of %d levels x 2 recipes (2^%d reference paths) limit %d via %s", levels, levels, n, via), false})
		}
	}
	// default limit 10: chains 9, 10, 11 with no setting at all
	for _, l := range []int{9, 10, 11} {
		cases = append(cases, cli{chainBook(l, nil), 10, "default", []string{"csv", "database-resolved"}, fmt.Sprintf("chain %d default limit", l), false})
	}
	core.ParallelFor(len(cases), c.Procs, func(w, i int) {
		t := cases[i]
		dir := fmt.Sprintf("%s/cli%03d", c.Work, i)
		chain, cyc := model.Chain(t.b)
		// declaration order shuffled per case
		rr := c.Rng("cliorder", i)
		bb := append(gen.Book{}, t.b...)
		if !t.ordered {
			rr.Shuffle(len(bb), func(a, b int) { bb[a], bb[b] = bb[b], bb[a] })
		}
		files := map[string]string{"food.yaml": bookText(bb), "log.yaml": "2021/01/24:\n  r01: 1\n  c01: 2\n  p01: 1\n"}
		if i%2 == 1 {
			// every documented layout variant: blank and comment lines inside recipes, dashes, quotes, tabs, CRLF
			files["food.yaml"] = gen.RenderBook(bb, gen.Hostile(rr))
		}
		args := []string{"--no-color", "-d", "food.yaml", "-l", "log.yaml"}
		env := map[string]string{}
		if i := strings.Index(t.via, "-over-config:"); i > 0 {
			files["hr.conf"] = fmt.Sprintf("[Resolver]\nMaxDepth=%s\n", t.via[i+len("-over-config:"):])
			args = append(args, "--config", "hr.conf")
			if t.via[:i] == "flag" {
				args = append(args, "--maxdepth", fmt.Sprint(t.n))
			} else {
				env["HR_MAXDEPTH"] = fmt.Sprint(t.n)
			}
		}
		switch t.via {
		case "flag":
			args = append(args, "--maxdepth", fmt.Sprint(t.n))
		case "env":
			env["HR_MAXDEPTH"] = fmt.Sprint(t.n)
		case "config":
			files["hr.conf"] = fmt.Sprintf("[Resolver]\nMaxDepth=%d\n", t.n)
			args = append(args, "--config", "hr.conf")
		}
		args = append(args, t.cmd...)
		if err := run.WriteFiles(mkdir(dir), files); err != nil {
			c.HarnessError(err.Error())
			return
		}
		wantErr := cyc || chain >= t.n
		seen := map[string]bool{}
		baseArgs := append([]string{}, args[:len(args)-len(t.cmd)]...)
		rounds := procs
		if strings.HasPrefix(t.label, "ladder") {
			// (a change that makes ladders slow without making them hang would otherwise cost minutes per round)
			rounds = 2
		}
		for k := 0; k < rounds; k++ {
			// the case's own command first, then the others in rotation: every resolving command sees every case class
			t.cmd = cmds[(i+k)%len(cmds)]
			args = append([]string{}, baseArgs...)
			if k%4 == 1 {
				// the switch that would drop the book, given with an explicit false value: the book stays
				args = append(args, []string{"--no-database=false", "--no-database=0", "--no-database=F"}[(i+k)%3])
			}
			if k%3 == 2 && t.cmd[0] != "summary" {
				// a period that keeps no day, every day or is inverted: the book is resolved all the same
				args = append(args, randomPeriod(rr, func(y, m, d int) string { return fmt.Sprintf("%04d/%02d/%02d", y, m, d) })...)
			}
			args = append(args, t.cmd...)
			res := run.Exec(c.HR, args, run.ExecOpts{Dir: dir, Env: env, Timeout: 120 * time.Second})
			c.Eval(1)
			c.Count("cli_fresh_processes", 1)
			doc := caseDoc{Files: files, Args: args, Env: env, Note: t.label, Observed: resDoc(res)}
			got := "ok"
			if res.Exit != 0 {
				got = "err"
			}
			seen[got] = true
			if res.TimedOut {
				// "resolution terminates" is part of the property: before calling it, once more with a generous limit
				res = run.Exec(c.HR, args, run.ExecOpts{Dir: dir, Env: env, Timeout: 240 * time.Second})
				if res.TimedOut {
					c.Violation(strings.Join(t.cmd, " ")+"|does-not-terminate", t.label+": no result within 120 s, nor within 240 s in a second run", doc)
					break
				}
			}
			switch {
			case res.TimedOut:
				c.Inconclusive("cli "+t.label, "watchdog expired")
			case res.Crashed():
				c.Violation(strings.Join(t.cmd, " ")+"|crash", t.label+": "+clip(res.Serr, 300), doc)
			case wantErr && res.Exit == 0:
				c.Violation(strings.Join(t.cmd, " ")+"|accepts-deep-or-cyclic", t.label+": exit 0", doc)
			case wantErr && !strings.Contains(strings.ToLower(res.Serr), "depth"):
				if t.via == "config" && strings.Contains(res.Serr, "not found") {
					// the configuration file could not be loaded at all: that is C16's subject, not the depth rule
					c.Count("cli_config_not_loadable", 1)
				} else {
					c.Violation(strings.Join(t.cmd, " ")+"|wrong-error", t.label+": "+clip(res.Serr, 300), doc)
				}
			case !wantErr && res.Exit != 0:
				if t.via == "config" && strings.Contains(res.Serr, "not found") {
					c.Count("cli_config_not_loadable", 1)
				} else {
					c.Violation(strings.Join(t.cmd, " ")+"|rejects-legal-nesting", t.label+": "+clip(res.Serr, 300), doc)
				}
			}
		}
		c.Nontrivial("cli", t.label, files["food.yaml"])
		if len(seen) > 1 {
			c.Violation("cli|verdict-varies", t.label+": both success and failure across fresh processes and resolving commands", caseDoc{Files: files, Args: args, Env: env, Note: t.label})
		}
		if i == 5 {
			c.Sample(map[string]any{"part": "cli", "case": t.label, "args": joinArgs(args), "env": env, "food.yaml": files["food.yaml"], "verdicts_seen": sortedKeys(seen)})
		}
	})
	// (4) the same cases served one after the other by long-lived processes (the job server): the limit comes from
	// another source each time - flag, variable, configuration file, nothing - and what an earlier invocation was
	// given must not decide a later one
	pool := newPool(c, c.Procs)
	if pool == nil {
		return
	}
	defer pool.Close()
	rounds := c.N(2, 6)
	core.ParallelFor(c.Procs, c.Procs, func(w, part int) {
		srv := pool.Servers[w]
		for rd := 0; rd < rounds; rd++ {
			rr := c.Rng("inprocess", part*100+rd)
			for _, i := range rr.Perm(len(cases)) {
				t := cases[i]
				if len(t.b) > 50 || i%c.Procs != part {
					continue
				}
				chain, cyc := model.Chain(t.b)
				files := map[string]string{"food.yaml": bookText(t.b), "log.yaml": "2021/01/24:\n  r01: 1\n  c01: 2\n  p01: 1\n"}
				args := []string{"--no-color", "-d", "food.yaml", "-l", "log.yaml"}
				env := map[string]string{}
				via := t.via
				if k := strings.Index(t.via, "-over-config:"); k > 0 {
					files["hr.conf"] = fmt.Sprintf("[Resolver]\nMaxDepth=%s\n", t.via[k+len("-over-config:"):])
					args = append(args, "--config", "hr.conf")
					via = t.via[:k]
				}
				switch via {
				case "flag":
					args = append(args, "--maxdepth", fmt.Sprint(t.n))
				case "env":
					env["HR_MAXDEPTH"] = fmt.Sprint(t.n)
				case "config":
					files["hr.conf"] = fmt.Sprintf("[Resolver]\nMaxDepth=%d\n", t.n)
					args = append(args, "--config", "hr.conf")
				}
				cmd := cmds[(i+rd)%len(cmds)]
				args = append(args, cmd...)
				srv.Write(files)
				res := srv.App1(args, env)
				c.Eval(1)
				c.Count("cli_runs_in_long_lived_processes", 1)
				c.Nontrivial("inprocess", t.label, joinArgs(cmd))
				wantErr := cyc || chain >= t.n
				doc := caseDoc{Files: files, Args: args, Env: env, Note: t.label + "; served by a process that has served other cases before (limits from flag, variable, configuration file and default in turn)", Observed: resDoc(res)}
				switch {
				case res.Panic != "":
					c.Violation(strings.Join(cmd, " ")+"|crash", t.label+": "+clip(res.Panic, 300), doc)
				case wantErr && res.Exit == 0:
					c.Violation(strings.Join(cmd, " ")+"|accepts-deep-or-cyclic-after-other-runs", t.label+": exit 0 in a process that served other invocations before", doc)
				case !wantErr && res.Exit != 0:
					c.Violation(strings.Join(cmd, " ")+"|rejects-legal-nesting-after-other-runs", t.label+": "+clip(res.Err+res.Serr, 300)+" in a process that served other invocations before", doc)
				}
			}
		}
	})
	jobs, deaths := pool.Stats()
	c.Count("l2_jobs", jobs)
	c.Count("l2_process_deaths", deaths)
	c.Count("l2_priming_runs", pool.Primed())
}

func mkdir(d string) string { return d }
