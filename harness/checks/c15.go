package checks

import (
	"fmt"
	"math/big"
	"regexp"
	"sort"
	"strings"
	"unicode/utf8"

	"verif/harness/core"
	"verif/harness/gen"
	"verif/harness/obs"
	"verif/harness/run"
)

func init() {
	register(&Check{ID: "C15", Level: "exploration", Run: runC15})
}

var colouredNumRe = regexp.MustCompile("(\x1b\\[3([12])m)?( *-?\\d+\\.\\d\\d)(\x1b\\[0m)?")

// colourProblems checks every amount of a coloured report: red for > 0, green for < 0, none for 0.
// Amounts are taken from the numeric columns only (the trailing 1 or 3 numbers of a line, or the
// leading ones in the left-aligned template), never from inside names.
func colourProblems(out string, leading bool) (problem string, amounts int) {
	for _, ln := range obs.Lines(out) {
		var cols [][]string
		if leading {
			rest := ln
			for len(cols) < 3 {
				rest = strings.TrimLeft(rest, " =")
				loc := colouredNumRe.FindStringSubmatchIndex(rest)
				if loc == nil || loc[0] != 0 {
					break
				}
				cols = append(cols, colouredNumRe.FindStringSubmatch(rest))
				rest = rest[loc[1]:]
				if !strings.HasPrefix(rest, " ") {
					break
				}
				if strings.HasPrefix(rest, "  ") && !strings.HasPrefix(strings.TrimLeft(rest, " "), "=") && len(cols) != 1 {
					break
				}
				if len(cols) == 1 && strings.HasPrefix(rest, "  ") {
					// "value  name" (food) or "value    name" (ingredient): a single column
					break
				}
			}
		} else {
			tail := ln
			if i := strings.LastIndex(ln, "\t"); i >= 0 {
				tail = ln[i+1:]
			}
			ms := colouredNumRe.FindAllStringSubmatch(tail, -1)
			idx := colouredNumRe.FindAllStringIndex(tail, -1)
			end := len(tail)
			for k := len(ms) - 1; k >= 0; k-- {
				rest := strings.TrimSpace(strings.Trim(tail[idx[k][1]:end], "= "))
				if rest != "" {
					break
				}
				cols = append(cols, ms[k])
				end = idx[k][0]
				if len(cols) == 3 {
					break
				}
			}
			if len(cols) == 2 {
				cols = cols[:1] // a name ending in a number followed by the amount
			}
		}
		for _, m := range cols {
			v, ok := obs.Dec(strings.TrimSpace(m[3]))
			if !ok {
				continue
			}
			amounts++
			colour := m[2] // "1" red, "2" green, "" none
			if (m[1] == "") != (m[4] == "") {
				return fmt.Sprintf("unbalanced escape sequence in %q", ln), amounts
			}
			switch {
			case v.Sign() > 0 && colour != "1":
				return fmt.Sprintf("positive amount %s not red in %q", strings.TrimSpace(m[3]), ln), amounts
			case v.Sign() < 0 && colour != "2":
				return fmt.Sprintf("negative amount %s not green in %q", strings.TrimSpace(m[3]), ln), amounts
			case v.Sign() == 0 && colour != "":
				return fmt.Sprintf("zero amount coloured in %q", ln), amounts
			}
		}
	}
	return "", amounts
}

func splitDays(out string) [][]string {
	var days [][]string
	for _, ln := range obs.Lines(out) {
		if !strings.HasPrefix(ln, "\t") && !strings.HasPrefix(ln, " ") && !strings.HasPrefix(ln, "-") {
			days = append(days, []string{ln})
		} else if len(days) > 0 {
			days[len(days)-1] = append(days[len(days)-1], ln)
		}
	}
	return days
}

func shortenOK(orig, short string, width int) string {
	if utf8.RuneCountInString(orig) <= width {
		if short != orig {
			return fmt.Sprintf("name %q fits in %d columns but is shown as %q", orig, width, short)
		}
		return ""
	}
	if utf8.RuneCountInString(short) > width {
		return fmt.Sprintf("shortened name %q is longer than %d", short, width)
	}
	if !strings.Contains(short, "…") {
		return fmt.Sprintf("shortened name %q has no ellipsis", short)
	}
	// the name itself may contain the omission character: any of its occurrences may be the one that was put in
	ok := false
	for at := 0; ; {
		k := strings.Index(short[at:], "…")
		if k < 0 {
			break
		}
		pre, suf := short[:at+k], short[at+k+len("…"):]
		if pre != "" && suf != "" && strings.HasPrefix(orig, pre) && strings.HasSuffix(orig, suf) {
			ok = true
			break
		}
		at += k + len("…")
	}
	if !ok {
		return fmt.Sprintf("shortened name %q is not prefix+…+suffix of %q", short, orig)
	}
	return ""
}

func c15Head(d gen.Day, layout string) string {
	if d.Head != "" {
		return d.Head
	}
	return d.Date.Format(layout)
}

func runC15(c *core.Ctx) {
	c.SetRule("cases: generated logs/books (exact number pool so that the sign of every amount is known; days without entries; names longer than the 27/20-rune columns incl. multi-byte) x presentation flags of reg {colour on/off, template default/left-aligned/old, --shorten, default/--no-totals/--totals-only}, colour on summary, --desc on report quantity/element-total, --no-color given globally vs on the sub-command. Oracle: (a) coloured output minus escape codes == plain output, every amount red/green/uncoloured by sign; (b) --shorten shows the same records and numbers, names within the column as prefix+ellipsis+suffix; (c) default reg == per-day interleaving of --no-totals and --totals-only; (e) --desc = same rows, non-increasing; (f) flag position does not matter. (b') left-aligned and old reporter show the same records and numbers as the default; collapse modes are C03's. Non-trivial = input with an amount of each sign; distinct = hash(files, flags).")
	pool := newPool(c, c.Procs)
	if pool == nil {
		return
	}
	defer pool.Close()
	n := c.N(600, 10000)
	core.ParallelFor(n, c.Procs, func(wk, i int) {
		srv := pool.Servers[wk]
		r := c.Rng("case", i)
		no := gen.NameOpts{Unicode: true, Spaces: true, Slash: true, Punct: ".,'()&+-_", MaxLen: 12}
		if i%2 == 0 {
			no.MaxLen, no.MinLen = 45, 1 // many names longer than the columns
		}
		exactPool := i%3 != 2
		w := newWorld(r, worldOpts{Exact: exactPool, Names: no, MinDays: 1})
		if !exactPool {
			// amounts that cancel almost but not exactly (0.3 - 0.1 - 0.2; 1e15 against 999999999999999.5)
			d := r.Intn(len(w.Log))
			el, base := w.Basics[0], w.Basics[len(w.Basics)-1]
			w.Book = append(w.Book, gen.Recipe{Name: base + "/x", Ents: []gen.Ent{{Name: el, Val: gen.N("-0.1")}}}, gen.Recipe{Name: base + "/y", Ents: []gen.Ent{{Name: el, Val: gen.N("-0.2")}, {Name: "big", Val: gen.N("-999999999999999.5")}}}, gen.Recipe{Name: base + "/z", Ents: []gen.Ent{{Name: "big", Val: gen.N("1e15")}}})
			w.Log[d].Ents = append(w.Log[d].Ents, gen.Ent{Name: el, Val: gen.N("0.3")}, gen.Ent{Name: base + "/x", Val: gen.N("1")}, gen.Ent{Name: base + "/y", Val: gen.N("1")}, gen.Ent{Name: base + "/z", Val: gen.N("1")})
			w.BookText = gen.RenderBook(w.Book, nil)
			w.LogText = gen.RenderLog(w.Log, w.Layout, nil)
			c.Count("general_pool_inputs_with_cancelling_amounts", 1)
		}
		if i%4 == 1 {
			// two different names that middle-truncation maps to the same label (same length,
			// same first and last 14 runes), logged on the same day
			pre := gen.Name(r, gen.NameOpts{MinLen: 14, MaxLen: 14})
			suf := gen.Name(r, gen.NameOpts{MinLen: 14, MaxLen: 14})
			n1, n2 := pre+"/lettuce/"+suf, pre+"/cheddar/"+suf
			d := r.Intn(len(w.Log))
			w.Log[d].Ents = append(w.Log[d].Ents, gen.Ent{Name: n1, Val: gen.Half(3)}, gen.Ent{Name: n2, Val: gen.Half(4)})
			w.LogText = gen.RenderLog(w.Log, w.Layout, nil)
			c.Count("inputs_with_colliding_shortened_names", 1)
		}
		if i%3 == 1 {
			// a name that is an entry and a category at once, the category with a single leaf below it
			base := w.Unknown
			if len(base) == 0 {
				base = w.Basics
			}
			n0 := base[r.Intn(len(base))]
			d := r.Intn(len(w.Log))
			w.Log[d].Ents = append(w.Log[d].Ents, gen.Ent{Name: n0, Val: gen.Half(5)}, gen.Ent{Name: n0 + "/latte", Val: gen.Half(3)})
			w.LogText = gen.RenderLog(w.Log, w.Layout, nil)
			c.Count("inputs_with_a_name_that_is_entry_and_category", 1)
		}
		var layoutFlags []string
		if i%7 == 3 && len(w.Log) >= 2 {
			// a layout with a time of day and a zone offset; consecutive headings may denote the same instant under
			// different texts (00:30 +0200 and 22:30 +0000 of the day before): every renderer shows each heading as written
			offs := []string{"+0200", "+0000", "-0500", "+0530"}
			for di := range w.Log {
				d := w.Log[di].Date
				w.Log[di].Head = d.Format("2006/01/02") + " 12:00 " + offs[r.Intn(len(offs))]
				if di > 0 && r.Intn(2) == 0 {
					p := w.Log[di-1].Date
					w.Log[di-1].Head = p.Format("2006/01/02") + " 00:30 +0200"
					w.Log[di].Date = p.AddDays(-1)
					w.Log[di].Head = p.AddDays(-1).Format("2006/01/02") + " 22:30 +0000"
				}
			}
			w.Layout = "2006/01/02 15:04 -0700"
			layoutFlags = []string{"--date-format", w.Layout}
			w.LogText = gen.RenderLog(w.Log, w.Layout, nil)
			c.Count("inputs_in_a_zoned_layout_with_equal_instants", 1)
		}
		if i%7 == 5 {
			// a layout whose separators are characters that formatting and templating functions treat specially
			// when text is mistaken for a format: the headings are data and come out as written, in every renderer
			sep := []string{"%", "%d", "%s", "%!", "%v", "\\", "{{", "}}", "%%", "%+"}[r.Intn(10)]
			w.Layout = "2006" + sep + "01" + sep + "02"
			for di := range w.Log {
				w.Log[di].Head = ""
			}
			layoutFlags = []string{"--date-format", w.Layout}
			w.LogText = gen.RenderLog(w.Log, w.Layout, nil)
			c.Count("inputs_in_a_layout_with_format_like_separators", 1)
		}
		files := w.Files()
		srv.Write(files)
		runArgs := func(args ...string) run.Result {
			c.Eval(1)
			full := append(append([]string{"-d", "food.yaml", "-l", "log.yaml"}, layoutFlags...), args...)
			return srv.App1(respell(c.Rng("spell", i), full), nil)
		}
		doc := func(note string, args []string, a, b run.Result) caseDoc {
			return caseDoc{Files: files, Args: args, Note: note, Observed: map[string]any{"this": resDoc(a), "other": resDoc(b)}}
		}
		signs := map[int]bool{}
		for _, d := range w.Log {
			for _, e := range d.Ents {
				signs[e.Val.R.Sign()] = true
			}
		}
		if len(signs) == 3 {
			c.Nontrivial(w.BookText, w.LogText)
		}

		// (a) colour
		for _, tmpl := range [][]string{{"reg"}, {"reg", "--internal-template-name", "left-aligned"}, {"reg", "--use-old-reg-reporter"}, {"reg", "--totals-only"}, {"reg", "--shorten"}, {"summary", c15Head(w.Log[0], w.Layout)}} {
			col := runArgs(tmpl...)
			plain := runArgs(append([]string{"--no-color"}, tmpl...)...)
			name := strings.Join(tmpl[:min(2, len(tmpl))], " ")
			if tmpl[0] == "summary" {
				name = "summary"
			}
			c.Count("colour_pairs", 1)
			if col.Exit != 0 || plain.Exit != 0 || col.Panic+plain.Panic != "" {
				c.Violation(name+"|fails-on-valid-input", "coloured or plain run fails", doc("", tmpl, col, plain))
				continue
			}
			if obs.StripANSI(col.Out) != plain.Out {
				c.Violation(name+"|colour-changes-content", "coloured output with escape sequences removed differs from --no-color output", doc("", tmpl, col, plain))
				continue
			}
			msg, amounts := "", 0
			if exactPool {
				// the sign of every amount is only known exactly on the exact pool
				msg, amounts = colourProblems(col.Out, len(tmpl) > 2 && tmpl[2] == "left-aligned" || tmpl[0] == "summary")
			}
			c.Count("coloured_amounts_checked", amounts)
			if msg != "" {
				c.Violation(name+"|wrong-colour", msg, doc("", tmpl, col, plain))
				continue
			}
			if strings.Contains(plain.Out, "\x1b") {
				c.Violation(name+"|escape-codes-with-no-color", "--no-color output contains escape sequences", doc("", tmpl, col, plain))
			}
			// (f) --no-color on the sub-command
			if tmpl[0] == "reg" {
				sub := runArgs(append([]string{tmpl[0], "--no-color"}, tmpl[1:]...)...)
				c.Count("flag_position_pairs", 1)
				if sub.Out != plain.Out || sub.Exit != plain.Exit {
					c.Violation(name+"|flag-position", "--no-color on the sub-command differs from the global flag", doc("", tmpl, sub, plain))
				}
			}
		}

		// (c) default == interleaving of --no-totals and --totals-only
		for _, tmpl := range [][]string{{"reg"}, {"reg", "--internal-template-name", "left-aligned"}} {
			def := runArgs(append([]string{"--no-color"}, tmpl...)...)
			nt := runArgs(append(append([]string{"--no-color"}, tmpl...), "--no-totals")...)
			to := runArgs(append(append([]string{"--no-color"}, tmpl...), "--totals-only")...)
			c.Count("interleaving_checks", 1)
			if def.Exit != 0 || nt.Exit != 0 || to.Exit != 0 {
				c.Violation("reg|fails-on-valid-input", "totals mode run fails", doc("", tmpl, nt, to))
				continue
			}
			dd, dn, dt := splitDays(def.Out), splitDays(nt.Out), splitDays(to.Out)
			bad := ""
			if len(dd) != len(dn) || len(dd) != len(dt) {
				bad = fmt.Sprintf("%d/%d/%d days in default/--no-totals/--totals-only", len(dd), len(dn), len(dt))
			} else {
				for k := range dd {
					want := append(append([]string{}, dn[k]...), dt[k][1:]...)
					if dn[k][0] != dt[k][0] || strings.Join(dd[k], "\n") != strings.Join(want, "\n") {
						bad = fmt.Sprintf("day %d: default block is not the --no-totals block followed by the --totals-only block", k)
						break
					}
				}
			}
			if bad != "" {
				c.Violation("reg|totals-modes-not-interleaving", bad, caseDoc{Files: files, Args: tmpl, Observed: map[string]any{"default": def.Out, "no-totals": nt.Out, "totals-only": to.Out}})
			}
		}

		// (b)(d) --shorten: same records and numbers, names shortened within the column
		{
			def := runArgs("--no-color", "reg")
			sh := runArgs("--no-color", "reg", "--shorten")
			c.Count("shorten_checks", 1)
			d1, e1 := obs.ParseReg(def.Out)
			d2, e2 := obs.ParseReg(sh.Out)
			bad := ""
			if e1 != nil || e2 != nil || len(d1) != len(d2) {
				bad = fmt.Sprint("unparsable or different day count: ", e1, e2)
			} else {
				for k := range d1 {
					a, b := d1[k], d2[k]
					if a.Date != b.Date || len(a.Foods) != len(b.Foods) || len(a.Totals) != len(b.Totals) {
						bad = fmt.Sprintf("day %d: different records with --shorten", k)
						break
					}
					for x := range a.Foods {
						if a.Foods[x].Raw != b.Foods[x].Raw || len(a.Foods[x].Ingredients) != len(b.Foods[x].Ingredients) {
							bad = fmt.Sprintf("day %d food %d: numbers change with --shorten", k, x)
						} else if m := shortenOK(a.Foods[x].Name, b.Foods[x].Name, 27); m != "" {
							bad = m
						}
						for y := range a.Foods[x].Ingredients {
							if bad == "" && a.Foods[x].Ingredients[y].Raw != b.Foods[x].Ingredients[y].Raw {
								bad = fmt.Sprintf("day %d food %d ingredient %d: number changes with --shorten", k, x, y)
							} else if m := shortenOK(a.Foods[x].Ingredients[y].Name, b.Foods[x].Ingredients[y].Name, 20); bad == "" && m != "" {
								bad = m
							}
						}
					}
					for x := range a.Totals {
						if a.Totals[x].Raw != b.Totals[x].Raw {
							bad = fmt.Sprintf("day %d total %d: numbers change with --shorten", k, x)
						} else if m := shortenOK(a.Totals[x].Name, b.Totals[x].Name, 20); bad == "" && m != "" {
							bad = m
						}
					}
					if bad != "" {
						break
					}
				}
			}
			if bad != "" {
				c.Violation("reg --shorten|layout-changes-content", bad, doc("", []string{"reg", "--shorten"}, sh, def))
			}
		}

		// (b) left-aligned template and old reporter: the same records with the same numbers
		{
			def := runArgs("--no-color", "reg")
			d0, e0 := obs.ParseReg(def.Out)
			for _, rr := range regRenderers[1:] {
				alt := runArgs(append([]string{"--no-color"}, rr.args...)...)
				c.Count("template_pairs", 1)
				d1, e1 := rr.parse(alt.Out)
				bad := ""
				if e0 != nil || e1 != nil || len(d0) != len(d1) {
					bad = fmt.Sprint("unparsable or different day count: ", e0, e1)
				} else {
					for k := range d0 {
						if regDayString(d0[k]) != regDayString(d1[k]) {
							bad = fmt.Sprintf("day %d: %s shows different records or numbers than the default template", k, rr.name)
							break
						}
					}
				}
				if bad != "" {
					c.Violation(rr.name+"|layout-changes-content", bad, doc("", rr.args, alt, def))
				}
			}
		}

		// (e) --desc
		x := w.Basics[r.Intn(len(w.Basics))]
		for _, cmd := range [][]string{{"report", "quantity"}, {"report", "element-total", x}} {
			asc := runArgs(append([]string{"--no-color"}, cmd...)...)
			descArgs := append([]string{"--no-color", cmd[0], cmd[1], "--desc"}, cmd[2:]...)
			desc := runArgs(descArgs...)
			c.Count("desc_pairs", 1)
			ra, e1 := obs.ParseValTabName(asc.Out)
			rd, e2 := obs.ParseValTabName(desc.Out)
			bad := ""
			if e1 != nil || e2 != nil || asc.Exit != 0 || desc.Exit != 0 {
				bad = fmt.Sprint("fails or unparsable: ", e1, e2)
			} else {
				key := func(rows []obs.NameVal) []string {
					var ks []string
					for _, r := range rows {
						ks = append(ks, r.Raw+"\t"+r.Name)
					}
					sort.Strings(ks)
					return ks
				}
				if strings.Join(key(ra), "\n") != strings.Join(key(rd), "\n") {
					bad = "--desc shows a different set of rows"
				}
				for k := 1; k < len(rd); k++ {
					if rd[k].V.Cmp(rd[k-1].V) > 0 {
						bad = fmt.Sprintf("--desc rows not in non-increasing order at row %d", k)
					}
				}
				for k := 1; k < len(ra); k++ {
					if ra[k].V.Cmp(ra[k-1].V) < 0 {
						bad = fmt.Sprintf("rows not in non-decreasing order at row %d", k)
					}
				}
			}
			if bad != "" {
				c.Violation(strings.Join(cmd[:2], " ")+"|desc", bad, doc("", descArgs, desc, asc))
			}
		}
		// (g) the collapse modes of the balance change the layout only: every row they print is a row of the
		// plain tree (same full path, same printed amount) and the grand total of -s is the same. The exact
		// shape of the collapsed tree is C03's business. A name that is an entry and a category at once makes
		// the interesting case (added to a third of the inputs).
		for _, sel := range [][]string{nil, {"-s", x}} {
			plain := runArgs(append([]string{"--no-color", "bal"}, sel...)...)
			pb, e0 := obs.ParseBal(plain.Out)
			if e0 != nil || plain.Exit != 0 {
				continue
			}
			ppaths, _, e1 := obs.BalPaths(pb.Rows)
			pm := map[string]string{}
			unique := e1 == nil
			for k, pth := range ppaths {
				if _, dup := pm[pth]; dup {
					unique = false
				}
				pm[pth] = pb.Rows[k].Raw
			}
			if !unique {
				c.Count("collapse_relation_skipped_ambiguous_paths", 1)
				continue
			}
			for _, mode := range []string{"-c", "--collapse-last"} {
				margs := append(append([]string{"--no-color", "bal"}, sel...), mode)
				alt := runArgs(margs...)
				c.Count("collapse_pairs", 1)
				ab, e2 := obs.ParseBal(alt.Out)
				bad := ""
				if e2 != nil || alt.Exit != 0 {
					bad = fmt.Sprint("fails or unparsable: ", e2, " exit ", alt.Exit)
				} else if apaths, _, e3 := obs.BalPaths(ab.Rows); e3 != nil {
					bad = e3.Error()
				} else {
					// a row that joins several segments stands for the sub-tree below the first of them: it carries
					// that node's amount (otherwise what is logged on the category itself would vanish from the sums)
					var stack []string
					for k, pth := range apaths {
						row := ab.Rows[k]
						stack = stack[:row.Level]
						head := strings.SplitN(row.Label, "/", 2)[0]
						if row.Level > 0 {
							head = stack[row.Level-1] + "/" + head
						}
						stack = append(stack, pth)
						if _, ok := pm[pth]; !ok {
							bad = fmt.Sprintf("row %q is not a node of the plain tree", pth)
						} else if raw := pm[head]; raw != row.Raw {
							bad = fmt.Sprintf("row %q shows %s, the plain tree shows %s for %q", pth, row.Raw, raw, head)
						}
					}
					if ab.HasGrand != pb.HasGrand || ab.GrandRaw != pb.GrandRaw {
						bad = fmt.Sprintf("grand total %q, the plain tree shows %q", ab.GrandRaw, pb.GrandRaw)
					}
				}
				if bad != "" {
					c.Violation("bal "+mode+"|layout-changes-content", bad, doc("", margs, alt, plain))
				}
			}
		}
		if i < 2 {
			c.Sample(map[string]any{"food.yaml": clip(w.BookText, 400), "log.yaml": clip(w.LogText, 400), "checks": "colour x6, flag position, interleaving x2, shorten, desc x2"})
		}
	})
	// the grand total of bal -s under the collapse modes, where the order of the additions matters at two decimals
	// (round 12, K15: the footer re-summed from the top rows of the tree): categories that take turns in the log with
	// amounts that cancel across a small one
	if !c.InChild() && c.HR != "" {
		dir := c.Work + "/collapse-footer"
		for bi, big := range []string{"10000000000000000", "9007199254740992", "100000000000000000", "4503599627370496.5"} {
			for si, small := range []string{"1", "0.5", "3"} {
				for oi, order := range [][]string{{"a/x", "b/y", "a/x"}, {"b/y", "a/x", "c", "a/x"}, {"a/x", "b/y", "b/z", "a/x", "b/y"}} {
					var sb strings.Builder
					nbig := 0
					for k, food := range order {
						amount := small
						if food == "a/x" {
							amount = []string{big, "-" + big}[nbig%2]
							nbig++
						}
						fmt.Fprintf(&sb, "2021/01/%02d:\n  %s: %s\n", k+1, food, amount)
					}
					files := map[string]string{"food.yaml": "a/x:\n  kcal: 1\nb/y:\n  kcal: 1\nb/z:\n  kcal: 1\nc:\n  kcal: 1\n", "log.yaml": sb.String()}
					run.WriteFiles(dir, files)
					pre := []string{"--no-color", "-d", "food.yaml", "-l", "log.yaml", "bal", "-s", "kcal"}
					plain := run.Exec(c.HR, pre, run.ExecOpts{Dir: dir})
					pb, e0 := obs.ParseBal(plain.Out)
					c.Eval(1)
					if e0 != nil || plain.Exit != 0 || !pb.HasGrand {
						continue
					}
					for _, mode := range []string{"-c", "--collapse-last"} {
						margs := append(append([]string{}, pre...), mode)
						alt := run.Exec(c.HR, margs, run.ExecOpts{Dir: dir})
						ab, e2 := obs.ParseBal(alt.Out)
						c.Eval(1)
						c.Count("collapse_footer_cases_with_cancelling_amounts", 1)
						c.Nontrivial("collapse-footer", fmt.Sprint(bi, si, oi), mode)
						if e2 != nil || alt.Exit != 0 || ab.HasGrand != pb.HasGrand || ab.GrandRaw != pb.GrandRaw {
							c.Violation("bal "+mode+"|layout-changes-content", fmt.Sprintf("grand total %q (exit %d), the plain tree shows %q", ab.GrandRaw, alt.Exit, pb.GrandRaw),
								caseDoc{Files: files, Args: margs, Expected: resDoc(plain), Observed: resDoc(alt)})
						}
					}
				}
			}
		}
	}
	// a report while another report - other files, other options - is alive in the same process
	nestedReports(c, pool, c.N(120, 1500), nestedRegShape)
	jobs, deaths := pool.Stats()
	c.Count("l2_jobs", jobs)
	c.Count("l2_process_deaths", deaths)
	c.Count("l2_priming_runs", pool.Primed())
	_ = big.NewRat
}
