// Package checks: one monitor per property.
package checks

import (
	"verif/harness/core"
)

// Check is a registered property monitor.
type Check struct {
	ID    string
	Level string
	Run   func(c *core.Ctx)
	// Replay re-runs one recorded violating case and prints what it observes.
	Replay func(c *core.Ctx, raw []byte) error
}

var Registry = map[string]*Check{}

func register(ch *Check) { Registry[ch.ID] = ch }
