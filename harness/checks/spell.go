package checks

import (
	"math/rand"
	"strings"
)

// respell rewrites an argv into an equivalent spelling: command aliases (reg/register,
// bal/balance), short and long flag names, "--flag value" and "--flag=value". The program's
// documentation treats these as the same invocation; the monitors vary them so that a change
// that only honours one spelling does not go unnoticed.
var globalLong = map[string]string{"-b": "--begin", "-e": "--end", "-d": "--database", "-l": "--logfile", "-c": "--config"}
var subLong = map[string]map[string]string{
	"reg":  {"-b": "--begin", "-e": "--end", "-f": "--single-food", "-s": "--single-element", "-g": "--group-food"},
	"bal":  {"-b": "--begin", "-e": "--end", "-c": "--collapse", "-s": "--single-element"},
	"lint": {"-s": "--silent"},
}
var takesValue = map[string]bool{"-b": true, "-e": true, "-d": true, "-l": true, "-c": true, "--begin": true, "--end": true, "--database": true, "--logfile": true, "--config": true,
	"--today": true, "--date-format": true, "--maxdepth": true, "-f": true, "-s": true, "--single-food": true, "--single-element": true, "--internal-template-name": true}
var commandWords = map[string]string{"reg": "reg", "register": "reg", "bal": "bal", "balance": "bal", "lint": "lint", "report": "report", "csv": "csv", "stats": "stats", "summary": "summary", "print": "print", "gen": "gen"}

func respell(r *rand.Rand, args []string) []string {
	out := make([]string, 0, len(args)+2)
	cmd := ""
	for i := 0; i < len(args); i++ {
		a := args[i]
		if cmd == "" {
			if w, ok := commandWords[a]; ok {
				cmd = w
				switch {
				case w == "reg" && r.Intn(2) == 0:
					a = "register"
				case w == "bal" && r.Intn(2) == 0:
					a = "balance"
				}
				out = append(out, a)
				continue
			}
		}
		name := a
		table := globalLong
		if cmd != "" {
			table = subLong[cmd]
		}
		if long, ok := table[a]; ok && r.Intn(2) == 0 {
			name = long
		}
		// value-taking flags: for bal and lint "-s"/"-c" may be boolean; use the per-command knowledge
		hasValue := takesValue[a]
		if cmd == "bal" && a == "-c" {
			hasValue = false
		}
		if cmd == "lint" && a == "-s" {
			hasValue = false
		}
		if cmd == "" && a == "-c" {
			hasValue = true
		}
		if hasValue && i+1 < len(args) {
			v := args[i+1]
			i++
			if strings.HasPrefix(name, "--") && r.Intn(3) == 0 {
				out = append(out, name+"="+v)
			} else {
				out = append(out, name, v)
			}
			continue
		}
		out = append(out, name)
	}
	return out
}
