package checks

import (
	"fmt"
	"math/rand"
	"sort"
	"strings"

	"verif/harness/core"
	"verif/harness/gen"
	"verif/harness/run"
)

func init() {
	register(&Check{ID: "C05", Level: "exploration", Run: runC05})
}

// c05World: inputs built to expose map iteration order — ties in every
// value-sorted report, several unresolved foods, many elements and siblings,
// chains around the depth limit in shuffled declaration order.
func c05World(r *rand.Rand) (files map[string]string, element, food string, depthArgs []string) {
	nrec := 3 + r.Intn(12) // often > 8 recipes
	names := gen.Names(r, nrec+8, gen.NameOpts{Slash: true, MaxLen: 6})
	recipes, basics, unknown := names[:nrec], names[nrec:nrec+4], names[nrec+4:]
	if r.Intn(3) == 0 {
		// pairs of different names that a "natural", case-folding or normalising comparison takes for equal (digit
		// runs that differ by leading zeros, letter case, doubled blanks, composed and decomposed accents): whatever
		// order a report gives them, it is the same order every time
		twins := [][2]string{{"vitamin B2", "vitamin B02"}, {"omega3", "omega03"}, {"Zinc", "zinc"}, {"a  b", "a b"}, {"caf\u00e9", "cafe\u0301"}, {"x-1", "x-01"}, {"E100", "E0100"}, {"fat ", "fat"}}
		p, q := twins[r.Intn(len(twins))], twins[r.Intn(len(twins))]
		p[0], p[1], q[0], q[1] = strings.TrimSpace(p[0]), strings.TrimSpace(p[1]), strings.TrimSpace(q[0]), strings.TrimSpace(q[1])
		if p[0] != p[1] && q[0] != q[1] && p != q {
			basics[1], basics[2] = p[0], p[1]
			unknown[0], unknown[1] = q[0]+"/u", q[1]+"/u"
		}
	}
	vals := []string{"1", "2", "1", "0.5"}
	if r.Intn(6) == 0 {
		// not-a-number and infinities are accepted by the parser: reports must still be deterministic
		vals = []string{"nan", "1", "2", "inf", "-inf", "0", "3", "1", "NaN", "2"}
	} else if r.Intn(2) == 0 {
		// values whose sums depend on the order of the additions (float addition is not associative)
		vals = []string{"0.1", "1", "-1.1", "0.2", "0.3", "-0.3", "0.001", "0.006", "0.008", "1e16", "-1e16", "1", "0.7", "-0.7"}
	}
	var book gen.Book
	chainOnly := r.Intn(4) == 0 // the book is nothing but the chain: exactly `length` recipes
	for _, rn := range recipes {
		if chainOnly {
			break
		}
		rec := gen.Recipe{Name: rn}
		for _, b := range basics {
			if r.Intn(3) > 0 {
				rec.Ents = append(rec.Ents, gen.Ent{Name: b, Val: c05Val(vals[r.Intn(len(vals))])})
			}
		}
		book = append(book, rec)
	}
	// a chain of references around a limit N, declared in shuffled order
	n := 2 + r.Intn(5)
	if chainOnlyLong := r.Intn(12) == 0; chainOnlyLong {
		n = 60 + r.Intn(60) // long chains under a large limit
	}
	length := n - 1 + r.Intn(3)
	for i := 1; i <= length; i++ {
		next := fmt.Sprintf("ch%d", i+1)
		if i == length {
			next = basics[0]
		}
		book = append(book, gen.Recipe{Name: fmt.Sprintf("ch%d", i), Ents: []gen.Ent{{Name: next, Val: gen.N("1")}}})
	}
	shared := !chainOnly && r.Intn(2) == 0
	if shared {
		// a sub-recipe shared by several recipes, one of which lists it first with a quantity of exactly 1 and
		// then contributes to elements the sub-recipe already has: whatever a resolver does in place to a list
		// it took over from the sub-recipe shows in the others depending on the visiting order
		book = append(book,
			gen.Recipe{Name: "sh/base", Ents: []gen.Ent{{Name: basics[0], Val: gen.N("100")}, {Name: basics[1], Val: gen.N("10")}, {Name: basics[2], Val: gen.N("3")}}},
			gen.Recipe{Name: "sh/first", Ents: []gen.Ent{{Name: "sh/base", Val: gen.N("1")}, {Name: basics[0], Val: gen.N("50")}, {Name: basics[3], Val: gen.N("7")}, {Name: basics[1], Val: gen.N("2")}}},
			gen.Recipe{Name: "sh/twice", Ents: []gen.Ent{{Name: "sh/base", Val: gen.N("2")}}},
			gen.Recipe{Name: "sh/thrice", Ents: []gen.Ent{{Name: basics[3], Val: gen.N("1")}, {Name: "sh/base", Val: gen.N("3")}}},
			gen.Recipe{Name: "sh/also", Ents: []gen.Ent{{Name: "sh/base", Val: gen.N("1.0")}, {Name: "sh/twice", Val: gen.N("1")}}},
			// three levels of decimal amounts whose product sits on a rounding tie: (a*b)*c and a*(b*c) print differently
			gen.Recipe{Name: "sh/l1", Ents: []gen.Ent{{Name: "sh/l2", Val: gen.N("27.5")}}},
			gen.Recipe{Name: "sh/l2", Ents: []gen.Ent{{Name: "sh/l3", Val: gen.N("0.7")}}},
			gen.Recipe{Name: "sh/l3", Ents: []gen.Ent{{Name: basics[0], Val: gen.N("0.1")}, {Name: basics[1], Val: gen.N("0.9")}}},
			gen.Recipe{Name: "sh/m1", Ents: []gen.Ent{{Name: "sh/m2", Val: gen.N("12.5")}, {Name: "sh/l2", Val: gen.N("11.5")}}},
			gen.Recipe{Name: "sh/m2", Ents: []gen.Ent{{Name: "sh/l3", Val: gen.N("0.1")}}})
	}
	r.Shuffle(len(book), func(a, b int) { book[a], book[b] = book[b], book[a] })
	var log gen.Log
	d := gen.Date{Y: 2021, M: 3, D: 1}
	for i := 0; i < 2+r.Intn(4); i++ {
		day := gen.Day{Date: d.AddDays(i)}
		pool := append(append(append([]string{}, recipes...), unknown...), basics...)
		if chainOnly {
			pool = append(append([]string{}, unknown...), basics...)
		}
		pool = append(pool, "ch1", "ch2")
		if shared {
			pool = append(pool, "sh/twice", "sh/thrice", "sh/first", "sh/base", "sh/also", "sh/l1", "sh/m1", "sh/l1", "sh/m1")
		}
		for j := 0; j < 3+r.Intn(8); j++ {
			day.Ents = append(day.Ents, gen.Ent{Name: pool[r.Intn(len(pool))], Val: c05Val(vals[r.Intn(len(vals))])})
		}
		// all unknown foods at least once: >= 3 unresolved names
		if i == 0 {
			for _, u := range unknown {
				day.Ents = append(day.Ents, gen.Ent{Name: u, Val: gen.N("1")})
			}
		}
		log = append(log, day)
	}
	if r.Intn(3) == 0 && len(log) > 0 {
		// two names that --shorten maps to the same label, with different amounts, on one day
		pre, suf := gen.Name(r, gen.NameOpts{MinLen: 14, MaxLen: 14}), gen.Name(r, gen.NameOpts{MinLen: 14, MaxLen: 14})
		log[0].Ents = append(log[0].Ents, gen.Ent{Name: pre + "/lettuce/" + suf, Val: gen.N("3")}, gen.Ent{Name: pre + "/cheddar/" + suf, Val: gen.N("5")}, gen.Ent{Name: pre + "/parsley/" + suf, Val: gen.N("7")})
	}
	files = map[string]string{"food.yaml": gen.RenderBook(book, nil), "log.yaml": gen.RenderLog(log, "2006/01/02", nil)}
	return files, basics[r.Intn(len(basics))], recipes[0][:1], []string{"--maxdepth", fmt.Sprint(n)}
}

func c05Commands(element, food string) [][]string {
	return [][]string{
		{"reg"}, {"reg", "--use-old-reg-reporter"}, {"reg", "--internal-template-name", "left-aligned"},
		{"reg", "-s", element}, {"reg", "-s", element, "-g"}, {"reg", "-f", food}, {"reg", "--totals-only"}, {"reg", "--no-totals"}, {"reg", "--shorten"},
		{"reg", "-s", element, "--csv"},
		{"bal"}, {"bal", "-c"}, {"bal", "--collapse-last"}, {"bal", "-s", element}, {"bal", "-s", element, "-c"},
		{"report", "totals"}, {"report", "quantity"}, {"report", "quantity", "--desc"}, {"report", "unresolved"},
		{"report", "element-total", element}, {"report", "element-total", "--desc", element},
		{"csv", "log"}, {"csv", "database"}, {"csv", "database-resolved"},
		{"stats"}, {"summary", "2021/03/01"}, {"print"}, {"lint", "food.yaml"}, {"lint", "log.yaml"},
		{"gen", "man"}, {"gen", "markdown"},
	}
}

func runC05(c *core.Ctx) {
	c.SetRule("cases: inputs built to expose map order (ties in quantities and element amounts, in half of the inputs decimal values whose floating-point sum depends on the order of the additions, >= 3 unresolved foods, up to 14 recipes, many elements/siblings, a reference chain of N-1..N+1 links with --maxdepth N declared in shuffled order, in a quarter of the inputs as the only content of the book) x 31 command shapes (every command and sub-command), with and without the depth flag; each case repeated R1 times in one process (fresh map seeds per run) and in R2 fresh processes (thorough: also the go1.26.8 build, swiss-table maps). Oracle: all repetitions byte-identical in stdout, exit status and error text. Non-trivial = case whose report has >= 2 rows; distinct = hash(files, argv).")
	c.Assume("iteration order is sampled, not enumerated: with 3 tied keys one repetition repeats the first order with probability <= 6/8, so 40 repetitions miss a dependence with probability < 1e-5 per input")
	pool := newPool(c, c.Procs)
	if pool == nil {
		return
	}
	defer pool.Close()
	var altPool *run.Pool
	if c.HRAlt != "" {
		if p, err := run.NewPool(c.HRAlt, c.Work+"/alt", c.Procs); err == nil {
			altPool = p
			defer altPool.Close()
		}
	} else if !c.Quick() {
		c.Inconclusive("go1.26.8-build", "second toolchain build not available")
	}
	n := c.N(100, 800)
	reps := c.N(40, 150)
	fresh := c.N(4, 12)
	core.ParallelFor(n, c.Procs, func(wk, i int) {
		srv := pool.Servers[wk]
		r := c.Rng("world", i)
		layout := "2006/01/02"
		files, element, food, depthArgs := c05World(r)
		if i%3 == 2 {
			// every third input is a general world (nested recipes with sharing, quantities of exactly 1,
			// repeated ingredients, redeclared headings, many elements): visiting-order effects need not
			// come from ties
			// in one of three date layouts: the job server then sees runs under different layouts one after the other,
			// and what an earlier run left behind in the process must not show in a later one
			wl := []string{"2006/01/02", "02.01.2006", "2006-01-02"}[(i/3)%3]
			w := newWorld(r, worldOpts{Exact: i%2 == 0, MinDays: 1, Notes: true, NoBig: true, Layout: wl})
			files, element, food, depthArgs = w.Files(), w.Basics[r.Intn(len(w.Basics))], string([]rune(w.Recipes[0])[:1]), nil
			layout = wl
			c.Count("general_worlds", 1)
		}
		if i%10 == 7 {
			// both files malformed (at about the same place): which error is reported must not vary either
			files = map[string]string{"food.yaml": files["food.yaml"], "log.yaml": files["log.yaml"]}
			for _, f := range []string{"food.yaml", "log.yaml"} {
				lines := strings.SplitAfter(files[f], "\n")
				at := min(len(lines), 1+r.Intn(3))
				files[f] = strings.Join(lines[:at], "") + "  broken line " + f + "\n" + strings.Join(lines[at:], "")
			}
			c.Count("worlds_with_both_files_malformed", 1)
		}
		srv.Write(files)
		if altPool != nil {
			altPool.Servers[wk].Write(files)
		}
		cmds := c05Commands(element, food)
		// plus command shapes drawn from the catalogue: flag combinations nobody listed by hand
		// (two presentation flags that touch the same setting, a selector next to a renderer, ...)
		for k := 0; k < 6; k++ {
			cmds = append(cmds, randomCmd(r, element, food, "2021/03/01").Args)
		}
		for ci, cmd := range cmds {
			if layout != "2006/01/02" {
				cmd = append([]string{}, cmd...)
				for k := range cmd {
					if cmd[k] == "2021/03/01" {
						cmd[k] = gen.Date{Y: 2021, M: 3, D: 1}.Format(layout)
					}
				}
			}
			global := []string{"--no-color", "-d", "food.yaml", "-l", "log.yaml", "--today", gen.Date{Y: 2021, M: 3, D: 10}.Format(layout)}
			if layout != "2006/01/02" {
				global = append(global, "--date-format", layout)
			}
			if (i+ci)%2 == 0 {
				global = append(global, depthArgs...)
			}
			if (i+ci)%9 == 4 {
				// period bounds typed in a layout other than the one in effect (pasted from a spreadsheet, day and month
				// in either order): accepted or refused, read one way or the other - the same way every time
				other := []string{"03/04/2021", "2021-03-05", "04.03.2021", "05/06/2021", "3/4/21", "2021.03.04", "01/02/03", "12-11-2021"}
				global = append(global, "-b", other[r.Intn(len(other))])
				if r.Intn(2) == 0 {
					global = append(global, "-e", other[r.Intn(len(other))])
				}
				c.Count("cases_with_bounds_in_another_layout", 1)
			}
			args := append(global, cmd...)
			sig := strings.Join(cmd[:min(2, len(cmd))], " ")
			if cmd[0] == "summary" || cmd[0] == "lint" {
				sig = cmd[0]
			}
			// gen reads the command tree, which the CLI library extends through a package-level
			// help command on every run: it is only faithful in a fresh process
			l1only := cmd[0] == "gen"
			var variants []run.Result
			if !l1only {
				variants = srv.App(args, nil, reps)
				c.Eval(reps)
				c.Count("inprocess_repetitions", reps)
			} else {
				variants = []run.Result{run.Exec(c.HR, args, run.ExecOpts{Dir: srv.Dir})}
				c.Eval(1)
			}
			outcomes := map[string]int{}
			key := func(r run.Result) string {
				return fmt.Sprintf("exit=%d\nerr=%s\n%s", btoi(r.Exit != 0), strings.TrimSpace(r.ErrText()), r.Out)
			}
			crashed := false
			for _, v := range variants {
				outcomes[key(v)] += v.Count
				if v.Panic != "" {
					crashed = true
				}
			}
			if crashed {
				c.Count("crashing_cases", 1)
				c.Violation(sig+"|crash", clip(variants[0].Panic, 400), caseDoc{Files: files, Args: args, Observed: resDoc(variants[0])})
				continue
			}
			// fresh processes (fresh hash seed each)
			nf := fresh
			if ci%3 != i%3 && c.Quick() {
				nf = 1
			}
			for k := 0; k < nf; k++ {
				res := run.Exec(c.HR, args, run.ExecOpts{Dir: srv.Dir})
				c.Eval(1)
				if res.TimedOut || strings.Contains(res.Serr, "verif: exec:") {
					// the watchdog (30 s, then 120 s) expired or the process could not be started: not an outcome of the program
					c.Inconclusive("fresh-processes", "watchdog expired on "+joinArgs(args))
					continue
				}
				c.Count("fresh_process_runs", 1)
				outcomes[key(res)]++
			}
			if altPool != nil && !l1only {
				for _, v := range altPool.Servers[wk].App(args, nil, reps/2) {
					outcomes[key(v)] += v.Count
				}
				c.Eval(reps / 2)
				c.Count("go126_repetitions", reps/2)
			}
			c.Max("max_distinct_outputs_per_input", len(outcomes))
			c.Count("cases", 1)
			first := variants[0]
			if strings.Count(first.Out, "\n") >= 2 {
				c.Nontrivial(files["food.yaml"], files["log.yaml"], joinArgs(args))
			}
			if len(outcomes) > 1 {
				var ks []string
				for k, cnt := range outcomes {
					ks = append(ks, fmt.Sprintf("[%d runs] %s", cnt, clip(k, 700)))
				}
				class := "output-varies"
				exits := map[string]bool{}
				for k := range outcomes {
					exits[k[:6]] = true
				}
				if len(exits) > 1 {
					class = "success-varies"
				}
				c.Violation(sig+"|"+class, fmt.Sprintf("%d different outcomes for identical inputs: %s", len(outcomes), joinArgs(cmd)),
					caseDoc{Files: files, Args: args, Observed: ks})
			}
			if i == 0 && ci < 3 {
				c.Sample(map[string]any{"args": joinArgs(args), "food.yaml": clip(files["food.yaml"], 500), "log.yaml": clip(files["log.yaml"], 400), "repetitions": reps, "fresh_processes": nf, "distinct_outcomes": len(outcomes)})
			}
		}
	})
	// period bounds typed day-first or month-first in a layout other than the one in effect, against a log whose days
	// make the two readings select different days: refused, or read one way - the same way every time
	{
		srv := pool.Servers[0]
		files := map[string]string{"food.yaml": "a/b:\n  x: 1\n", "log.yaml": "2021/03/04:\n  a/b: 1\n2021/03/20:\n  a/b: 2\n2021/04/03:\n  a/b: 3\n2021/05/06:\n  a/b: 4\n2021/06/05:\n  a/b: 5\n2021/11/12:\n  a/b: 6\n2021/12/11:\n  a/b: 7\n"}
		srv.Write(files)
		for _, cmd := range [][]string{{"reg"}, {"bal"}, {"csv", "log"}, {"print"}, {"report", "totals"}, {"reg", "-s", "x"}} {
			for _, period := range [][]string{{"-b", "03/04/2021"}, {"-e", "05/06/2021"}, {"-b", "04/03/2021", "-e", "11/12/2021"}, {"-b", "2021-04-03"}, {"-e", "12.11.2021"}, {"-b", "3/4/21"}} {
				args := append(append([]string{"--no-color", "-d", "food.yaml", "-l", "log.yaml"}, period...), cmd...)
				outcomes := map[string]int{}
				for _, v := range srv.App(args, nil, 24) {
					outcomes[fmt.Sprintf("exit=%d\nerr=%s\n%s", btoi(v.Exit != 0), strings.TrimSpace(v.ErrText()), v.Out)] += v.Count
				}
				for k := 0; k < 4; k++ {
					v := run.Exec(c.HR, args, run.ExecOpts{Dir: srv.Dir})
					outcomes[fmt.Sprintf("exit=%d\nerr=%s\n%s", btoi(v.Exit != 0), strings.TrimSpace(v.ErrText()), v.Out)]++
				}
				c.Eval(28)
				c.Count("cases_with_ambiguous_bounds_on_a_log_that_tells_them_apart", 1)
				if len(outcomes) > 1 {
					var ks []string
					for k, cnt := range outcomes {
						ks = append(ks, fmt.Sprintf("[%d runs] %s", cnt, clip(k, 500)))
					}
					sort.Strings(ks)
					c.Violation(strings.Join(cmd[:min(2, len(cmd))], " ")+"|output-varies", fmt.Sprintf("%d different outcomes for identical inputs: %s %s", len(outcomes), joinArgs(period), joinArgs(cmd)), caseDoc{Files: files, Args: args, Observed: ks})
				}
			}
		}
	}
	// a book with several independent faults (two recipes that use themselves, a cycle next to an over-long chain):
	// which fault is reported, and in which words, is the same on every run
	{
		srv := pool.Servers[0]
		books := []string{
			"bread:\n  bread: 1\n  x: 1\nsoup:\n  soup: 2\n  y: 1\nok:\n  x: 1\n",
			"a:\n  a: 1\nc1:\n  c2: 1\nc2:\n  c3: 1\nc3:\n  c4: 1\nc4:\n  x: 1\nb:\n  b: 1\n",
			"p:\n  q: 1\nq:\n  p: 1\nr:\n  r: 1\ns:\n  t: 1\nt:\n  s: 1\n",
		}
		for bi, book := range books {
			files := map[string]string{"food.yaml": book, "log.yaml": "2021/01/01:\n  ok: 1\n  a: 1\n  p: 1\n"}
			srv.Write(files)
			for _, cmd := range [][]string{{"reg"}, {"bal", "-s", "x"}, {"csv", "database-resolved"}, {"report", "totals"}, {"--maxdepth", "3", "reg"}, {"--maxdepth", "1", "summary", "2021/01/01"}} {
				args := append([]string{"--no-color", "-d", "food.yaml", "-l", "log.yaml"}, cmd...)
				outcomes := map[string]int{}
				for _, v := range srv.App(args, nil, 60) {
					outcomes[fmt.Sprintf("exit=%d\nerr=%s\n%s", btoi(v.Exit != 0), strings.TrimSpace(v.ErrText()), v.Out)] += v.Count
				}
				for k := 0; k < 6; k++ {
					v := run.Exec(c.HR, args, run.ExecOpts{Dir: srv.Dir})
					outcomes[fmt.Sprintf("exit=%d\nerr=%s\n%s", btoi(v.Exit != 0), strings.TrimSpace(v.ErrText()), v.Out)]++
				}
				c.Eval(66)
				c.Count("cases_with_several_independent_faults", 1)
				if len(outcomes) > 1 {
					var ks []string
					for k, cnt := range outcomes {
						ks = append(ks, fmt.Sprintf("[%d runs] %s", cnt, clip(k, 500)))
					}
					sort.Strings(ks)
					c.Violation(strings.Join(cmd[len(cmd)-min(2, len(cmd)):], " ")+"|output-varies", fmt.Sprintf("%d different outcomes for identical inputs (book %d with several faulty recipes): %s", len(outcomes), bi, joinArgs(cmd)), caseDoc{Files: files, Args: args, Observed: ks})
				}
			}
		}
	}
	// the current date is an input like any other when it is given: the first instant of the calendar (the zero value
	// of the time type) under a layout that shows fractions of a second - whatever replaced it would show
	{
		srv := pool.Servers[0]
		layout := "2006/01/02 15:04:05.000000"
		files := map[string]string{"food.yaml": "a/b:\n  x: 1\n", "log.yaml": "0001/01/01 00:00:00.000000:\n  a/b: 1\n2021/03/04 10:00:00.250000:\n  a/b: 2\n"}
		srv.Write(files)
		for _, cmd := range [][]string{{"stats"}, {"reg", "-e", "today"}, {"reg", "-b", "today"}, {"summary", "today"}, {"bal", "-b", "yesterday"}, {"print", "-b", "last7"}} {
			for _, today := range []string{"0001/01/01 00:00:00.000000", "0001/01/01 00:00:00.000001"} {
				args := append([]string{"--no-color", "-d", "food.yaml", "-l", "log.yaml", "--date-format", layout, "--today", today}, cmd...)
				outcomes := map[string]int{}
				for _, v := range srv.App(args, nil, 20) {
					outcomes[fmt.Sprintf("exit=%d\nerr=%s\n%s", btoi(v.Exit != 0), strings.TrimSpace(v.ErrText()), v.Out)] += v.Count
				}
				for k := 0; k < 3; k++ {
					v := run.Exec(c.HR, args, run.ExecOpts{Dir: srv.Dir})
					outcomes[fmt.Sprintf("exit=%d\nerr=%s\n%s", btoi(v.Exit != 0), strings.TrimSpace(v.ErrText()), v.Out)]++
				}
				c.Eval(23)
				c.Count("cases_with_the_first_instant_as_today", 1)
				if len(outcomes) > 1 {
					var ks []string
					for k, cnt := range outcomes {
						ks = append(ks, fmt.Sprintf("[%d runs] %s", cnt, clip(k, 500)))
					}
					sort.Strings(ks)
					c.Violation(strings.Join(cmd[:min(2, len(cmd))], " ")+"|output-varies", fmt.Sprintf("%d different outcomes for identical inputs under --today %s: %s", len(outcomes), today, joinArgs(cmd)), caseDoc{Files: files, Args: args, Observed: ks})
				}
			}
		}
	}
	// rows whose amounts are nearly equal in a chain (each neighbour closer than what two decimals show, the ends not),
	// the names running the other way (round 13, L05: one unstable sort over the map's order with a comparator that
	// takes amounts that print alike for equal - not transitive, so the order depends on where the sort starts)
	{
		srv := pool.Servers[0]
		for ci, steps := range [][]string{{"1.000", "1.004", "1.008"}, {"2.000", "2.003", "2.006", "2.009", "2.012"}, {"0.996", "1.000", "1.004", "1.008", "1.012", "1.016", "1.020"}, {"5", "5.0049", "5.0098", "5.0147"}, {"-1.008", "-1.004", "-1.000"}, {"1", "1", "1.004", "1.004", "1.008"}} {
			var lg, bk strings.Builder
			lg.WriteString("2021/01/01:\n")
			for k, amount := range steps {
				name := string(rune('z' - k))
				fmt.Fprintf(&lg, "  %s%s: %s\n", name, name, amount)
				fmt.Fprintf(&bk, "%s%s:\n  el%s: 1\n  kcal: 1\n", name, name, name)
			}
			files := map[string]string{"food.yaml": bk.String(), "empty.yaml": "", "log.yaml": lg.String()}
			srv.Write(files)
			for _, cmd := range [][]string{{"-d", "empty.yaml", "report", "quantity"}, {"-d", "empty.yaml", "report", "quantity", "--desc"}, {"-d", "food.yaml", "report", "totals"}, {"-d", "food.yaml", "report", "quantity"},
				{"-d", "empty.yaml", "report", "unresolved"}, {"-d", "empty.yaml", "report", "totals"}, {"-d", "empty.yaml", "bal"}, {"-d", "food.yaml", "reg", "--totals-only"}} {
				args := append([]string{"--no-color", "-l", "log.yaml"}, cmd...)
				outcomes := map[string]int{}
				for _, v := range srv.App(args, nil, 40) {
					outcomes[fmt.Sprintf("exit=%d\nerr=%s\n%s", btoi(v.Exit != 0), strings.TrimSpace(v.ErrText()), v.Out)] += v.Count
				}
				for k := 0; k < 4; k++ {
					v := run.Exec(c.HR, args, run.ExecOpts{Dir: srv.Dir})
					outcomes[fmt.Sprintf("exit=%d\nerr=%s\n%s", btoi(v.Exit != 0), strings.TrimSpace(v.ErrText()), v.Out)]++
				}
				c.Eval(44)
				c.Count("cases_with_a_chain_of_nearly_equal_amounts", 1)
				c.Nontrivial("near-equal-chain", fmt.Sprint(ci), joinArgs(cmd))
				if len(outcomes) > 1 {
					var ks []string
					for k, cnt := range outcomes {
						ks = append(ks, fmt.Sprintf("[%d runs] %s", cnt, clip(k, 500)))
					}
					sort.Strings(ks)
					c.Violation(strings.Join(cmd[2:min(4, len(cmd))], " ")+"|output-varies", fmt.Sprintf("%d different outcomes for identical inputs (amounts %v, names in the opposite order): %s", len(outcomes), steps, joinArgs(cmd)), caseDoc{Files: files, Args: args, Observed: ks})
				}
			}
		}
	}
	// a report while another report - other files, other options - is alive in the same process
	nestedReports(c, pool, c.N(200, 2500), nestedAnyShape)
	// and requests served one after the other by one application value
	reusedApp(c, pool, c.N(150, 2000), nestedAnyShape)
	// and reports produced side by side in goroutines of one process, under the race detector
	parallelReports(c, c.N(60, 800), nestedAnyShape)
	jobs, deaths := pool.Stats()
	c.Count("l2_jobs", jobs)
	c.Count("l2_process_deaths", deaths)
	c.Count("l2_priming_runs", pool.Primed())
}

func btoi(b bool) int {
	if b {
		return 1
	}
	return 0
}
