package checks

import (
	"fmt"
	"math/big"
	"math/rand"
	"strings"

	"verif/harness/gen"
	"verif/harness/model"
	"verif/harness/obs"
)

// World is a generated (book, log) pair with its ground truth.
type World struct {
	Book     gen.Book
	Log      gen.Log
	Res      model.Resolved
	Abs      map[string]map[string]*big.Rat
	BookText string
	LogText  string
	Layout   string
	Recipes  []string
	Basics   []string
	Unknown  []string
	Exact    bool
	Conf     string // configuration file the files need (another comment character), "" if none
}

type worldOpts struct {
	AltComment bool // one world in six is written with another comment character (and '#' as an ordinary first character of names)
	Exact      bool
	Names      gen.NameOpts
	MaxDays    int
	MinDays    int
	MaxRecipes int
	Sorted     bool
	Notes      bool
	Hostile    bool // hostile file layout
	Layout     string
	NoEmpty    bool
	NoZero     bool
	NoDupFoods bool
	Start      gen.Date
	NoBig      bool // never the occasional big world (checks that repeat every case many times)
}

var namesPlain = gen.NameOpts{Unicode: true, Spaces: true, Slash: true, Punct: ".,;'()&%+*=!?@_-#{}<>`|^~$[]", MaxLen: 10, EdgeBlanks: true}

func newWorld(r *rand.Rand, o worldOpts) *World {
	if o.MaxDays == 0 {
		o.MaxDays = 6
	}
	if o.MaxRecipes == 0 {
		o.MaxRecipes = 7
	}
	if o.Layout == "" {
		o.Layout = "2006/01/02"
	}
	if o.Names.MaxLen == 0 {
		o.Names = namesPlain
	}
	nrec := 1 + r.Intn(o.MaxRecipes)
	nbas := 1 + r.Intn(4)
	nunk := r.Intn(3)
	maxEnts := 0
	wide := false
	if r.Intn(15) == 0 && !o.NoBig {
		// a big world now and then: counts beyond small-map sizes, buffer sizes and single digits
		nrec, nbas, nunk = 12+r.Intn(14), 34+r.Intn(16), 20+r.Intn(20)
		if r.Intn(3) == 0 {
			// and now and then very many elements: days whose totals have more than 128 / 256 rows
			nbas = 130 + r.Intn(160)
		}
		o.MaxDays, maxEnts = 25+r.Intn(20), 90
		wide = true
		if o.MinDays > o.MaxDays {
			o.MinDays = o.MaxDays
		}
	}
	all := gen.Names(r, nrec+nbas+nunk, o.Names)
	var altCC byte
	if o.AltComment && r.Intn(6) == 0 {
		// incl. characters above 127: the comment character is one byte of the file, not a code point
		altCC = []byte{';', '/', '`', '%', '!', 0xa7, 0xa7, 0xff}[r.Intn(8)]
		for _, n := range all {
			if n[0] == altCC {
				altCC = 0
				break
			}
		}
		if altCC != 0 {
			// '#' is then an ordinary character: a recipe, a basic element and every third other name begin with it
			for k := range all {
				if k == 0 || k == nrec || k%3 == 2 {
					all[k] = "#" + all[k]
				}
			}
		}
	}
	w := &World{Exact: o.Exact, Layout: o.Layout}
	if altCC != 0 {
		w.Conf = fmt.Sprintf("[ParserConfig]\nCommentChar=%d\n", altCC)
	}
	w.Recipes, w.Basics, w.Unknown = all[:nrec], all[nrec:nrec+nbas], all[nrec+nbas:]
	if r.Intn(4) == 0 {
		// names that differ only in letter case are different names: an undefined food spelled like a
		// recipe, a basic element spelled like another one
		taken := map[string]bool{}
		for _, n := range all {
			taken[n] = true
		}
		if v := caseVariant(w.Recipes[0]); !taken[v] {
			w.Unknown = append(w.Unknown, v)
			taken[v] = true
		}
		if v := caseVariant(w.Basics[0]); !taken[v] && nbas > 1 {
			w.Basics[nbas-1] = v
		}
	}
	if r.Intn(6) == 0 {
		// white-space variants of one name are different names (and different category paths)
		base := w.Recipes[0]
		for _, v := range []string{base + "/olive oil", base + "/olive  oil", base + "/olive\u00a0oil", base + " /olive oil"} {
			if !inList(all, v) {
				w.Unknown = append(w.Unknown, v)
			}
		}
	}
	if r.Intn(6) == 0 && nrec >= 3 && !inList(all, w.Recipes[0]+"\u00e9") && !inList(all, w.Recipes[0]+"e\u0301") {
		// the same text in two Unicode normal forms is two different names: a recipe spelled with a
		// precomposed é and an undefined food spelled with e + combining accent
		w.Recipes[2] = w.Recipes[0] + "\u00e9"
		w.Unknown = append(w.Unknown, w.Recipes[0]+"e\u0301")
	}
	var twins []string
	if r.Intn(8) == 0 {
		// two different names that collide under a common 32-bit hash: as basic elements of the book (when
		// there is room) or as foods the book does not define; logged on different days further down
		tw := gen.HashTwins[r.Intn(len(gen.HashTwins))]
		if !inList(all, tw[0]) && !inList(all, tw[1]) {
			twins = tw[:]
			if nbas >= 3 && r.Intn(2) == 0 {
				w.Basics[nbas-1], w.Basics[nbas-2] = tw[0], tw[1]
			} else {
				w.Unknown = append(w.Unknown, tw[0], tw[1])
			}
		}
	}
	concat := nrec >= 2 && r.Intn(6) == 0
	if concat {
		// two recipes named N and N+"1": with quantities 15 and 5 the strings N+"15" coincide
		if cand := w.Recipes[0] + "1"; !inList(all, cand) {
			w.Recipes[1] = cand
		} else {
			concat = false
		}
	}
	w.Book = gen.RandomBook(r, gen.BookOpts{Recipes: nrec, Basics: nbas, MaxDepth: 1 + r.Intn(4), Exact: o.Exact, RecipeNames: w.Recipes, BasicNames: w.Basics, NoEmpty: o.NoEmpty, NoZero: o.NoZero, Wide: wide, Redeclare: r.Intn(8) == 0})
	if altCC == 0 && r.Intn(6) == 0 && len(w.Book) >= 1 {
		// a heading whose name begins with the comment character (written in quotes, e.g. "#1 combo"): a recipe
		// like any other in the exports, although nothing can refer to it
		hash := gen.Recipe{Name: "#" + w.Basics[0] + " combo", Ents: []gen.Ent{{Name: w.Basics[0], Val: gen.N("180")}, {Name: w.Basics[len(w.Basics)-1], Val: gen.N("75")}}}
		if !inList(all, hash.Name) {
			at := 1 + r.Intn(len(w.Book))
			w.Book = append(w.Book[:at:at], append(gen.Book{hash}, w.Book[at:]...)...)
		}
	}
	foods := append(append(append([]string{}, w.Recipes...), w.Recipes...), w.Basics...)
	foods = append(foods, w.Unknown...)
	days := o.MinDays + r.Intn(o.MaxDays-o.MinDays+1)
	w.Log = gen.RandomLog(r, gen.LogOpts{Days: days, MaxEnts: maxEnts, Foods: foods, Exact: o.Exact, Sorted: o.Sorted, Notes: o.Notes, EmptyDays: !o.NoEmpty, NoDupFoods: o.NoDupFoods, Start: o.Start})
	if o.Notes {
		// recipes carry metadata lines too (README: "# barcode: ...")
		for i := range w.Book {
			if r.Intn(3) == 0 {
				w.Book[i].Notes = gen.RandomNotes(r)
			}
		}
	}
	if concat && len(w.Log) > 0 {
		d := r.Intn(len(w.Log))
		w.Log[d].Ents = append(w.Log[d].Ents, gen.Ent{Name: w.Recipes[0], Val: gen.N("15")})
		d2 := r.Intn(len(w.Log))
		w.Log[d2].Ents = append(w.Log[d2].Ents, gen.Ent{Name: w.Recipes[1], Val: gen.N("5")})
	}
	if r.Intn(5) == 0 {
		if old, nn := relateNames(r, w.Book, w.Log, append(append([]string{}, w.Basics...), w.Unknown...)); nn != "" {
			for ri := range w.Recipes {
				if w.Recipes[ri] == old {
					w.Recipes[ri] = nn
				}
			}
		}
	}
	if twins != nil && len(w.Log) > 0 {
		d1 := r.Intn(len(w.Log))
		d2 := d1 + r.Intn(len(w.Log)-d1)
		w.Log[d1].Ents = append(w.Log[d1].Ents, gen.Ent{Name: twins[0], Val: gen.N("2")})
		w.Log[d2].Ents = append(w.Log[d2].Ents, gen.Ent{Name: twins[1], Val: gen.N("3")})
	}
	w.Res = model.Resolve(w.Book)
	w.Abs = model.AbsPaths(w.Book)
	var st *gen.Style
	if o.Hostile {
		st = gen.Hostile(r)
	}
	if altCC != 0 {
		if st == nil {
			st = &gen.Style{}
		}
		st.Comment = altCC
		st.Quotes = false
	}
	w.BookText = gen.RenderBook(w.Book, st)
	w.LogText = gen.RenderLog(w.Log, o.Layout, st)
	return w
}

// relateNames renames one recipe so that its name stands in a textual relation to the name of a recipe it uses:
// "rye bread" made of "bread", "salad/tuna/mayonnaise" made of "mayonnaise" (suffix), also prefix and infix. The
// renaming is applied to every declaration and reference in the book and the log. Returns the old and the new name
// ("" if no recipe refers to another one or the new name is taken).
func relateNames(r *rand.Rand, book gen.Book, log gen.Log, others []string) (string, string) {
	def := map[string]bool{}
	for _, rec := range book {
		def[rec.Name] = true
	}
	type pair struct{ outer, inner string }
	var pairs []pair
	for _, rec := range book {
		for _, e := range rec.Ents {
			if def[e.Name] && e.Name != rec.Name {
				pairs = append(pairs, pair{rec.Name, e.Name})
			}
		}
	}
	if len(pairs) == 0 {
		return "", ""
	}
	pr := pairs[r.Intn(len(pairs))]
	nn := []string{pr.outer + " " + pr.inner, pr.outer + "/" + pr.inner, pr.inner + " " + pr.outer, pr.outer + pr.inner, "x" + pr.inner}[r.Intn(5)]
	if def[nn] || inList(others, nn) || strings.Contains(nn, " /") || strings.Contains(nn, "/ ") {
		return "", ""
	}
	ren := func(n string) string {
		if n == pr.outer {
			return nn
		}
		return n
	}
	for bi := range book {
		book[bi].Name = ren(book[bi].Name)
		for ei := range book[bi].Ents {
			book[bi].Ents[ei].Name = ren(book[bi].Ents[ei].Name)
		}
	}
	for di := range log {
		for ei := range log[di].Ents {
			log[di].Ents[ei].Name = ren(log[di].Ents[ei].Name)
		}
	}
	return pr.outer, nn
}

func inList(xs []string, x string) bool {
	for _, y := range xs {
		if y == x {
			return true
		}
	}
	return false
}

// caseVariant flips the case of the ASCII letters of a name (identity if it has none).
func caseVariant(s string) string {
	b := []byte(s)
	for i, ch := range b {
		switch {
		case ch >= 'a' && ch <= 'z':
			b[i] = ch - 32
		case ch >= 'A' && ch <= 'Z':
			b[i] = ch + 32
		}
	}
	return string(b)
}

func (w *World) Files() map[string]string {
	// plus files in the working directory named like values the program knows as words (the default template name,
	// keywords, a sub-command): a name given as an option value is that value, not a path to look up
	fs := map[string]string{"food.yaml": w.BookText, "log.yaml": w.LogText, "default": worldDecoy, "left-aligned": worldDecoy, "today": worldDecoy, "yesterday": worldDecoy, "totals": worldDecoy}
	if w.Conf != "" {
		fs["hr.conf"] = w.Conf
	}
	return fs
}

const worldDecoy = "this file has nothing to do with the diary {{ .Broken\n  decoy: 1\n"

// base is withBase plus the configuration file the world's files need.
func (w *World) base(extra ...string) []string {
	if w.Conf != "" {
		return append([]string{"--config", "hr.conf"}, withBase(extra...)...)
	}
	return withBase(extra...)
}

// Elements returns every element name that can appear in totals.
func (w *World) Elements() []string {
	seen := map[string]bool{}
	var out []string
	for _, d := range w.Log {
		for _, t := range model.Account(d, w.Res).Totals {
			if !seen[t.Name] {
				seen[t.Name] = true
				out = append(out, t.Name)
			}
		}
	}
	return out
}

var baseArgs = []string{"--no-color", "-d", "food.yaml", "-l", "log.yaml"}

func withBase(extra ...string) []string { return append(append([]string{}, baseArgs...), extra...) }

// compareRegDay checks one parsed register day against the model.
func compareRegDay(got obs.RegDay, want model.DayAcc, layout string, exact, withFoods, withTotals bool) (class, msg string) {
	if got.Date != want.Date.Format(layout) {
		return "day-order", fmt.Sprintf("day %q, want %q", got.Date, want.Date.Format(layout))
	}
	if withFoods {
		if len(got.Foods) != len(want.Foods) {
			return "food-list", fmt.Sprintf("day %s: %d foods, want %d", got.Date, len(got.Foods), len(want.Foods))
		}
		for i, wf := range want.Foods {
			gf := got.Foods[i]
			if gf.Name != wf.Name {
				return "food-list", fmt.Sprintf("day %s food %d: %q, want %q", got.Date, i, gf.Name, wf.Name)
			}
			if !numOK(gf.Qty, wf.Qty, 2, wf.QtyAbs, exact) {
				return "food-quantity", fmt.Sprintf("day %s food %q: printed %s, want %s", got.Date, wf.Name, gf.Raw, rs(wf.Qty))
			}
			if len(gf.Ingredients) != len(wf.Ingredients) {
				return "ingredients", fmt.Sprintf("day %s food %q: %d ingredient rows %v, want %d", got.Date, wf.Name, len(gf.Ingredients), nvNames(gf.Ingredients), len(wf.Ingredients))
			}
			wm := map[string]*big.Rat{}
			wa := map[string]*big.Rat{}
			for _, e := range wf.Ingredients {
				wm[e.Name] = e.V
				wa[e.Name] = e.A
			}
			for _, gi := range gf.Ingredients {
				ex, ok := wm[gi.Name]
				if !ok {
					return "ingredients", fmt.Sprintf("day %s food %q: unexpected ingredient %q", got.Date, wf.Name, gi.Name)
				}
				if !numOK(gi.V, ex, 2, wa[gi.Name], exact) {
					return "ingredient-value", fmt.Sprintf("day %s food %q ingredient %q: printed %s, want %s", got.Date, wf.Name, gi.Name, gi.Raw, rs(ex))
				}
				delete(wm, gi.Name)
			}
		}
	}
	if withTotals {
		if len(got.Totals) != len(want.Totals) {
			return "totals-list", fmt.Sprintf("day %s: %d totals rows %v, want %d", got.Date, len(got.Totals), totNames(got.Totals), len(want.Totals))
		}
		for i, wt := range want.Totals {
			gt := got.Totals[i]
			if gt.Name != wt.Name {
				return "totals-list", fmt.Sprintf("day %s totals row %d: %q, want %q (sorted by name)", got.Date, i, gt.Name, wt.Name)
			}
			if !numOK(gt.Pos, wt.Pos, 2, wt.Abs, exact) || !numOK(gt.Neg, wt.Neg, 2, wt.Abs, exact) || !numOK(gt.Sum, wt.Sum, 2, wt.Abs, exact) {
				return "totals-value", fmt.Sprintf("day %s element %q: printed %v, want pos %s neg %s sum %s", got.Date, wt.Name, gt.Raw, rs(wt.Pos), rs(wt.Neg), rs(wt.Sum))
			}
		}
	}
	return "", ""
}

func nvNames(xs []obs.NameVal) []string {
	var out []string
	for _, x := range xs {
		out = append(out, x.Name)
	}
	return out
}

func totNames(xs []obs.TotalRow) []string {
	var out []string
	for _, x := range xs {
		out = append(out, x.Name)
	}
	return out
}
