package checks

import (
	"fmt"
	"hash/adler32"
	"hash/crc32"
	"hash/fnv"
	"math/rand"
	"os"
	"path/filepath"
	"strings"
	"time"

	"verif/harness/core"
	"verif/harness/gen"
	"verif/harness/run"
)

func init() {
	register(&Check{ID: "C06", Level: "exploration", Run: runC06})
}

type c06Cmd struct {
	args []string
	sub  bool // the sub-command itself accepts -b/-e
}

var c06Cmds = []c06Cmd{
	{[]string{"reg"}, true},
	{[]string{"reg", "-s", "kcal"}, true},
	{[]string{"reg", "-f", "a"}, true},
	{[]string{"reg", "--use-old-reg-reporter"}, true},
	{[]string{"bal"}, true},
	{[]string{"bal", "-s", "kcal"}, true},
	{[]string{"csv", "log"}, true},
	{[]string{"print"}, true},
	{[]string{"report", "totals"}, false},
	{[]string{"report", "quantity"}, false},
	{[]string{"report", "unresolved"}, false},
}

var c06Zones = []string{"UTC", "America/Los_Angeles", "Asia/Tokyo", "Pacific/Kiritimati"}

const c06Book = "a/b:\n  kcal: 2\n  fat: 1\n\na/c:\n  kcal: -3\n\nd:\n  a/b: 2\n  kcal: 1\n"

func c06Log(r *rand.Rand, dates []gen.Date, n int) gen.Log {
	foods := []string{"a/b", "a/c", "d", "kcal", "water", "tea"}
	var log gen.Log
	for i := 0; i < n; i++ {
		day := gen.Day{Date: dates[r.Intn(len(dates))]}
		if r.Intn(7) == 0 {
			// a day with nothing under its heading, the heading with or without its colon: a day all the same,
			// wherever in the file it stands
			day.NoColon = r.Intn(2) == 0
			log = append(log, day)
			continue
		}
		for j := 0; j <= r.Intn(3); j++ {
			day.Ents = append(day.Ents, gen.Ent{Name: foods[r.Intn(len(foods))], Val: gen.EQty(r)})
		}
		if r.Intn(2) == 0 {
			// notes belong to their day: print shows them, and only under the days that are selected
			day.Notes = []gen.Note{{Key: "mood", Text: fmt.Sprintf("note %d", i)}}
			if r.Intn(2) == 0 {
				day.Notes = append(day.Notes, gen.Note{Text: fmt.Sprintf("plain remark %d", i)})
			}
		}
		log = append(log, day)
	}
	return log
}

func restrict(l gen.Log, b, e *gen.Date) gen.Log {
	var out gen.Log
	for _, d := range l {
		if b != nil && d.Date.Less(*b) {
			continue
		}
		if e != nil && e.Less(d.Date) {
			continue
		}
		out = append(out, d)
	}
	return out
}

// placeFlags builds argv for the given position: 0 global, 1 sub-command, 2 decoy begin global + real on sub, 3 decoy end.
func placeFlags(pos int, layout string, cmd []string, b, e *string, decoy string, pre []string) []string {
	var g, s []string
	add := func(dst *[]string, flag string, v *string) {
		if v != nil {
			*dst = append(*dst, flag, *v)
		}
	}
	switch pos {
	case 0:
		add(&g, "-b", b)
		add(&g, "-e", e)
	case 1:
		add(&s, "-b", b)
		add(&s, "-e", e)
	case 2:
		if b != nil {
			g = append(g, "-b", decoy)
		}
		add(&s, "-b", b)
		add(&g, "-e", e)
	case 3:
		if e != nil {
			g = append(g, "--end", decoy)
		}
		add(&s, "--end", e)
		add(&g, "--begin", b)
	}
	args := append(append([]string{}, pre...), g...)
	// sub-command flags go right after the sub-command name(s), before its own options/arguments
	head := 1
	if cmd[0] == "csv" || cmd[0] == "report" {
		head = 2
	}
	args = append(args, cmd[:head]...)
	args = append(args, s...)
	args = append(args, cmd[head:]...)
	return args
}

func runC06(c *core.Ctx) {
	// plus period-aware command shapes drawn from the catalogue (renderer x selector x presentation flags)
	{
		r := c.Rng("shapes", 0)
		have := map[string]bool{}
		for _, cmd := range c06Cmds {
			have[joinArgs(cmd.args)] = true
		}
		for n := 0; n < 4; {
			sp := randomCmd(r, "kcal", "a", "DATE")
			if have[joinArgs(sp.Args)] || !sp.Log || sp.Args[0] == "stats" || sp.Args[0] == "summary" {
				continue
			}
			have[joinArgs(sp.Args)] = true
			sub := sp.Args[0] == "reg" || sp.Args[0] == "bal" || sp.Args[0] == "print" || (sp.Args[0] == "csv" && sp.Args[1] == "log")
			c06Cmds = append(c06Cmds, c06Cmd{sp.Args, sub})
			n++
		}
	}
	c.SetRule("cases: (1) exhaustive window: 6 consecutive dates across a month end (2021-02-26..03-03), a leap day (2020-02-27..03-03), the end of a leap year and of a common year (12-29..01-03), and the days on which DST starts at local midnight in America/Santiago and America/Havana, logs = shuffled multisets of days over the window, (b,e) over {absent, day before, each of the 6, day after}^2 = 81 pairs incl. equal and inverted, x 11 period-aware command shapes x flag positions {global, sub-command, global decoy overridden by sub-command for -b / for -e} x TZ {UTC, America/Los_Angeles, Asia/Tokyo, Pacific/Kiritimati}; (2) keywords today/yesterday/last7/last30 against --today with days at T-31,-30,-8,-7,-1,0,+1, and summary today|yesterday|DATE; (3) four date layouts for file, flags and --today; (4) random logs and periods. Oracle (metamorphic, byte-exact): output with period == output of the same command on the log with the other days deleted and no period (run once, TZ=UTC); keyword == its explicit date. Non-trivial = period that selects a proper non-empty subset; distinct = hash(log, argv, TZ).")
	c.Assume("every run passes --today; without it the keywords are resolved against the wall clock, which no deterministic oracle can use")
	for _, z := range c06Zones[1:] {
		if _, err := os.Stat(filepath.Join("/usr/share/zoneinfo", z)); err != nil {
			c.Inconclusive("time-zones", "zoneinfo for "+z+" not available: TZ dimension not explored")
			return
		}
	}
	type item struct {
		log    gen.Log
		layout string
		b, e   *gen.Date
		bs, es *string // as given on the command line (date or keyword)
		today  gen.Date
		cmd    c06Cmd
		zones  []string
		label  string
		refB   *gen.Date // for keywords: the explicit-date reference
		// todayText: --today as given (default: today in the layout)
		todayText string
	}
	var items []item
	layoutDefault := "2006/01/02"
	mk := func(d gen.Date, layout string) *string { s := d.Format(layout); return &s }

	// (1) exhaustive window
	windows := [][]gen.Date{}
	for _, start := range []gen.Date{{Y: 2021, M: 2, D: 26}, {Y: 2020, M: 2, D: 27}, {Y: 2020, M: 12, D: 29}, {Y: 2021, M: 12, D: 29}, {Y: 2022, M: 9, D: 9}, {Y: 2022, M: 3, D: 11}} {
		var w []gen.Date
		for i := 0; i < 6; i++ {
			w = append(w, start.AddDays(i))
		}
		windows = append(windows, w)
	}
	nlogs := c.N(1, 4)
	for wi, w := range windows {
		for li := 0; li < nlogs; li++ {
			r := c.Rng("window", wi*100+li)
			log := c06Log(r, w, 6+r.Intn(5))
			bounds := []*gen.Date{nil}
			for i := -1; i <= 6; i++ {
				d := w[0].AddDays(i)
				bounds = append(bounds, &d)
			}
			for bi, b := range bounds {
				for ei, e := range bounds {
					// every pair with a rotating subset of commands (all commands are covered many times over the 81 pairs)
					for ci, cmd := range c06Cmds {
						if c.Quick() && (bi+ei+ci+li)%3 != 0 {
							continue
						}
						it := item{log: log, layout: layoutDefault, b: b, e: e, today: w[5].AddDays(10), cmd: cmd, label: "window"}
						if b != nil {
							it.bs = mk(*b, layoutDefault)
						}
						if e != nil {
							it.es = mk(*e, layoutDefault)
						}
						it.zones = c06Zones
						switch wi {
						case 4: // a zone whose DST starts at local midnight inside the window
							it.zones = midnightZones("America/Santiago")
						case 5:
							it.zones = midnightZones("America/Havana")
						}
						items = append(items, it)
					}
				}
			}
		}
	}
	c.Count("window_items", len(items))

	// (2) keywords; --today values also right after DST changes, zones with DST included
	kwZones := append([]string{}, c06Zones...)
	for _, z := range []string{"America/New_York", "Europe/Berlin", "Australia/Sydney", "America/Havana"} {
		if _, err := os.Stat(filepath.Join("/usr/share/zoneinfo", z)); err == nil {
			kwZones = append(kwZones, z)
		}
	}
	kws := map[string]int{"today": 0, "yesterday": -1, "last7": -7, "last30": -30}
	kwNames := []string{"today", "yesterday", "last7", "last30"}
	// (the first day of the calendar as --today: its instant is the zero value of the time type)
	Ts := []gen.Date{{Y: 2021, M: 3, D: 31}, {Y: 2021, M: 3, D: 15}, {Y: 1, M: 1, D: 1}, {Y: 2021, M: 4, D: 5}, {Y: 2021, M: 11, D: 8}, {Y: 2021, M: 3, D: 14}, {Y: 2021, M: 10, D: 4}}
	var T gen.Date
	var kwDays []gen.Date
	for li := 0; li < c.N(3, 12); li++ {
		T = Ts[li%len(Ts)]
		kwDays = nil
		for _, off := range []int{-31, -30, -8, -7, -2, -1, 0, 1} {
			kwDays = append(kwDays, T.AddDays(off))
		}
		kwDays := kwDays
		T := T
		r := c.Rng("kw", li)
		log := c06Log(r, kwDays, 9+r.Intn(4))
		opts := []string{"", "today", "yesterday", "last7", "last30", "date"}
		for _, bo := range opts {
			for _, eo := range opts {
				if bo == "" && eo == "" {
					continue
				}
				for ci, cmd := range c06Cmds {
					if (ci+len(bo)+len(eo)+li)%4 != 0 && c.Quick() {
						continue
					}
					it := item{log: log, layout: layoutDefault, today: T, cmd: cmd, label: "keyword", zones: []string{kwZones[(ci+li+len(bo))%len(kwZones)], kwZones[(ci+2*li+len(eo)+3)%len(kwZones)]}}
					set := func(o string) (*gen.Date, *string) {
						switch o {
						case "":
							return nil, nil
						case "date":
							d := kwDays[r.Intn(len(kwDays))]
							return &d, mk(d, layoutDefault)
						}
						d := T.AddDays(kws[o])
						s := o
						return &d, &s
					}
					it.b, it.bs = set(bo)
					it.e, it.es = set(eo)
					items = append(items, it)
				}
			}
		}
	}
	_ = kwNames
	// (2b) keywords when the layout carries a zone offset: --today, the headings and the explicit dates are all
	// written with the same offset, so "today" is that calendar day in every process zone
	for zi, suffix := range []string{" +0200", " -0500", " +0530"} {
		T := Ts[zi]
		var days []gen.Date
		for _, off := range []int{-31, -30, -8, -7, -2, -1, 0, 1} {
			days = append(days, T.AddDays(off))
		}
		r := c.Rng("kwz", zi)
		log := c06Log(r, days, 10)
		for di := range log {
			log[di].Head = log[di].Date.Format("2006/01/02") + suffix
		}
		opts := []string{"", "today", "yesterday", "last7", "last30"}
		for _, bo := range opts {
			for _, eo := range opts {
				if bo == "" && eo == "" {
					continue
				}
				it := item{log: log, layout: "2006/01/02 -0700", today: T, todayText: T.Format("2006/01/02") + suffix, cmd: c06Cmds[r.Intn(len(c06Cmds))], label: "keyword, zoned layout", zones: []string{kwZones[r.Intn(len(kwZones))]}}
				set := func(o string) (*gen.Date, *string) {
					if o == "" {
						return nil, nil
					}
					d := T.AddDays(kws[o])
					s := o
					return &d, &s
				}
				it.b, it.bs = set(bo)
				it.e, it.es = set(eo)
				items = append(items, it)
			}
		}
	}

	// (3) date layouts
	// incl. layouts that look like the default one with the fields in another order (a value such as 2021/03/03
	// reads the same either way, 2021/01/03 does not), unpadded fields and a two-digit year
	dm := []gen.Date{{Y: 2021, M: 1, D: 1}, {Y: 2021, M: 2, D: 2}, {Y: 2021, M: 2, D: 3}, {Y: 2021, M: 3, D: 2}, {Y: 2021, M: 12, D: 11}, {Y: 2021, M: 12, D: 12}}
	for li, layout := range []string{"2006-01-02", "02.01.2006", "Jan 2 2006", "2006/01/02", "2006/02/01", "01/02/2006", "02/01/2006", "2006/1/2", "2006/2/1", "06/01/02", "2006-02-01", "20060102"} {
		r := c.Rng("layout", li)
		w := windows[0]
		if li%2 == 0 {
			w = dm
		}
		log := c06Log(r, w, 8)
		for k := 0; k < c.N(6, 30); k++ {
			b, e := w[r.Intn(6)], w[r.Intn(6)]
			it := item{log: log, layout: layout, b: &b, e: &e, bs: mk(b, layout), es: mk(e, layout), today: w[5].AddDays(3), cmd: c06Cmds[r.Intn(len(c06Cmds))], label: "layout " + layout, zones: []string{"UTC", c06Zones[1+k%3]}}
			if k%3 == 0 {
				it.b, it.bs = nil, nil
			}
			items = append(items, it)
		}
	}

	// (3a) layouts with a zone: every heading and every bound carries the same offset, among them offsets that are
	// not whole hours (for which the time package builds a new location on every parse) and a zone abbreviation
	for zi, zone := range []struct{ layout, suffix string }{{"2006/01/02 -0700", " +0530"}, {"2006/01/02 -0700", " -0330"}, {"2006/01/02 -07:00", " +05:45"}, {"2006/01/02 -0700", " +0200"}, {"2006/01/02 MST", " IST"}, {"2006/01/02 15:04 -0700", " 00:00 +0930"}} {
		r := c.Rng("zoned", zi)
		w := windows[zi%len(windows)]
		log := c06Log(r, w, 8)
		for di := range log {
			log[di].Head = log[di].Date.Format("2006/01/02") + zone.suffix
		}
		zs := func(d gen.Date) *string { s := d.Format("2006/01/02") + zone.suffix; return &s }
		for k := 0; k < c.N(6, 24); k++ {
			b, e := w[r.Intn(6)], w[r.Intn(6)]
			it := item{log: log, layout: zone.layout, b: &b, e: &e, bs: zs(b), es: zs(e), today: w[5].AddDays(3), cmd: c06Cmds[r.Intn(len(c06Cmds))], label: "zoned layout" + zone.suffix, zones: []string{"UTC", c06Zones[1+k%3]}}
			switch k % 3 {
			case 1:
				it.b, it.bs = nil, nil
			case 2:
				it.e, it.es = nil, nil
			}
			items = append(items, it)
		}
	}

	// (3b) dates far from today: bounds like 0001/01/01 and 9999/12/31 ("everything"), log days centuries away
	{
		r := c.Rng("far", 0)
		far := []gen.Date{{Y: 1, M: 1, D: 1}, {Y: 1500, M: 3, D: 1}, {Y: 1677, M: 9, D: 20}, {Y: 1678, M: 1, D: 1}, {Y: 2021, M: 1, D: 5}, {Y: 2262, M: 4, D: 11}, {Y: 2262, M: 4, D: 12}, {Y: 2300, M: 1, D: 5}, {Y: 9999, M: 12, D: 31}}
		log := c06Log(r, far, 14)
		for bi := -1; bi < len(far); bi++ {
			for ei := -1; ei < len(far); ei++ {
				if bi < 0 && ei < 0 {
					continue
				}
				it := item{log: log, layout: layoutDefault, today: gen.Date{Y: 2021, M: 2, D: 1}, cmd: c06Cmds[(bi+ei+20)%len(c06Cmds)], label: "far dates", zones: []string{c06Zones[(bi+2*ei+30)%4]}}
				if bi >= 0 {
					d := far[bi]
					it.b, it.bs = &d, mk(d, layoutDefault)
				}
				if ei >= 0 {
					d := far[ei]
					it.e, it.es = &d, mk(d, layoutDefault)
				}
				items = append(items, it)
			}
		}
	}

	// (3c) the same at the very edge of the calendar in a layout with a time of day and a zone offset: the first
	// and the last representable day lie, as instants, before year 1 / after year 9999 of UTC
	{
		r := c.Rng("edge", 0)
		layout := "2006/01/02 15:04 -07:00"
		heads := []string{"0001/01/01 00:00 +05:00", "0001/01/02 00:00 +05:00", "2021/01/05 12:00 +00:00", "9999/12/30 22:00 -05:00", "9999/12/31 22:00 -05:00"}
		days := []gen.Date{{Y: 1, M: 1, D: 1}, {Y: 1, M: 1, D: 2}, {Y: 2021, M: 1, D: 5}, {Y: 9999, M: 12, D: 30}, {Y: 9999, M: 12, D: 31}}
		var log gen.Log
		for di, d := range days {
			log = append(log, gen.Day{Date: d, Head: heads[di], Ents: []gen.Ent{{Name: "a/b", Val: gen.Half(2 + di)}, {Name: "zz", Val: gen.Half(1)}}})
		}
		for bi := -1; bi < len(days); bi++ {
			for ei := -1; ei < len(days); ei++ {
				if bi >= 0 && ei >= 0 && (bi+ei)%2 == 1 {
					continue
				}
				it := item{log: log, layout: layout, today: gen.Date{Y: 2021, M: 2, D: 1}, cmd: c06Cmds[r.Intn(len(c06Cmds))], label: "edge of the calendar", zones: []string{c06Zones[(bi+2*ei+30)%4]}}
				if bi >= 0 {
					d, h := days[bi], heads[bi]
					it.b, it.bs = &d, &h
				}
				if ei >= 0 {
					d, h := days[ei], heads[ei]
					it.e, it.es = &d, &h
				}
				if bi < 0 && ei < 0 {
					// no period at all: every day is selected
					it.label = "edge of the calendar, no period"
				}
				items = append(items, it)
			}
		}
	}

	// (3d) a long diary kept in order (400 and 1100 consecutive days) with a few entries appended out of order at the
	// bottom (a forgotten meal, a correction): what a long ordered run suggests about the rest of the file is not a fact
	for di, ndays := range []int{400, 1100} {
		r := c.Rng("diary", di)
		start := gen.Date{Y: 2018, M: 1, D: 1}
		var log gen.Log
		for k := 0; k < ndays; k++ {
			log = append(log, gen.Day{Date: start.AddDays(k), Ents: []gen.Ent{{Name: []string{"a/b", "water", "tea", "d"}[k%4], Val: gen.Half(1 + k%7)}}})
		}
		late := []int{40, 200, ndays - 30, 41}
		for _, k := range late {
			log = append(log, gen.Day{Date: start.AddDays(k), Ents: []gen.Ent{{Name: "kcal", Val: gen.Half(9)}}})
		}
		for k := 0; k < c.N(5, 20); k++ {
			b, e := start.AddDays(r.Intn(60)), start.AddDays(30+r.Intn(250))
			it := item{log: log, layout: layoutDefault, b: &b, e: &e, bs: mk(b, layoutDefault), es: mk(e, layoutDefault), today: start.AddDays(ndays + 5), cmd: c06Cmds[r.Intn(len(c06Cmds))], label: "long ordered diary with late entries", zones: []string{c06Zones[k%4]}}
			if k%3 == 0 {
				it.b, it.bs = nil, nil
			}
			items = append(items, it)
		}
	}

	// (4) random logs and periods
	for i := 0; i < c.N(150, 3000); i++ {
		r := c.Rng("random", i)
		start := gen.Date{Y: 2019 + r.Intn(4), M: 1 + r.Intn(12), D: 1 + r.Intn(28)}
		var ds []gen.Date
		for k := 0; k < 12; k++ {
			ds = append(ds, start.AddDays(r.Intn(40)))
		}
		log := c06Log(r, ds, 4+r.Intn(10))
		b, e := start.AddDays(r.Intn(44)-2), start.AddDays(r.Intn(44)-2)
		it := item{log: log, layout: layoutDefault, b: &b, e: &e, bs: mk(b, layoutDefault), es: mk(e, layoutDefault), today: start.AddDays(50), cmd: c06Cmds[r.Intn(len(c06Cmds))], label: "random", zones: []string{c06Zones[r.Intn(4)]}}
		switch r.Intn(4) {
		case 0:
			it.b, it.bs = nil, nil
		case 1:
			it.e, it.es = nil, nil
		}
		items = append(items, it)
	}

	core.ParallelFor(len(items), c.Procs, func(wk, i int) {
		it := items[i]
		dir := filepath.Join(c.Work, fmt.Sprintf("w%02d", wk))
		full := gen.RenderLog(it.log, it.layout, nil)
		rlog := restrict(it.log, it.b, it.e)
		restricted := gen.RenderLog(rlog, it.layout, nil)
		files := map[string]string{"food.yaml": c06Book, "log.yaml": full, "logr.yaml": restricted}
		if err := run.WriteFiles(dir, files); err != nil {
			c.HarnessError(err.Error())
			return
		}
		pre := func(logf string) []string {
			tt := it.today.Format(it.layout)
			if it.todayText != "" {
				tt = it.todayText
			}
			a := []string{"--no-color", "-d", "food.yaml", "-l", logf, "--today", tt}
			if it.layout != "2006/01/02" {
				a = append(a, "--date-format", it.layout)
			}
			return a
		}
		refArgs := append(pre("logr.yaml"), it.cmd.args...)
		ref := run.Exec(c.HR, refArgs, run.ExecOpts{Dir: dir, Env: map[string]string{"TZ": "UTC"}})
		c.Eval(1)
		if ref.Exit != 0 || ref.Crashed() {
			c.Violation(strings.Join(it.cmd.args[:min(2, len(it.cmd.args))], " ")+"|reference-run-fails", fmt.Sprintf("%s on the restricted log: exit %d %s", joinArgs(it.cmd.args), ref.Exit, clip(ref.Serr, 300)),
				caseDoc{Files: files, Args: refArgs, Observed: resDoc(ref)})
			return
		}
		proper := len(rlog) > 0 && len(rlog) < len(it.log)
		positions := []int{0}
		if it.cmd.sub {
			positions = []int{0, 1, 2, 3}
		}
		for pi, pos := range positions {
			decoyDay := it.today.AddDays(-400 + 800*(pi%2))
			if decoyDay.Y < 1 {
				// no years before 0 (a date text with a minus sign is not a date in any of the layouts)
				decoyDay = it.today.AddDays(400)
			}
			decoy := decoyDay.Format(it.layout)
			args := placeFlags(pos, it.layout, it.cmd.args, it.bs, it.es, decoy, pre("log.yaml"))
			zones := it.zones
			if pos != 0 && len(zones) > 1 {
				zones = []string{zones[(i+pi)%len(zones)]}
			}
			for _, z := range zones {
				env := map[string]string{"TZ": z}
				res := run.Exec(c.HR, args, run.ExecOpts{Dir: dir, Env: env})
				c.Eval(1)
				c.Count("runs_"+it.label[:min(6, len(it.label))], 1)
				c.Count("runs_tz_"+z, 1)
				c.Count(fmt.Sprintf("runs_position_%d", pos), 1)
				if proper {
					c.Nontrivial(full, joinArgs(args), z)
				}
				if res.Out != ref.Out || res.Exit != ref.Exit {
					class := "selection-differs"
					if pos != 0 {
						class = "flag-position"
					}
					sig := strings.Join(it.cmd.args[:min(2, len(it.cmd.args))], " ")
					if it.label == "keyword" {
						class = "keyword"
					}
					c.Violation(sig+"|"+class, fmt.Sprintf("%s TZ=%s: output differs from the same command on the log restricted to [%s, %s] (%d of %d days)", joinArgs(args[len(pre("log.yaml")):]), z, ds(it.b), ds(it.e), len(rlog), len(it.log)),
						caseDoc{Files: files, Args: args, Env: env, Expected: resDoc(ref), Observed: resDoc(res)})
				}
			}
		}
		if i%997 == 0 {
			c.Sample(map[string]any{"kind": it.label, "log.yaml": full, "begin": ds(it.b), "end": ds(it.e), "command": joinArgs(it.cmd.args), "days_selected": len(rlog), "days_total": len(it.log)})
		}
	})

	// summary DATE / today / yesterday selects exactly that calendar day, also on
	// days on which a zone's local day spans two UTC midnights (DST change)
	summaryZones := append([]string{}, c06Zones...)
	for _, z := range []string{"Atlantic/Azores", "Europe/London", "America/Scoresbysund", "Australia/Lord_Howe"} {
		if _, err := os.Stat(filepath.Join("/usr/share/zoneinfo", z)); err == nil {
			summaryZones = append(summaryZones, z)
		}
	}
	c06SummaryNoToday(c, summaryZones)
	c06SummaryLastSecond(c, summaryZones)
	c06NaturalLanguage(c)
	c06SubSecond(c, [][]string{{"print"}, {"csv", "log"}, {"reg"}, {"report", "quantity"}})
	c06HashTwins(c)
	c06SummaryOnClockChangeDays(c)
	// the period of a request is the one this request names: requests served one after the other by one
	// application value (the job server), each compared with a freshly built application
	if pool := newPool(c, c.Procs); pool != nil {
		reusedApp(c, pool, c.N(200, 2500), nestedLogShape)
		jobs, deaths := pool.Stats()
		c.Count("l2_jobs", jobs)
		c.Count("l2_process_deaths", deaths)
		c.Count("l2_priming_runs", pool.Primed())
		pool.Close()
	}
	dir := filepath.Join(c.Work, "summary")
	type target struct {
		arg string
		d   gen.Date
	}
	var targets []struct {
		T gen.Date
		target
	}
	for _, T := range []gen.Date{{Y: 2021, M: 3, D: 31}, {Y: 2021, M: 11, D: 1}, {Y: 2021, M: 10, D: 31}, {Y: 2021, M: 3, D: 28}, {Y: 2021, M: 3, D: 29}, {Y: 2021, M: 11, D: 7}, {Y: 2021, M: 11, D: 8}} {
		for _, tg := range []target{{"today", T}, {"yesterday", T.AddDays(-1)}, {T.AddDays(-7).Format(layoutDefault), T.AddDays(-7)}, {T.AddDays(1).Format(layoutDefault), T.AddDays(1)}, {T.Format(layoutDefault), T}} {
			targets = append(targets, struct {
				T gen.Date
				target
			}{T, tg})
		}
	}
	for k, target := range targets {
		T := target.T
		var days []gen.Date
		for off := -8; off <= 2; off++ {
			days = append(days, T.AddDays(off))
		}
		log := c06Log(c.Rng("summary", k), days, 14)
		for _, dd := range days[6:10] {
			log = append(log, gen.Day{Date: dd, Ents: []gen.Ent{{Name: "tea", Val: gen.Half(2)}}})
		}
		d := target.d
		files := map[string]string{"food.yaml": c06Book, "log.yaml": gen.RenderLog(log, layoutDefault, nil), "logr.yaml": gen.RenderLog(restrict(log, &d, &d), layoutDefault, nil)}
		run.WriteFiles(dir, files)
		refArgs := []string{"--no-color", "-d", "food.yaml", "-l", "logr.yaml", "--today", T.Format(layoutDefault), "summary", d.Format(layoutDefault)}
		ref := run.Exec(c.HR, refArgs, run.ExecOpts{Dir: dir, Env: map[string]string{"TZ": "UTC"}})
		for _, z := range summaryZones {
			args := []string{"--no-color", "-d", "food.yaml", "-l", "log.yaml", "--today", T.Format(layoutDefault), "summary", target.arg}
			res := run.Exec(c.HR, args, run.ExecOpts{Dir: dir, Env: map[string]string{"TZ": z}})
			c.Eval(2)
			c.Count("runs_summary", 1)
			c.Nontrivial("summary", target.arg, z, fmt.Sprint(k))
			if res.Out != ref.Out || res.Exit != ref.Exit {
				c.Violation("summary|day-selection", fmt.Sprintf("summary %s TZ=%s differs from summary on the log restricted to %s", target.arg, z, d.ISO()),
					caseDoc{Files: files, Args: args, Env: map[string]string{"TZ": z}, Expected: resDoc(ref), Observed: resDoc(res)})
			}
		}
	}
}

// midnightZones: UTC plus the given zone if its zoneinfo is installed.
func midnightZones(z string) []string {
	if _, err := os.Stat(filepath.Join("/usr/share/zoneinfo", z)); err == nil {
		return []string{"UTC", z}
	}
	return []string{"UTC"}
}

// c06SummaryNoToday: an explicit date selects its calendar day whatever the clock and the zone
// say; no --today is passed here (only explicit dates, never keywords).
func c06SummaryNoToday(c *core.Ctx, zones []string) {
	dir := filepath.Join(c.Work, "summary-no-today")
	d0 := gen.Date{Y: 2021, M: 1, D: 4}
	for li, layout := range []string{"2006/01/02", "2006/01/02 15:04"} {
		var log, only gen.Log
		for off := 0; off < 3; off++ {
			for _, hhmm := range []string{"00:00", "08:00", "20:00", "23:59"} {
				d := gen.Day{Date: d0.AddDays(off), Ents: []gen.Ent{{Name: fmt.Sprintf("meal%d%s", off, hhmm[:2]), Val: gen.Half(2 + off)}}}
				if layout != "2006/01/02" {
					d.Head = d.Date.Format("2006/01/02") + " " + hhmm
				}
				log = append(log, d)
				if off == 1 {
					only = append(only, d)
				}
			}
		}
		files := map[string]string{"food.yaml": c06Book, "log.yaml": gen.RenderLog(log, layout, nil), "logr.yaml": gen.RenderLog(only, layout, nil)}
		run.WriteFiles(dir, files)
		arg := d0.AddDays(1).Format("2006/01/02")
		if layout != "2006/01/02" {
			arg += " 00:00"
		}
		pre := []string{"--no-color", "-d", "food.yaml"}
		if layout != "2006/01/02" {
			pre = append(pre, "--date-format", layout)
		}
		ref := run.Exec(c.HR, append(append(append([]string{}, pre...), "-l", "logr.yaml"), "summary", arg), run.ExecOpts{Dir: dir, Env: map[string]string{"TZ": "UTC"}})
		fmtD := func(d gen.Date) string {
			if layout != "2006/01/02" {
				return d.Format("2006/01/02") + " 00:00"
			}
			return d.Format("2006/01/02")
		}
		// the day named to summary is the selection, whatever period the global flags name
		periods := [][]string{nil, {"-b", fmtD(d0.AddDays(2))}, {"-e", fmtD(d0)}, {"-b", fmtD(d0.AddDays(2)), "-e", fmtD(d0.AddDays(2))}, {"--begin", fmtD(d0.AddDays(1)), "--end", fmtD(d0.AddDays(1))}, {"-b", fmtD(d0.AddDays(-30)), "-e", fmtD(d0.AddDays(30))}}
		for zi, z := range zones {
			for pi, period := range periods {
				if pi > 0 && (pi+zi)%3 != 0 {
					continue
				}
				args := append(append(append(append([]string{}, pre...), "-l", "log.yaml"), period...), "summary", arg)
				what := fmt.Sprintf("summary %q without --today", arg)
				if pi == len(periods)-1 {
					// and through a keyword
					args = append(append(append(append([]string{}, pre...), "-l", "log.yaml", "--today", fmtD(d0.AddDays(2))), "-b", "today"), "summary", "yesterday")
					what = fmt.Sprintf("--today %s -b today summary yesterday", fmtD(d0.AddDays(2)))
				} else if pi > 0 {
					what = fmt.Sprintf("%s summary %q", joinArgs(period), arg)
					c.Count("runs_summary_under_a_global_period", 1)
				}
				res := run.Exec(c.HR, args, run.ExecOpts{Dir: dir, Env: map[string]string{"TZ": z}})
				c.Eval(2)
				c.Count("runs_summary_without_today", 1)
				c.Nontrivial("summary-no-today", z, fmt.Sprint(li, pi))
				if res.Out != ref.Out || res.Exit != ref.Exit || ref.Exit != 0 {
					sig := "summary|day-selection"
					if pi > 0 {
						sig = "summary|day-selection-under-a-global-period"
					}
					c.Violation(sig, fmt.Sprintf("%s, TZ=%s, layout %q: differs from the summary of the log restricted to that calendar day", what, z, layout),
						caseDoc{Files: files, Args: args, Env: map[string]string{"TZ": z}, Expected: resDoc(ref), Observed: resDoc(res)})
				}
			}
		}
	}
}

// c06SubSecond: headings and bounds that differ only in the fraction of a second (the time package accepts a
// fraction after the seconds of a layout that has none): the comparison is between instants, not whole seconds.
func c06SubSecond(c *core.Ctx, cmds [][]string) {
	dir := filepath.Join(c.Work, "subsecond")
	for li, layout := range []string{"2006/01/02 15:04:05", "2006/01/02 15:04:05.000"} {
		stamps := []string{"2021/01/01 10:00:00", "2021/01/01 10:00:00.250", "2021/01/01 10:00:00.500", "2021/01/01 10:00:00.750", "2021/01/01 10:00:01", "2021/01/02 09:59:59.999"}
		if li == 1 {
			stamps[0], stamps[4] = "2021/01/01 10:00:00.000", "2021/01/01 10:00:01.000"
		}
		block := func(k int) string { return fmt.Sprintf("%s:\n  food%d: %d\n", stamps[k], k, k+1) }
		full := ""
		for k := range stamps {
			full += block(k)
		}
		for bi := -1; bi < len(stamps); bi++ {
			for ei := -1; ei < len(stamps); ei++ {
				if bi < 0 && ei < 0 {
					continue
				}
				sel := ""
				var period []string
				for k := range stamps {
					if (bi < 0 || k >= bi) && (ei < 0 || k <= ei) {
						sel += block(k)
					}
				}
				if bi >= 0 {
					period = append(period, "-b", stamps[bi])
				}
				if ei >= 0 {
					period = append(period, "-e", stamps[ei])
				}
				files := map[string]string{"food.yaml": c06Book, "log.yaml": full, "logr.yaml": sel}
				run.WriteFiles(dir, files)
				for _, cmd := range cmds {
					if (bi+ei+len(cmd[0]))%2 == 0 && c.Quick() && len(cmds) > 1 {
						continue
					}
					pre := []string{"--no-color", "-d", "food.yaml", "--date-format", layout}
					ref := run.Exec(c.HR, append(append(append([]string{}, pre...), "-l", "logr.yaml"), cmd...), run.ExecOpts{Dir: dir})
					args := append(append(append(append([]string{}, pre...), "-l", "log.yaml"), period...), cmd...)
					res := run.Exec(c.HR, args, run.ExecOpts{Dir: dir, Env: map[string]string{"TZ": c06Zones[(bi+ei+4)%4]}})
					c.Eval(2)
					c.Count("runs_sub_second", 1)
					c.Nontrivial("subsecond", fmt.Sprint(li, bi, ei), cmd[0])
					if ref.Exit != 0 || res.Exit != ref.Exit || res.Out != ref.Out {
						c.Violation(strings.Join(cmd, " ")+"|sub-second-selection", fmt.Sprintf("%s %s under layout %q: output differs from the same command on the log restricted to the headings between the bounds", joinArgs(period), joinArgs(cmd), layout),
							caseDoc{Files: files, Args: args, Expected: resDoc(ref), Observed: resDoc(res)})
					}
				}
			}
		}
	}
}

// c06SummaryLastSecond: summary DATE takes the whole calendar day, up to its last instant.
func c06SummaryLastSecond(c *core.Ctx, zones []string) {
	dir := filepath.Join(c.Work, "summary-last-second")
	for li, layout := range []string{"2006/01/02 15:04:05.000", "2006/01/02 15:04:05", "2006/01/02 15:04:05.000000000"} {
		stamps := []string{"2021/03/04 23:59:59.999", "2021/03/05 00:00:00", "2021/03/05 12:00:00", "2021/03/05 23:59:59", "2021/03/05 23:59:59.250", "2021/03/05 23:59:59.999", "2021/03/06 00:00:00"}
		if li == 0 {
			stamps[1], stamps[2], stamps[3], stamps[6] = "2021/03/05 00:00:00.000", "2021/03/05 12:00:00.000", "2021/03/05 23:59:59.000", "2021/03/06 00:00:00.000"
		}
		if li == 2 {
			for k := range stamps {
				if !strings.Contains(stamps[k], ".") {
					stamps[k] += ".000000000"
				} else {
					stamps[k] += "999999"
				}
			}
		}
		block := func(k int) string { return fmt.Sprintf("%s:\n  food%d: %d\n", stamps[k], k, k+1) }
		full, day := "", ""
		order := []int{3, 0, 5, 1, 6, 4, 2}
		for _, k := range order {
			full += block(k)
			if k >= 1 && k <= 5 {
				day += block(k)
			}
		}
		files := map[string]string{"food.yaml": c06Book, "log.yaml": full, "logr.yaml": day}
		run.WriteFiles(dir, files)
		pre := []string{"--no-color", "-d", "food.yaml", "--date-format", layout}
		arg := stamps[2]
		ref := run.Exec(c.HR, append(append(append([]string{}, pre...), "-l", "logr.yaml"), "summary", arg), run.ExecOpts{Dir: dir, Env: map[string]string{"TZ": "UTC"}})
		for _, z := range zones {
			args := append(append(append([]string{}, pre...), "-l", "log.yaml"), "summary", arg)
			res := run.Exec(c.HR, args, run.ExecOpts{Dir: dir, Env: map[string]string{"TZ": z}})
			c.Eval(2)
			c.Count("runs_summary_last_second", 1)
			c.Nontrivial("summary-last-second", z, fmt.Sprint(li))
			// the reference run is made by the same program: also count the headings of the day directly
			missing := ""
			for k := range stamps {
				has := strings.Contains(res.Out, fmt.Sprintf("food%d", k))
				if (k >= 1 && k <= 5) != has {
					missing += fmt.Sprintf(" food%d(%s):shown=%v", k, stamps[k], has)
				}
			}
			if ref.Exit != 0 || res.Exit != ref.Exit || res.Out != ref.Out || missing != "" {
				c.Violation("summary|last-second-of-the-day", fmt.Sprintf("summary %q under layout %q, TZ=%s: differs from the summary of the log restricted to the five headings of that calendar day (00:00:00 ... 23:59:59.999)%s", arg, layout, z, missing),
					caseDoc{Files: files, Args: args, Env: map[string]string{"TZ": z}, Expected: resDoc(ref), Observed: resDoc(res)})
			}
		}
	}
}

// c06NaturalLanguage: a bound that is neither a date in the layout nor a keyword is read as a phrase relative to
// the clock ("2 weeks ago"); "last N units" and "N units ago" name the same instant. The log is written relative to
// the current date, with days far from every bound, so the selection is known without knowing the time of day.
func c06NaturalLanguage(c *core.Ctx) {
	now := time.Now().UTC()
	if now.Hour() == 23 && now.Minute() >= 55 || now.Hour() == 0 && now.Minute() < 2 {
		c.Count("natural_language_skipped_near_midnight", 1)
		return
	}
	today := gen.Date{Y: now.Year(), M: int(now.Month()), D: now.Day()}
	offsets := []int{400, 100, 45, 20, 10, 5, 1}
	var sb strings.Builder
	for _, o := range offsets {
		fmt.Fprintf(&sb, "%s:\n  food%d: 1\n", today.AddDays(-o).Format("2006/01/02"), o)
	}
	dir := filepath.Join(c.Work, "natural")
	files := map[string]string{"log.yaml": sb.String(), "food.yaml": c06Book}
	run.WriteFiles(dir, files)
	for _, ph := range []struct {
		n    int
		unit string
		days int // the phrase reaches this many days back (0: months/years, only the two spellings are compared)
	}{{2, "weeks", 14}, {3, "days", 3}, {14, "days", 14}, {8, "days", 8}, {1, "week", 7}, {12, "weeks", 84}, {2, "months", 0}, {1, "year", 0}, {30, "days", 30}, {7, "days", 7}} {
		outs := map[string]string{}
		var argsSeen [][]string
		for _, phrase := range []string{fmt.Sprintf("last %d %s", ph.n, ph.unit), fmt.Sprintf("%d %s ago", ph.n, ph.unit)} {
			for _, cmd := range [][]string{{"csv", "log"}, {"reg"}} {
				args := append([]string{"--no-color", "-d", "food.yaml", "-l", "log.yaml", "-b", phrase}, cmd...)
				res := run.Exec(c.HR, args, run.ExecOpts{Dir: dir, Env: map[string]string{"TZ": "UTC"}})
				c.Eval(1)
				c.Count("runs_natural_language_bounds", 1)
				c.Nontrivial("natural", phrase, cmd[0])
				argsSeen = append(argsSeen, args)
				key := cmd[0]
				if prev, ok := outs[key]; ok && (prev != res.Out || res.Exit != 0) {
					c.Violation(strings.Join(cmd, " ")+"|natural-language-bound", fmt.Sprintf("-b %q and -b %q select different days", fmt.Sprintf("last %d %s", ph.n, ph.unit), phrase),
						caseDoc{Files: files, Args: args, Note: "the log is written relative to the current date", Expected: prev, Observed: resDoc(res)})
				}
				outs[key] = res.Out
				if ph.days > 0 && cmd[0] == "csv" {
					bad := ""
					for _, o := range offsets {
						shown := strings.Contains(res.Out, fmt.Sprintf("food%d,", o))
						if o != ph.days && shown != (o < ph.days) {
							bad += fmt.Sprintf(" food%d(%d days back):shown=%v", o, o, shown)
						}
					}
					if bad != "" || res.Exit != 0 {
						c.Violation("csv log|natural-language-bound", fmt.Sprintf("-b %q: exit %d,%s", phrase, res.Exit, bad), caseDoc{Files: files, Args: args, Note: "the log is written relative to the current date", Observed: resDoc(res)})
					}
				}
			}
		}
		_ = argsSeen
	}
}

func ds(d *gen.Date) string {
	if d == nil {
		return "-"
	}
	return d.ISO()
}

// c06HashTwins: two different headings of one log whose texts collide under a common 32-bit hash (FNV-1a, FNV-1,
// CRC-32, Adler-32, found by searching all dates of the years 1..9999), one on each side of a period bound: they are
// different days all the same.
func c06HashTwins(c *core.Ctx) {
	dir := filepath.Join(c.Work, "hash-twins")
	type hf struct {
		name string
		sum  func(string) uint32
	}
	hs := []hf{
		{"FNV-1a", func(s string) uint32 { h := fnv.New32a(); h.Write([]byte(s)); return h.Sum32() }},
		{"FNV-1", func(s string) uint32 { h := fnv.New32(); h.Write([]byte(s)); return h.Sum32() }},
		{"CRC-32", func(s string) uint32 { return crc32.ChecksumIEEE([]byte(s)) }},
		{"Adler-32", func(s string) uint32 { return adler32.Checksum([]byte(s)) }},
	}
	var dates []string
	for d := time.Date(1, 1, 1, 0, 0, 0, 0, time.UTC); d.Year() <= 9999; d = d.AddDate(0, 0, 1) {
		dates = append(dates, d.Format("2006/01/02"))
	}
	for _, h := range hs {
		seen := make(map[uint32]int32, len(dates))
		found := 0
		for i, ds := range dates {
			k := h.sum(ds)
			j, ok := seen[k]
			if !ok {
				seen[k] = int32(i)
				continue
			}
			if found++; found > 3 {
				break
			}
			a, b := dates[j], ds // a is the earlier date
			mid := dates[(int(j)+i)/2]
			block := func(d string, n int) string { return fmt.Sprintf("%s:\n  food%d: %d\n", d, n, n) }
			// the earlier date stands later in the file, so that whatever is remembered for the first is applied to the second
			full := block(b, 1) + block(mid, 2) + block(a, 3)
			for _, pc := range []struct {
				period []string
				sel    string
			}{{[]string{"-e", mid}, block(mid, 2) + block(a, 3)}, {[]string{"-b", mid}, block(b, 1) + block(mid, 2)}, {[]string{"-b", a, "-e", a}, block(a, 3)}} {
				files := map[string]string{"log.yaml": full, "logr.yaml": pc.sel}
				run.WriteFiles(dir, files)
				for _, cmd := range [][]string{{"print"}, {"reg"}, {"csv", "log"}} {
					ref := run.Exec(c.HR, append([]string{"--no-color", "--no-database", "-l", "logr.yaml"}, cmd...), run.ExecOpts{Dir: dir})
					args := append(append([]string{"--no-color", "--no-database", "-l", "log.yaml"}, pc.period...), cmd...)
					res := run.Exec(c.HR, args, run.ExecOpts{Dir: dir})
					c.Eval(2)
					c.Count("runs_on_headings_that_collide_under_a_32_bit_hash", 1)
					c.Nontrivial("hash-twins", h.name, a, b, joinArgs(pc.period), cmd[0])
					if ref.Exit != 0 || res.Exit != 0 || res.Out != ref.Out {
						c.Violation(strings.Join(cmd, " ")+"|selection-with-colliding-headings", fmt.Sprintf("%s %s: headings %s and %s collide under %s; output differs from the same command on the log restricted to the period", joinArgs(pc.period), joinArgs(cmd), a, b, h.name),
							caseDoc{Files: files, Args: args, Expected: resDoc(ref), Observed: resDoc(res)})
					}
				}
			}
		}
		c.Count("hash_twin_pairs_"+strings.ReplaceAll(h.name, "-", "_"), min(found, 3))
	}
}

// c06SummaryOnClockChangeDays: summary DATE where DATE and the headings carry the offset of the process zone on a
// day that is 23 or 25 hours long there: the day summarised is that civil day - not the first hour of the next,
// and all of its last hour.
func c06SummaryOnClockChangeDays(c *core.Ctx) {
	dir := filepath.Join(c.Work, "clock-change-days")
	type cs struct {
		tz, layout string
		heads      []string // headings of the log, in file order
		date       string   // argument of summary
		in         []int    // indices of the headings that belong to that day
	}
	cases := []cs{
		{"Europe/Berlin", "2006/01/02 -0700", []string{"2021/03/27 +0100", "2021/03/28 +0100", "2021/03/29 +0200"}, "2021/03/28 +0100", []int{1}},
		{"Europe/Berlin", "2006/01/02 15:04 -0700", []string{"2021/03/27 23:30 +0100", "2021/03/28 00:10 +0100", "2021/03/28 23:50 +0200", "2021/03/29 00:30 +0200"}, "2021/03/28 00:00 +0100", []int{1, 2}},
		{"Europe/Berlin", "2006/01/02 15:04 -0700", []string{"2021/10/30 23:30 +0200", "2021/10/31 00:30 +0200", "2021/10/31 23:30 +0100", "2021/11/01 00:30 +0100"}, "2021/10/31 00:00 +0200", []int{1, 2}},
		{"America/New_York", "2006/01/02 15:04 -0700", []string{"2021/03/14 00:30 -0500", "2021/03/14 23:30 -0400", "2021/03/15 00:30 -0400"}, "2021/03/14 00:00 -0500", []int{0, 1}},
		{"America/New_York", "2006/01/02 15:04 -0700", []string{"2021/11/07 00:30 -0400", "2021/11/07 23:30 -0500", "2021/11/08 00:30 -0500"}, "2021/11/07 00:00 -0400", []int{0, 1}},
		{"Australia/Lord_Howe", "2006/01/02 15:04 -0700", []string{"2021/10/03 00:10 +1030", "2021/10/03 23:50 +1100", "2021/10/04 00:10 +1100"}, "2021/10/03 00:00 +1030", []int{0, 1}},
	}
	for ci, k := range cases {
		if _, err := os.Stat(filepath.Join("/usr/share/zoneinfo", k.tz)); err != nil {
			continue
		}
		full, sel := "", ""
		isIn := map[int]bool{}
		for _, x := range k.in {
			isIn[x] = true
		}
		for hi, h := range k.heads {
			b := fmt.Sprintf("%s:\n  food%d: %d\n", h, hi, hi+1)
			full += b
			if isIn[hi] {
				sel += b
			}
		}
		files := map[string]string{"log.yaml": full, "logr.yaml": sel}
		run.WriteFiles(dir, files)
		env := map[string]string{"TZ": k.tz}
		pre := []string{"--no-color", "--no-database", "--date-format", k.layout}
		ref := run.Exec(c.HR, append(append(append([]string{}, pre...), "-l", "logr.yaml"), "summary", k.date), run.ExecOpts{Dir: dir, Env: env})
		args := append(append(append([]string{}, pre...), "-l", "log.yaml"), "summary", k.date)
		res := run.Exec(c.HR, args, run.ExecOpts{Dir: dir, Env: env})
		c.Eval(2)
		c.Count("summaries_of_days_of_23_or_25_hours", 1)
		c.Nontrivial("clock-change", fmt.Sprint(ci))
		if ref.Exit != 0 || res.Exit != 0 || res.Out != ref.Out {
			c.Violation("summary|day-window-on-a-clock-change-day", fmt.Sprintf("TZ=%s summary %q differs from the summary of the log reduced to the %d records of that civil day (headings %v)", k.tz, k.date, len(k.in), k.heads),
				caseDoc{Files: files, Args: args, Env: env, Expected: resDoc(ref), Observed: resDoc(res)})
		}
	}
}
