package checks

import (
	"verif/harness/gen"
)

// The thorough tier's larger structure space: four recipes; each recipe refers to any subset of the
// four recipe names and optionally to the basic name x (32 choices per recipe, 32^4 = 1048576 books).
var struct4Names = [4]string{"ra", "rb", "rc", "rd"}

var struct4Primes = [4][5]int{{2, 3, 5, 7, 11}, {13, 17, 19, 23, 29}, {31, 37, 41, 43, 47}, {53, 59, 61, 67, 71}}

func struct4Book(s int) gen.Book {
	b := make(gen.Book, 4)
	for i := 0; i < 4; i++ {
		b[i].Name = struct4Names[i]
		bits := s >> (5 * i) & 31
		for j := 0; j < 4; j++ {
			if bits>>j&1 == 1 {
				b[i].Ents = append(b[i].Ents, gen.Ent{Name: struct4Names[j], Val: gen.Half(2 * struct4Primes[i][j])})
			}
		}
		if bits>>4&1 == 1 {
			b[i].Ents = append(b[i].Ents, gen.Ent{Name: "x", Val: gen.Half(struct4Primes[i][4])})
		}
	}
	return b
}

var perms4 = func() [][]int {
	var out [][]int
	var rec func(cur []int, used int)
	rec = func(cur []int, used int) {
		if len(cur) == 4 {
			out = append(out, append([]int{}, cur...))
			return
		}
		for i := 0; i < 4; i++ {
			if used>>i&1 == 0 {
				rec(append(cur, i), used|1<<i)
			}
		}
	}
	rec(nil, 0)
	return out
}()
