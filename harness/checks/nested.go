package checks

import (
	"fmt"
	"math/rand"
	"path/filepath"
	"strings"

	"verif/harness/core"
	"verif/harness/gen"
	"verif/harness/run"
)

// nestedReports: two reports alive in one process. Report A is started, and when it first touches one of its
// files a complete report B - other files, another date layout, other presentation options - runs from start
// to end inside it (hook: fault job with a nested job); then A goes on. Each of the two must come out exactly
// as when it runs alone: a report is decided by its own inputs and options, not by what else the process is
// doing. shapes draws the command of a report; prop-specific callers restrict it to the reports they speak of.
func nestedReports(c *core.Ctx, pool *run.Pool, n int, shapes func(r *rand.Rand, w *World) []string) {
	layouts := []string{"2006/01/02", "02.01.2006", "2006-01-02", "Jan 2 2006", "2006/01/02 15:04"}
	rename := func(files map[string]string, suffix string) map[string]string {
		out := map[string]string{}
		for k, v := range files {
			out[strings.Replace(k, ".", suffix+".", 1)] = v
		}
		return out
	}
	core.ParallelFor(n, c.Procs, func(wk, i int) {
		srv := pool.Servers[wk]
		r := c.Rng("nested", i)
		var ws [2]*World
		var args [2][]string
		files := map[string]string{}
		for k := 0; k < 2; k++ {
			w := newWorld(r, worldOpts{Exact: i%2 == 0, MinDays: 1, MaxDays: 4, Notes: true, NoBig: true, Layout: layouts[r.Intn(len(layouts))], AltComment: true})
			ws[k] = w
			sfx := []string{"A", "B"}[k]
			for name, text := range rename(w.Files(), sfx) {
				files[name] = text
			}
			a := []string{"-d", "food" + sfx + ".yaml", "-l", "log" + sfx + ".yaml", "--date-format", w.Layout}
			if w.Conf != "" {
				a = append([]string{"--config", "hr" + sfx + ".conf"}, a...)
			}
			if r.Intn(3) > 0 {
				a = append(a, "--no-color")
			}
			if r.Intn(3) == 0 {
				a = append(a, "--maxdepth", fmt.Sprint(12+r.Intn(5)))
			}
			args[k] = append(a, shapes(r, w)...)
		}
		srv.Write(files)
		soloA := srv.Fault(run.FaultJob{Args: args[0], SinkLimit: -1}, nil)
		soloB := srv.Fault(run.FaultJob{Args: args[1], SinkLimit: -1}, nil)
		c.Eval(2)
		if soloA.Died != "" || soloB.Died != "" {
			c.Violation("nested|crash", clip(soloA.Died+soloB.Died, 300), caseDoc{Files: files, Args: args[0], Extra: map[string]any{"args_b": args[1]}})
			return
		}
		for at := 0; at < 2; at++ {
			b := run.FaultJob{Args: args[1], SinkLimit: -1}
			both := srv.Fault(run.FaultJob{Args: args[0], SinkLimit: -1, Nested: &b, NestedAt: at}, nil)
			c.Eval(1)
			if both.Nested == nil {
				// the outer command never opened a file number `at` (a command that reads one file only, or failed earlier)
				c.Count("nested_not_reached", 1)
				continue
			}
			c.Count("nested_pairs", 1)
			c.Count("nested_pairs_at_file_"+fmt.Sprint(at), 1)
			if len(soloA.Out) > 0 && len(soloB.Out) > 0 {
				c.Nontrivial("nested", joinArgs(args[0]), joinArgs(args[1]), files["foodA.yaml"], files["logA.yaml"], fmt.Sprint(at))
			}
			doc := func(exp, got run.FaultRes) caseDoc {
				return caseDoc{Files: files, Args: args[0], Note: fmt.Sprintf("outer report: args; nested report (run from start to end when the outer one first reads its file number %d): %s", at, joinArgs(args[1])),
					Expected: map[string]any{"exit": exp.Exit, "out": clip(exp.Out, 4000), "err": exp.Err}, Observed: map[string]any{"exit": got.Exit, "out": clip(got.Out, 4000), "err": got.Err, "panic": clip(got.Panic, 2000)},
					Extra: map[string]any{"args_nested": args[1], "nested_at": at}}
			}
			cmdName := func(a []string, w *World) string {
				for k, x := range a {
					if x == "--date-format" {
						rest := a[k+2:]
						for len(rest) > 0 && strings.HasPrefix(rest[0], "-") {
							if rest[0] == "--maxdepth" {
								rest = rest[1:]
							}
							rest = rest[1:]
						}
						if len(rest) > 0 {
							return rest[0]
						}
					}
				}
				return "report"
			}
			if both.Died != "" || both.Panic != "" {
				c.Violation(cmdName(args[0], ws[0])+"|crash-with-a-second-report-alive", clip(both.Died+both.Panic, 300), doc(soloA, both))
				continue
			}
			if both.Out != soloA.Out || both.Exit != soloA.Exit {
				c.Violation(cmdName(args[0], ws[0])+"|differs-with-a-second-report-alive", fmt.Sprintf("%s: exit %d, %d bytes alone; exit %d, %d bytes when `%s` runs inside it (at the first read of file %d)", joinArgs(args[0]), soloA.Exit, len(soloA.Out), both.Exit, len(both.Out), joinArgs(args[1]), at), doc(soloA, both))
			}
			if both.Nested.Out != soloB.Out || both.Nested.Exit != soloB.Exit {
				c.Violation(cmdName(args[1], ws[1])+"|differs-inside-another-report", fmt.Sprintf("%s: exit %d, %d bytes alone; exit %d, %d bytes when run inside `%s` (at the first read of file %d)", joinArgs(args[1]), soloB.Exit, len(soloB.Out), both.Nested.Exit, len(both.Nested.Out), joinArgs(args[0]), at), doc(soloB, *both.Nested))
			}
		}
	})
}

// nestedAnyShape: every command of the catalogue.
func nestedAnyShape(r *rand.Rand, w *World) []string {
	el, food := "kcal", "a"
	if len(w.Basics) > 0 {
		el = w.Basics[r.Intn(len(w.Basics))]
	}
	if len(w.Recipes) > 0 {
		food = string([]rune(w.Recipes[0])[:1])
	}
	date := gen.Date{Y: 2021, M: 3, D: 1}
	if len(w.Log) > 0 {
		date = w.Log[r.Intn(len(w.Log))].Date
	}
	return randomCmd(r, el, food, date.Format(w.Layout)).Args
}

// nestedRegShape: the register in its renderers and presentation options.
func nestedRegShape(r *rand.Rand, w *World) []string {
	for {
		if a := nestedAnyShape(r, w); a[0] == "reg" {
			return a
		}
	}
}

// reusedApp: a caller that builds the application once and calls Run on that one value for every request (hook:
// jobs with reuse). Every request is also served by a freshly built application; the two must agree - what an
// earlier request was given (a period, --today, a date layout, a depth limit, presentation switches) does not
// reach a later one. No environment variables here: the CLI library itself keeps values taken from variables
// in the flag objects of an application value. shapes draws the command; decorate adds global flags.
func reusedApp(c *core.Ctx, pool *run.Pool, n int, shapes func(r *rand.Rand, w *World) []string) {
	layouts := []string{"2006/01/02", "2006/01/02", "02.01.2006", "2006-01-02"}
	core.ParallelFor(n, c.Procs, func(wk, i int) {
		srv := pool.Servers[wk]
		r := c.Rng("reused", i)
		w := newWorld(r, worldOpts{Exact: i%2 == 0, MinDays: 2, MaxDays: 6, Notes: true, NoBig: true, Layout: layouts[r.Intn(len(layouts))], AltComment: true})
		srv.Write(w.Files())
		for k := 0; k < 4; k++ {
			args := w.base()
			if w.Layout != "2006/01/02" {
				args = append(args, "--date-format", w.Layout)
			}
			day := func() string { return w.Log[r.Intn(len(w.Log))].Date.Format(w.Layout) }
			if r.Intn(3) == 0 {
				args = append(args, "-b", day())
			}
			if r.Intn(3) == 0 {
				args = append(args, "-e", day())
			}
			if r.Intn(3) == 0 {
				args = append(args, "--today", day())
			}
			if r.Intn(4) == 0 {
				args = append(args, "--maxdepth", fmt.Sprint(1+r.Intn(12)))
			}
			args = append(args, shapes(r, w)...)
			fresh := srv.App1(args, nil)
			reused := srv.AppReused(args)
			c.Eval(2)
			c.Count("requests_served_by_one_application_value", 1)
			if len(fresh.Out) > 0 {
				c.Nontrivial("reused", joinArgs(args), w.BookText, w.LogText)
			}
			if fresh.Panic != "" || reused.Panic != "" {
				c.Violation(shapeName(args)+"|crash-on-a-reused-application", clip(fresh.Panic+reused.Panic, 300), caseDoc{Files: w.Files(), Args: args})
				return
			}
			if fresh.Out != reused.Out || fresh.Exit != reused.Exit || fresh.Err != reused.Err {
				c.Violation(shapeName(args)+"|depends-on-earlier-requests", fmt.Sprintf("%s: exit %d, %d bytes from a freshly built application; exit %d, %d bytes (%s) from the application value that served other requests before", joinArgs(args), fresh.Exit, len(fresh.Out), reused.Exit, len(reused.Out), clip(reused.Err, 120)),
					caseDoc{Files: w.Files(), Args: args, Note: "second run: on the one App value the job server keeps for such requests; it has served other requests (other periods, layouts, limits, switches) before", Expected: resDoc(fresh), Observed: resDoc(reused)})
			}
		}
	})
}

// shapeName: the command word of an argument list built by World.base plus decorations.
func shapeName(args []string) string {
	cmds := map[string]bool{"reg": true, "bal": true, "summary": true, "report": true, "csv": true, "print": true, "stats": true, "lint": true}
	for k, a := range args {
		if cmds[a] {
			if (a == "report" || a == "csv") && k+1 < len(args) {
				return a + " " + args[k+1]
			}
			return a
		}
	}
	return "report"
}

// nestedBalShape: the balance in its display modes.
func nestedBalShape(r *rand.Rand, w *World) []string {
	for {
		if a := nestedAnyShape(r, w); a[0] == "bal" {
			return a
		}
	}
}

// nestedLogShape: the commands that show the days of a period.
func nestedLogShape(r *rand.Rand, w *World) []string {
	for {
		if a := nestedAnyShape(r, w); a[0] == "reg" || a[0] == "print" || a[0] == "csv" || a[0] == "bal" || a[0] == "report" {
			return a
		}
	}
}

// parallelReports: several reports produced side by side in one process - a caller that serves requests in
// goroutines. The program is built with the race detector for this part (check.sh, VERIF_HR_RACE) and the jobs
// of a group are lined up at their first file read (hook: parallel fault jobs), so from there on parsing,
// resolving, accumulating and rendering of different, unrelated inputs really overlap. Two monitors: every
// report equals the one the same job gives alone, and the race detector's log stays empty for the repository's
// packages (reports are de-duplicated by their outermost frames).
func parallelReports(c *core.Ctx, n int, shapes func(r *rand.Rand, w *World) []string) {
	if c.HRRace == "" {
		c.Inconclusive("parallel-reports", "the race-detector build of the program is not available")
		return
	}
	layouts := []string{"2006/01/02", "02.01.2006", "2006-01-02"}
	nsrv := min(4, c.Procs)
	var srvs []*run.Server
	for k := 0; k < nsrv; k++ {
		s, err := run.NewServer(c.HRRace, filepath.Join(c.Work, fmt.Sprintf("parallel-srv%d", k)))
		if err != nil {
			c.HarnessError("cannot start the race-detector build of the job server: " + err.Error())
			return
		}
		s.ExtraEnv = []string{"GORACE=halt_on_error=0 exitcode=0 log_path=" + filepath.Join(c.Work, "race")}
		srvs = append(srvs, s)
		defer s.Close()
	}
	core.ParallelFor(n, nsrv, func(wk, i int) {
		srv := srvs[wk]
		r := c.Rng("parallel", i)
		group := 3 + r.Intn(4)
		files := map[string]string{}
		var jobs []run.FaultJob
		for k := 0; k < group; k++ {
			// long enough for the reports to overlap: worlds of up to 30 days, repeated
			w := newWorld(r, worldOpts{Exact: i%2 == 0, MinDays: 4, MaxDays: 8, Notes: true, NoBig: true, Layout: layouts[r.Intn(len(layouts))]})
			sfx := fmt.Sprint(k)
			logText := strings.Repeat(w.LogText, 6)
			files["food"+sfx+".yaml"], files["log"+sfx+".yaml"] = w.BookText, logText
			a := []string{"-d", "food" + sfx + ".yaml", "-l", "log" + sfx + ".yaml", "--date-format", w.Layout, "--no-color"}
			jobs = append(jobs, run.FaultJob{Args: append(a, shapes(r, w)...), SinkLimit: -1})
		}
		srv.Write(files)
		var solo []run.FaultRes
		for _, j := range jobs {
			solo = append(solo, srv.Fault(j, nil))
		}
		both := srv.Fault(run.FaultJob{Parallel: jobs}, nil)
		c.Eval(len(jobs) + 1)
		if both.Died != "" || len(both.Parallel) != len(jobs) {
			c.Violation("parallel|crash", fmt.Sprintf("the process running %d reports side by side died or answered short: %s", len(jobs), clip(both.Died, 400)), caseDoc{Files: files, Extra: map[string]any{"jobs": jobs}})
			return
		}
		c.Count("groups_of_reports_side_by_side", 1)
		c.Count("reports_run_side_by_side", len(jobs))
		for k := range jobs {
			if len(solo[k].Out) > 0 {
				c.Nontrivial("parallel", joinArgs(jobs[k].Args), files[fmt.Sprintf("log%d.yaml", k)])
			}
			got := both.Parallel[k]
			if got.Panic != "" {
				c.Violation(shapeName(jobs[k].Args)+"|crash-side-by-side", clip(got.Panic, 400), caseDoc{Files: files, Args: jobs[k].Args, Extra: map[string]any{"jobs": jobs}})
				continue
			}
			if got.Out != solo[k].Out || got.Exit != solo[k].Exit {
				c.Violation(shapeName(jobs[k].Args)+"|differs-side-by-side", fmt.Sprintf("%s: exit %d, %d bytes alone; exit %d, %d bytes when %d other reports on unrelated inputs run in the same process at the same time", joinArgs(jobs[k].Args), solo[k].Exit, len(solo[k].Out), got.Exit, len(got.Out), len(jobs)-1),
					caseDoc{Files: files, Args: jobs[k].Args, Expected: map[string]any{"exit": solo[k].Exit, "out": clip(solo[k].Out, 3000)}, Observed: map[string]any{"exit": got.Exit, "out": clip(got.Out, 3000), "err": got.Err}, Extra: map[string]any{"jobs": jobs}})
			}
		}
	})
	for _, s := range srvs {
		c.Count("l2_race_build_jobs", s.Jobs)
		c.Count("l2_race_build_process_deaths", s.Deaths)
	}
	raceLogs(c, "reports run side by side in one process (race-detector build of the program)")
}

// nestedCsvShape: the three exports.
func nestedCsvShape(r *rand.Rand, w *World) []string {
	return [][]string{{"csv", "log"}, {"csv", "database"}, {"csv", "database-resolved"}}[r.Intn(3)]
}
