package checks

import (
	"fmt"
	"math/big"
	"strings"
	"time"

	"verif/harness/core"
	"verif/harness/gen"
	"verif/harness/obs"
	"verif/harness/run"
)

func init() {
	register(&Check{ID: "C12", Level: "exploration", Run: runC12})
}

// amount maps of the period reports: key -> values (1 for bal/quantity, 3 for totals)
func periodMap(cmd []string, out string) (map[string][]*big.Rat, error) {
	m := map[string][]*big.Rat{}
	switch cmd[0] {
	case "bal":
		b, err := obs.ParseBal(out)
		if err != nil {
			return nil, err
		}
		paths, _, err := obs.BalPaths(b.Rows)
		if err != nil {
			return nil, err
		}
		for i, p := range paths {
			if _, dup := m[p]; dup {
				return nil, fmt.Errorf("path %q printed twice", p)
			}
			m[p] = []*big.Rat{b.Rows[i].Amount}
		}
		if b.HasGrand {
			m["\x00grand"] = []*big.Rat{b.Grand}
		}
	case "report":
		if cmd[1] == "totals" {
			rows, err := obs.ParseTotals(out)
			if err != nil {
				return nil, err
			}
			for _, r := range rows {
				m[r.Name] = []*big.Rat{r.Pos, r.Neg, r.Sum}
			}
		} else {
			rows, err := obs.ParseValTabName(out)
			if err != nil {
				return nil, err
			}
			for _, r := range rows {
				m[r.Name] = []*big.Rat{r.V}
			}
		}
	}
	return m, nil
}

func runC12(c *core.Ctx) {
	c.SetRule("histories: 2-8 day blocks over one shared book (repeated dates, empty days, days that are permutations of one another, dates in any order), every split point i, a third of them additionally under a -b/-e period, every seventh history in a date layout with a zone offset where consecutive blocks can be the same instant under different heading texts; per-day reports (reg in three renderers, reg --totals-only, csv log, print, reg -f P, reg -s X) must satisfy out(B1..Bk) == out(B1..Bi) ++ out(Bi+1..Bk) byte for byte; period reports (bal, bal -s X, report totals, report quantity) must be the element-wise sum of the parts (exact pool: exact; general pool: 3 half-units). Prefix, suffix and whole run back to back in one server process, so state leaking across invocations would show too. Non-trivial = history with >= 3 blocks; distinct = hash(files, split).")
	pool := newPool(c, c.Procs)
	if pool == nil {
		return
	}
	defer pool.Close()
	// in the background: a history that arrives in two parts with half a minute of silence in between is the whole history
	waitPaused := pausedPipes(c, map[string]string{"reg": "log", "bal": "log", "report totals": "log"})
	defer waitPaused()
	perDay := [][]string{{"reg"}, {"reg", "--internal-template-name", "left-aligned"}, {"reg", "--use-old-reg-reporter"}, {"reg", "--totals-only"}, {"csv", "log"}, {"print"}, {"reg", "-f", "P"}, {"reg", "-s", "X"}, {"reg", "-s", "X", "--csv"}, {"reg", "--shorten"}, {"reg", "--shorten", "--internal-template-name", "left-aligned"}, {"reg", "-f", "."}}
	// bal --collapse is not composed: which segments it joins depends on the whole tree, so its row set is
	// not additive over parts (a false alarm of an earlier version of this check, see DESIGN 10.3); C03 covers it
	period := [][]string{{"bal"}, {"bal", "-s", "X"}, {"report", "totals"}, {"report", "quantity"}}
	n := c.N(500, 10000)
	core.ParallelFor(n, c.Procs, func(wk, i int) {
		srv := pool.Servers[wk]
		r := c.Rng("history", i)
		w := newWorld(r, worldOpts{Exact: i%2 == 0, MinDays: 2, MaxDays: 8, Notes: true, Hostile: i%4 == 0})
		// days that are permutations of one another / repeated dates
		if len(w.Log) >= 3 && r.Intn(2) == 0 {
			d := w.Log[0]
			perm := gen.Day{Date: d.Date, Ents: append([]gen.Ent{}, d.Ents...)}
			r.Shuffle(len(perm.Ents), func(a, b int) { perm.Ents[a], perm.Ents[b] = perm.Ents[b], perm.Ents[a] })
			w.Log[len(w.Log)-1] = perm
		}
		// every seventh history is written in a layout with a zone offset: consecutive blocks may then be
		// the same instant under different heading texts (…/02 +1200 and …/01 -1200)
		zoned := i%7 == 3
		var layoutFlags []string
		if zoned {
			offs := []string{"+1200", "-1200", "+0000", "+1400", "-1000", "+0530"}
			for di := range w.Log {
				d := w.Log[di].Date
				off := offs[r.Intn(len(offs))]
				if di > 0 && r.Intn(2) == 0 {
					// same instant as the previous block, different text
					d, off = w.Log[di-1].Date.AddDays(-1), "-1200"
					w.Log[di-1].Head = w.Log[di-1].Date.Format("2006/01/02") + " +1200"
				}
				w.Log[di].Date = d
				w.Log[di].Head = d.Format("2006/01/02") + " " + off
			}
			layoutFlags = []string{"--date-format", "2006/01/02 -0700"}
			c.Count("histories_in_a_zoned_layout", 1)
		}
		// every ninth history carries a name whose zero-width no-break space (the bytes of a byte order mark),
		// or a four-byte rune, sits exactly on the 4096-byte boundary of the whole file (or straddles it): what a
		// reader does at the start of a read chunk then differs between the whole and its parts
		pad := ""
		if i%9 == 4 && len(w.Log) >= 2 && !zoned {
			mark := []string{"\ufeff", "\U0001F375", "\ufeff"}[r.Intn(3)]
			last := len(w.Log) - 1
			w.Log[last].Ents = append([]gen.Ent{{Name: "zw" + mark + "food", Val: gen.N("2")}}, w.Log[last].Ents...)
			text := gen.RenderLog(w.Log, w.Layout, nil)
			at := strings.Index(text, "zw"+mark) + 2
			want := 4096 - []int{0, 0, 1, 2}[r.Intn(4)]
			if k := want - at; k >= 2 {
				pad = "#" + strings.Repeat("p", k-2) + "\n"
				c.Count("histories_with_a_rune_on_the_4096_byte_boundary", 1)
			}
		}
		if i%5 == 2 && len(w.Log) >= 2 {
			// two names that --shorten maps to the same label, first seen in different blocks; names of very different
			// lengths that one regular expression selects (a report that lays out columns over all its rows would show)
			pre := gen.Name(r, gen.NameOpts{MinLen: 14, MaxLen: 14})
			suf := gen.Name(r, gen.NameOpts{MinLen: 14, MaxLen: 14})
			a, b := r.Intn(len(w.Log)), r.Intn(len(w.Log))
			w.Log[a].Ents = append(w.Log[a].Ents, gen.Ent{Name: pre + "/lettuce/" + suf, Val: gen.Half(3)}, gen.Ent{Name: "tea", Val: gen.Half(2)})
			w.Log[b].Ents = append(w.Log[b].Ents, gen.Ent{Name: pre + "/cheddar/" + suf, Val: gen.Half(4)}, gen.Ent{Name: "tea/with milk and sugar", Val: gen.Half(5)})
			c.Count("histories_with_colliding_shortened_names", 1)
		}
		if i%6 == 1 && len(w.Log) >= 2 {
			// recipes whose names differ by trailing digits, logged in amounts whose digits complete each other
			// ("b1" x 25 in one block, "b12" x 5 in another: name and amount written next to each other read the same):
			// two different foods all the same, whatever was reported before
			base := gen.Name(r, gen.NameOpts{MinLen: 2, MaxLen: 8})
			d1, d2, q2 := 1+r.Intn(9), r.Intn(10), 1+r.Intn(9)
			n1, n2 := fmt.Sprintf("%s%d", base, d1), fmt.Sprintf("%s%d%d", base, d1, d2)
			w.Book = append(w.Book, gen.Recipe{Name: n1, Ents: []gen.Ent{{Name: w.Basics[0], Val: gen.Half(3)}}}, gen.Recipe{Name: n2, Ents: []gen.Ent{{Name: w.Basics[len(w.Basics)-1], Val: gen.Half(8)}, {Name: "twin-only", Val: gen.Half(2)}}})
			w.BookText = gen.RenderBook(w.Book, nil)
			a, b := r.Intn(len(w.Log)), r.Intn(len(w.Log))
			w.Log[a].Ents = append(w.Log[a].Ents, gen.Ent{Name: n1, Val: gen.N(fmt.Sprintf("%d%d", d2, q2))})
			w.Log[b].Ents = append(w.Log[b].Ents, gen.Ent{Name: n2, Val: gen.N(fmt.Sprint(q2))})
			c.Count("histories_with_digit_suffixed_twins", 1)
		}
		if i%97 == 13 && len(w.Log) >= 2 {
			// a history with more different foods than any table a report might pre-size (1300 names), the early ones
			// logged again in later blocks
			w.Log[0].Ents = nil
			for k := 0; k < 1300; k++ {
				w.Log[0].Ents = append(w.Log[0].Ents, gen.Ent{Name: fmt.Sprintf("item/%04d", k), Val: gen.Half(2)})
			}
			for di := 1; di < len(w.Log); di++ {
				for k := 0; k < 6; k++ {
					w.Log[di].Ents = append(w.Log[di].Ents, gen.Ent{Name: fmt.Sprintf("item/%04d", (k*211+di*7)%1300), Val: gen.Half(3 + k)})
				}
			}
			c.Count("histories_with_1300_different_foods", 1)
		}
		X := w.Basics[r.Intn(len(w.Basics))]
		P := "a"
		if m := alnumRun.FindString(w.Recipes[0]); m != "" {
			P = m[:1]
		}
		k := len(w.Log)
		render := func(l gen.Log) string { return gen.RenderLog(l, w.Layout, nil) }
		splits := []int{}
		for s := 1; s < k; s++ {
			splits = append(splits, s)
		}
		if c.Quick() && len(splits) > 3 {
			r.Shuffle(len(splits), func(a, b int) { splits[a], splits[b] = splits[b], splits[a] })
			splits = splits[:3]
		}
		for _, s := range splits {
			files := map[string]string{"food.yaml": w.BookText, "whole.yaml": pad + render(w.Log), "pre.yaml": pad + render(w.Log[:s]), "suf.yaml": render(w.Log[s:])}
			srv.Write(files)
			if k >= 3 {
				c.Nontrivial(w.BookText, files["whole.yaml"], fmt.Sprint(s))
			}
			// a third of the histories are composed under a period as well (same flags on whole and parts)
			var periodFlags []string
			if i%3 == 0 && !zoned {
				bd, ed := w.Log[r.Intn(k)].Date, w.Log[r.Intn(k)].Date
				switch r.Intn(3) {
				case 0:
					periodFlags = []string{"-e", ed.Format(w.Layout)}
				case 1:
					periodFlags = []string{"-b", bd.Format(w.Layout)}
				default:
					periodFlags = []string{"-b", bd.Format(w.Layout), "-e", ed.Format(w.Layout)}
				}
				c.Count("compositions_under_a_period", 1)
			}
			runOn := func(logf string, cmd []string) run.Result {
				args := append([]string{"--no-color", "-d", "food.yaml", "-l", logf}, periodFlags...)
				args = append(args, layoutFlags...)
				for _, a := range cmd {
					switch a {
					case "X":
						a = X
					case "P":
						a = P
					}
					args = append(args, a)
				}
				c.Eval(1)
				// the same spelling for the whole and its parts
				return srv.App1(respell(c.Rng("spell", i*31+len(cmd)), args), nil)
			}
			for _, cmd := range perDay {
				pre, suf, whole := runOn("pre.yaml", cmd), runOn("suf.yaml", cmd), runOn("whole.yaml", cmd)
				name := strings.Join(cmd[:min(2, len(cmd))], " ")
				c.Count("per_day_compositions", 1)
				doc := caseDoc{Files: files, Args: cmd, Note: fmt.Sprintf("split after block %d of %d, X=%s P=%s", s, k, X, P), Observed: map[string]any{"prefix": resDoc(pre), "suffix": resDoc(suf), "whole": resDoc(whole)}}
				if pre.Exit != 0 || suf.Exit != 0 || whole.Exit != 0 || pre.Panic+suf.Panic+whole.Panic != "" {
					c.Violation(name+"|fails-on-valid-input", "a part or the whole fails", doc)
					continue
				}
				if whole.Out != pre.Out+suf.Out {
					c.Violation(name+"|not-concatenation", fmt.Sprintf("%s: report of the whole log is not the report of blocks 1..%d followed by the report of blocks %d..%d", joinArgs(cmd), s, s+1, k), doc)
				}
			}
			for _, cmd := range period {
				pre, suf, whole := runOn("pre.yaml", cmd), runOn("suf.yaml", cmd), runOn("whole.yaml", cmd)
				name := strings.Join(cmd[:min(2, len(cmd))], " ")
				c.Count("period_compositions", 1)
				doc := caseDoc{Files: files, Args: cmd, Note: fmt.Sprintf("split after block %d of %d, X=%s", s, k, X), Observed: map[string]any{"prefix": resDoc(pre), "suffix": resDoc(suf), "whole": resDoc(whole)}}
				if pre.Exit != 0 || suf.Exit != 0 || whole.Exit != 0 || pre.Panic+suf.Panic+whole.Panic != "" {
					c.Violation(name+"|fails-on-valid-input", "a part or the whole fails", doc)
					continue
				}
				ma, e1 := periodMap(cmd, pre.Out)
				mb, e2 := periodMap(cmd, suf.Out)
				mw, e3 := periodMap(cmd, whole.Out)
				if e1 != nil || e2 != nil || e3 != nil {
					c.Violation(name+"|unparsable-output", fmt.Sprint(e1, e2, e3), doc)
					continue
				}
				keys := map[string]bool{}
				for k := range ma {
					keys[k] = true
				}
				for k := range mb {
					keys[k] = true
				}
				for k := range mw {
					keys[k] = true
				}
				abs := new(big.Rat)
				for _, vs := range mw {
					for _, v := range vs {
						abs.Add(abs, absRat(v))
					}
				}
				for key := range keys {
					width := 1
					for _, m := range []map[string][]*big.Rat{ma, mb, mw} {
						if len(m[key]) > width {
							width = len(m[key])
						}
					}
					bad := false
					for x := 0; x < width; x++ {
						get := func(m map[string][]*big.Rat) *big.Rat {
							if v, ok := m[key]; ok && x < len(v) {
								return v[x]
							}
							return new(big.Rat)
						}
						sum := new(big.Rat).Add(get(ma), get(mb))
						if w.Exact {
							bad = bad || sum.Cmp(get(mw)) != 0
						} else {
							bad = bad || !tolN(sum, get(mw), 3, 2, abs)
						}
					}
					if bad {
						label := key
						if key == "\x00grand" {
							label = "grand total"
						}
						c.Violation(name+"|not-sum-of-parts", fmt.Sprintf("%s: %q shows %v for the whole log, %v + %v for the parts", joinArgs(cmd), label, ratList(mw[key]), ratList(ma[key]), ratList(mb[key])), doc)
						break
					}
				}
			}
		}
		if i < 2 {
			c.Sample(map[string]any{"food.yaml": clip(w.BookText, 400), "whole log": clip(render(w.Log), 600), "blocks": k, "splits_checked": splits})
		}
	})
	// histories whose headings carry the zone of the place where the log is kept, over years in which that zone
	// changed its rules (Moscow time was +03, then +04, then +03 again; Caracas -04, -0430, -04; Istanbul moved
	// to +03 for good): each day is shown as written, whatever days the log had before it. Real processes
	// under TZ; the per-day reports of the whole are the reports of the parts, one after the other.
	zones := []string{"Europe/Moscow", "America/Caracas", "Europe/Istanbul", "Asia/Pyongyang", "Europe/Berlin", "Pacific/Apia", "Australia/Lord_Howe"}
	for zi := 0; zi < c.N(28, 280); zi++ {
		zone := zones[zi%len(zones)]
		loc, err := time.LoadLocation(zone)
		if err != nil {
			c.Count("zone_histories_skipped_no_zoneinfo", 1)
			continue
		}
		r := c.Rng("zone-history", zi)
		layout := []string{"2006/01/02 MST", "2006/01/02 15:04 -0700", "2006/01/02 15:04 MST", "2006/01/02 -07:00"}[(zi/len(zones))%4]
		var blocks []string
		for k := 0; k < 3+r.Intn(4); k++ {
			t := time.Date(2005+r.Intn(17), time.Month(1+r.Intn(12)), 1+r.Intn(28), 0, 0, 0, 0, loc)
			blocks = append(blocks, fmt.Sprintf("%s:\n  food%d: %d\n  tea: 1.5\n", t.Format(layout), k, 1+k))
		}
		dir := fmt.Sprintf("%s/zone%03d", c.Work, zi)
		s := 1 + r.Intn(len(blocks)-1)
		files := map[string]string{"whole.yaml": strings.Join(blocks, ""), "pre.yaml": strings.Join(blocks[:s], ""), "suf.yaml": strings.Join(blocks[s:], "")}
		run.WriteFiles(dir, files)
		env := map[string]string{"TZ": zone}
		for _, cmd := range [][]string{{"reg"}, {"reg", "--use-old-reg-reporter"}, {"print"}, {"csv", "log"}, {"reg", "-s", "tea"}, {"reg", "-f", "food"}} {
			on := func(f string) run.Result {
				return run.Exec(c.HR, append([]string{"--no-color", "--no-database", "-l", f, "--date-format", layout}, cmd...), run.ExecOpts{Dir: dir, Env: env})
			}
			whole, pre, suf := on("whole.yaml"), on("pre.yaml"), on("suf.yaml")
			c.Eval(3)
			c.Count("compositions_of_zone_histories", 1)
			if whole.Exit == 0 {
				c.Nontrivial("zone-history", zone, layout, files["whole.yaml"], cmd[0])
			}
			if whole.Crashed() || (whole.Exit == 0) != (pre.Exit == 0 && suf.Exit == 0) || (whole.Exit == 0 && whole.Out != pre.Out+suf.Out) {
				c.Violation(strings.Join(cmd, " ")+"|zone-history-not-concatenation", fmt.Sprintf("TZ=%s, layout %q: %s of the whole log (exit %d) is not the report of blocks 1..%d (exit %d) followed by the report of the rest (exit %d)", zone, layout, joinArgs(cmd), whole.Exit, s, pre.Exit, suf.Exit),
					caseDoc{Files: files, Args: append([]string{"--no-color", "--no-database", "-l", "whole.yaml", "--date-format", layout}, cmd...), Env: env, Expected: pre.Out + suf.Out, Observed: resDoc(whole)})
			}
		}
	}
	jobs, deaths := pool.Stats()
	c.Count("l2_jobs", jobs)
	c.Count("l2_process_deaths", deaths)
	c.Count("l2_priming_runs", pool.Primed())
}

func ratList(v []*big.Rat) []string {
	var out []string
	for _, x := range v {
		out = append(out, x.FloatString(2))
	}
	return out
}
