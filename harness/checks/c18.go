package checks

import (
	"fmt"
	"io"
	"math/rand"
	"os"
	"os/exec"
	"path/filepath"
	"regexp"
	"runtime"
	"strings"
	"syscall"
	"time"

	shared "github.com/aquilax/hranoprovod-cli/v3"
	"github.com/aquilax/hranoprovod-cli/v3/parser"

	"verif/harness/core"
	"verif/harness/gen"
	"verif/harness/run"
)

func init() {
	register(&Check{ID: "C18", Level: "exploration", Run: runC18})
}

// jitterReader wraps a countingReader-like source and sleeps/yields between chunks.
type jitterReader struct {
	src   io.Reader
	rnd   *rand.Rand
	level int // 0: none, 1: yield, 2: short sleeps
}

func (j *jitterReader) Read(p []byte) (int, error) {
	switch j.level {
	case 1:
		if j.rnd.Intn(2) == 0 {
			runtime.Gosched()
		}
	case 2:
		if j.rnd.Intn(3) == 0 {
			time.Sleep(time.Duration(20+j.rnd.Intn(200)) * time.Microsecond)
		}
	}
	return j.src.Read(p)
}

type c18Input struct {
	class   string
	text    string
	limit   int // reader fails from this offset (-1: never)
	chunk   int
	file    string // non-empty: ParseFile on this path
	partial bool
	comment byte // parser.Config.CommentChar (0: the default '#')
	fifo    bool // ParseFile on a named pipe fed with text (a path that stats as size 0 but has content)
	skip    int  // > 0: the reader is a seekable strings.Reader / *os.File already positioned at this offset
}

func (in c18Input) config() parser.Config {
	if in.comment == 0 {
		return parser.NewDefaultConfig()
	}
	return parser.Config{CommentChar: in.comment}
}

type c18Event struct {
	Kind string // node | err | done | exited
	Node *shared.ParserNode
	Text string
}

func (e c18Event) String() string {
	switch e.Kind {
	case "node":
		return "node(" + nodeString(e.Node) + ")"
	case "err":
		return "err(" + e.Text + ")"
	}
	return e.Kind
}

// c18Reference: the callback parser's result on an identical reader: nodes
// before the first error, then that error (callback error or returned I/O error).
func c18Reference(in c18Input) (nodes []string, firstErr string, pnc string) {
	var evs []parseEvent
	var ret error
	if in.file != "" {
		pnc = safely(func() {
			ret = parser.ParseFileCallback(in.file, in.config(), func(n *shared.ParserNode, err error) (bool, error) {
				if err != nil {
					evs = append(evs, parseEvent{Err: err.Error()})
				} else {
					evs = append(evs, parseEvent{Node: copyNode(n)})
				}
				return false, nil
			})
		})
	} else if in.skip > 0 {
		evs, ret, pnc = parseWithConfig(strings.NewReader(in.text[in.skip:]), in.config())
	} else {
		evs, ret, pnc = parseWithConfig(&countingReader{data: []byte(in.text), limit: in.limit, chunk: in.chunk, partial: in.partial}, in.config())
	}
	for _, e := range evs {
		if e.Err != "" {
			return nodes, e.Err, pnc
		}
		nodes = append(nodes, nodeString(e.Node))
	}
	if ret != nil {
		firstErr = ret.Error()
	}
	return
}

var c18GoroutineRe = regexp.MustCompile(`(?s)goroutine \d+ \[chan send[^\]]*\]:\n[^\n]*parser\.Parser\.Parse(Stream|File)`)

// c18Run executes one channel-parser run under the given policy and jitter.
// slowAfter > 0: the consumer additionally pauses that long after every event it receives
// (a consumer that handles an error or a record slowly); a producer that gives up waiting
// for the consumer shows up as a missing Done / a wrong trace.
func c18Run(c *core.Ctx, in c18Input, policy string, r *rand.Rand, slowAfter time.Duration) (trace []string, pattern string, verdict string) {
	return c18RunWith(c, parser.NewParser(in.config()), in, policy, r, slowAfter)
}

// c18RunWith: the same with a parser value the caller made (and may have used before).
func c18RunWith(c *core.Ctx, p parser.Parser, in c18Input, policy string, r *rand.Rand, slowAfter time.Duration) (trace []string, pattern string, verdict string) {
	exited := make(chan struct{})
	readerJitter := r.Intn(3)
	consumerJitter := r.Intn(4)
	readerSeed := r.Int63()
	fifoPath := ""
	if in.fifo {
		fifoPath = filepath.Join(c.Work, fmt.Sprintf("fifo.%d.%d", os.Getpid(), r.Int63()))
		if err := syscall.Mkfifo(fifoPath, 0o600); err != nil {
			return nil, "", "watchdog"
		}
		defer os.Remove(fifoPath)
		go func() {
			if w, err := os.OpenFile(fifoPath, os.O_WRONLY, 0); err == nil {
				w.Write([]byte(in.text))
				w.Close()
			}
		}()
	}
	go func() {
		defer close(exited)
		if in.fifo {
			p.ParseFile(fifoPath)
			return
		}
		if in.file != "" {
			p.ParseFile(in.file)
			return
		}
		if in.skip > 0 {
			// a caller that has already consumed a prefix: the parser must continue from where the reader is
			if readerJitter == 0 {
				rd := strings.NewReader(in.text)
				rd.Seek(int64(in.skip), io.SeekStart)
				p.ParseStream(rd)
			} else {
				f, err := os.CreateTemp(c.Work, "resumed")
				if err != nil {
					p.ParseStream(strings.NewReader(in.text[in.skip:]))
					return
				}
				defer os.Remove(f.Name())
				defer f.Close()
				f.WriteString(in.text)
				f.Seek(int64(in.skip), io.SeekStart)
				p.ParseStream(f)
			}
			return
		}
		rd := &jitterReader{src: &countingReader{data: []byte(in.text), limit: in.limit, chunk: in.chunk, partial: in.partial}, rnd: rand.New(rand.NewSource(readerSeed)), level: readerJitter}
		p.ParseStream(rd)
	}()
	var evs []c18Event
	var pat strings.Builder
	fmt.Fprintf(&pat, "r%dc%d:", readerJitter, consumerJitter)
	delay := func() {
		switch consumerJitter {
		case 1:
			if r.Intn(2) == 0 {
				runtime.Gosched()
				pat.WriteByte('y')
			} else {
				pat.WriteByte('-')
			}
		case 2:
			if r.Intn(2) == 0 {
				time.Sleep(time.Duration(50+r.Intn(450)) * time.Microsecond)
				pat.WriteByte('s')
			} else {
				pat.WriteByte('-')
			}
		case 3:
			if r.Intn(2) == 0 {
				for i := 0; i < 2000+r.Intn(20000); i++ {
					_ = i * i
				}
				pat.WriteByte('b')
			} else {
				pat.WriteByte('-')
			}
		}
	}
	watchdog := time.After(30*time.Second + 8*slowAfter)
	gotDone := false
	exitedCh := exited
loop:
	for {
		delay()
		if slowAfter > 0 && len(evs) > 0 {
			time.Sleep(slowAfter)
		}
		// which side reached the rendezvous first? a receive that is ready at once means the
		// producer was already waiting in its send ('p'); otherwise the consumer waits ('c')
		ready := true
		select {
		case n := <-p.Nodes:
			evs = append(evs, c18Event{Kind: "node", Node: n})
		case e := <-p.Errors:
			evs = append(evs, c18Event{Kind: "err", Text: e.Error()})
			if policy == "A" {
				pat.WriteByte('p')
				c.Count("rendezvous_producer_first", 1)
				break loop
			}
		case <-p.Done:
			evs = append(evs, c18Event{Kind: "done"})
			gotDone = true
			pat.WriteByte('p')
			c.Count("rendezvous_producer_first", 1)
			break loop
		default:
			ready = false
		}
		if ready {
			pat.WriteByte('p')
			c.Count("rendezvous_producer_first", 1)
			continue
		}
		pat.WriteByte('c')
		c.Count("rendezvous_consumer_first", 1)
		select {
		case n := <-p.Nodes:
			// keep the pointer; fields are read only after the producer has moved on
			evs = append(evs, c18Event{Kind: "node", Node: n})
		case e := <-p.Errors:
			evs = append(evs, c18Event{Kind: "err", Text: e.Error()})
			if policy == "A" {
				break loop
			}
		case <-p.Done:
			evs = append(evs, c18Event{Kind: "done"})
			gotDone = true
			break loop
		case <-exitedCh:
			// the producer returned; nothing more can arrive
			if !gotDone {
				evs = append(evs, c18Event{Kind: "exited"})
				verdict = "producer-exited-without-done"
				break loop
			}
		case <-watchdog:
			verdict = "watchdog"
			break loop
		}
	}
	if policy == "B" && gotDone {
		select {
		case <-exited:
			evs = append(evs, c18Event{Kind: "exited"})
		case <-time.After(10 * time.Second):
			buf := make([]byte, 1<<20)
			buf = buf[:runtime.Stack(buf, true)]
			if c18GoroutineRe.Match(buf) {
				verdict = "producer-blocked-after-done"
			} else {
				verdict = "watchdog"
			}
		}
	}
	for _, e := range evs {
		trace = append(trace, e.String())
	}
	if pat.Len() > 60 {
		return trace, pat.String()[:60], verdict
	}
	return trace, pat.String(), verdict
}

func c18Inputs(c *core.Ctx, n int) []c18Input {
	var ins []c18Input
	dir := filepath.Join(c.Work, "c18files")
	os.MkdirAll(filepath.Join(dir, "adir"), 0o755)
	for i := 0; i < n; i++ {
		r := c.Rng("inputs", i)
		book, log := c10Files(r, r.Intn(2) == 0)
		text := book
		if r.Intn(2) == 0 {
			text = log
		}
		switch k := r.Intn(12); {
		case k < 3:
			ins = append(ins, c18Input{class: "valid", text: text, limit: -1, chunk: []int{0, 1, 7, 64}[r.Intn(4)]})
		case k < 6:
			// 1..4 malformed lines planted below a heading
			lines := strings.Split(text, "\n")
			bad := []string{"  oops", "  a:1", "  b: abc", "  c: 1,5", "  d: 1.2.3", "\tx: --1", "  e: 1e999", "  f: -1e400", "  g: 0x1p2000", "  h: 1" + strings.Repeat("0", 310), "  i: 1_000", "  j: +"}
			for m := 0; m <= r.Intn(4); m++ {
				pos := 1 + r.Intn(len(lines))
				lines = append(lines[:pos], append([]string{bad[r.Intn(len(bad))]}, lines[pos:]...)...)
			}
			ins = append(ins, c18Input{class: "malformed", text: strings.Join(lines, "\n"), limit: -1, chunk: []int{0, 1, 7}[r.Intn(3)]})
		case k == 6:
			ins = append(ins, c18Input{class: "empty", text: []string{"", "\n", "# only a comment\n", "\n\n   \n"}[r.Intn(4)], limit: -1})
		case k < 10:
			if len(text) > 300 {
				text = text[:300]
			}
			ins = append(ins, c18Input{class: "failing-reader", text: text, limit: r.Intn(len(text) + 1), chunk: []int{0, 1, 7}[r.Intn(3)], partial: r.Intn(2) == 0})
		case k == 10:
			ins = append(ins, c18Input{class: "long-line", text: "a:\n  x: 1\n  # " + strings.Repeat("n", 66000) + "\nb:\n  y: 2\n", limit: -1})
		default:
			switch r.Intn(3) {
			case 0:
				p := filepath.Join(dir, fmt.Sprintf("f%d.yaml", i))
				if r.Intn(3) == 0 {
					// a byte order mark (or just its bytes) at the very beginning of the file, before a heading or a
					// comment line: whatever the callback parser makes of it, the channel parser makes the same
					text = []string{"\xef\xbb\xbf", "\xef\xbb\xbf# comment\n", "\xef\xbb\xbf\n", "\xff\xfe", "\xef\xbb"}[r.Intn(5)] + text
				}
				os.WriteFile(p, []byte(text), 0o644)
				ins = append(ins, c18Input{class: "file", file: p})
			case 1:
				ins = append(ins, c18Input{class: "missing-file", file: filepath.Join(dir, "does-not-exist.yaml")})
			default:
				ins = append(ins, c18Input{class: "directory", file: filepath.Join(dir, "adir")})
			}
		}
	}
	// a malformed line directly followed by something the reader cannot deliver (a line beyond the line buffer, a
	// read error before the next line end): the first error of the callback parser is the malformed line
	for k, bad := range []string{"  x: abc", "  no separator", "  y: 1,5"} {
		long := "a:\n  fine: 1\n" + bad + "\n  # " + strings.Repeat("n", 66000+k) + "\nb:\n  y: 2\n"
		ins = append(ins, c18Input{class: "malformed-then-long-line", text: long, limit: -1, chunk: []int{0, 7, 64}[k]})
		short := "a:\n  fine: 1\n" + bad + "\n  next: 2\nb:\n  y: 2\n"
		at := strings.Index(short, bad) + len(bad) + 1
		ins = append(ins, c18Input{class: "malformed-then-read-error", text: short, limit: at + k, chunk: []int{0, 1, 7}[k], partial: k == 1})
	}
	// records that repeat the one before them exactly (the same meal entered twice in a row, a heading with nothing
	// under it twice): each is a record of its own
	for _, text := range []string{"x:\nx:\n", "2021/01/01:\n  a: 1\n  b: 2\n2021/01/01:\n  a: 1\n  b: 2\n2021/01/02:\n  c: 3\n", "d:\n  # note: n\n  a: 1\nd:\n  # note: n\n  a: 1\nd:\n  # note: n\n  a: 1\n"} {
		ins = append(ins, c18Input{class: "repeated-record", text: text, limit: -1}, c18Input{class: "repeated-record", text: text, limit: -1, chunk: 1})
	}
	// seekable readers handed over at an offset > 0 (a header block already consumed by the caller)
	for i := 0; i < n/25+2; i++ {
		r := c.Rng("resumed", i)
		book, log := c10Files(r, true)
		text := book + log
		if i%4 == 0 {
			text = log + "  broken line\n" + book
		}
		// cut at the start of a line in the first half
		cut := strings.Index(text[len(text)/3:], "\n") + len(text)/3 + 1
		ins = append(ins, c18Input{class: "resumed-reader", text: text, limit: -1, skip: cut})
	}
	// paths whose size is reported as 0 although they have content: named pipes and /proc files
	for i := 0; i < n/25+2; i++ {
		r := c.Rng("fifo", i)
		book, log := c10Files(r, true)
		text := book
		if i%2 == 0 {
			text = log
		}
		if i%5 == 0 {
			text += "  broken line\n"
		}
		ins = append(ins, c18Input{class: "fifo", text: text, limit: -1, fifo: true})
	}
	for _, pf := range []string{"/proc/version", "/proc/filesystems"} { // content that does not change between two reads
		if _, err := os.Stat(pf); err == nil {
			ins = append(ins, c18Input{class: "proc-file", file: pf})
		}
	}
	// a third of the inputs use another comment character (library configuration): the same text
	// with '#' replaced, or left as it is (then '#' lines are data)
	for i := range ins {
		r := c.Rng("comment", i)
		switch r.Intn(6) {
		case 0:
			ins[i].comment = ';'
			if ins[i].file == "" {
				ins[i].text = strings.ReplaceAll(ins[i].text, "#", ";")
			}
		case 1:
			ins[i].comment = '%'
		}
		if ins[i].comment != 0 && ins[i].class == "file" {
			// rewrite the file with comment lines of both kinds
			b, _ := os.ReadFile(ins[i].file)
			os.WriteFile(ins[i].file, []byte("; a note between the days\n"+strings.Replace(string(b), "#", string(ins[i].comment), 1)+"\nz:\n  ; meta: 1\n  % other: 2\n  q: 1\n"), 0o644)
		}
	}
	return ins
}

func runC18(c *core.Ctx) {
	c.SetRule("runs: inputs {valid, 1-4 malformed lines, empty/comment-only, reader failing at a random offset, seekable reader handed over at an offset > 0, 66 kB line, ParseFile on a regular file / missing path / directory / named pipe / proc file} x parser configuration {default comment character, two others} x consumer policy {A: documented loop, stop at first error or Done; B: drain until Done} x PRNG-chosen jitter (consumer: none/Gosched/50-500us sleep/busy loop before each receive; reader: none/Gosched/sleeps between chunks, chunk sizes 1..whole) x GOMAXPROCS {1,2,16}; harness built with the race detector. Oracle: trace at the consumer boundary == callback parser's nodes before its first error, then that error (A) / the error once, Done, producer exit (B). At every receive the monitor records which side reached the rendezvous first (p: the producer was already blocked in its send, c: the consumer had to wait); the jitter/arrival pattern is part of the case identity and the totals of both arrival orders are in the evidence. Non-trivial = run with >= 1 node or an error; distinct = hash(input, policy, jitter and arrival-order pattern).")
	c.Assume("a producer left blocked after a policy-A consumer stops early is not asserted (the property does not promise it)")
	c.Assume("wall-clock watchdogs are inconclusive unless a goroutine dump shows the producer blocked in a channel send")

	c.RunPart("l3-traces", 40*time.Minute, func(c *core.Ctx) {
		n := c.N(1000, 20000)
		ins := c18Inputs(c, n)
		type tri struct{ class, policy, pattern string }
		for _, procs := range []int{16, 2, 1} {
			runtime.GOMAXPROCS(procs)
			workers := procs
			core.ParallelFor(len(ins), workers, func(w, i int) {
				in := ins[i]
				for _, policy := range []string{"A", "B"} {
					r := c.Rng(fmt.Sprintf("sched-%d-%s", procs, policy), i)
					c.Crumb(w, fmt.Sprintf("input %d class %s policy %s GOMAXPROCS %d", i, in.class, policy, procs))
					nodes, firstErr, pnc := c18Reference(in)
					if pnc != "" {
						c.Violation("callback-parser|panic", clip(pnc, 300), map[string]any{"input": in.text, "file": in.file})
						continue
					}
					trace, pattern, verdict := c18Run(c, in, policy, r, 0)
					c.Eval(1)
					var want []string
					for _, nd := range nodes {
						want = append(want, "node("+nd+")")
					}
					if firstErr != "" {
						want = append(want, "err("+firstErr+")")
					}
					if policy == "A" && firstErr == "" {
						want = append(want, "done")
					}
					if policy == "B" {
						want = append(want, "done", "exited")
					}
					if len(nodes) > 0 || firstErr != "" {
						c.Nontrivial(in.text, in.file, fmt.Sprint(in.limit, in.chunk, in.partial), policy, pattern)
					}
					c.Count("runs_class_"+in.class, 1)
					c.Count("runs_policy_"+policy, 1)
					c.Count(fmt.Sprintf("runs_gomaxprocs_%d", procs), 1)
					rep := map[string]any{"input_class": in.class, "input": clip(in.text, 3000), "file": in.file, "reader_fails_at": in.limit, "chunk": in.chunk, "policy": policy,
						"gomaxprocs": procs, "jitter_pattern": pattern, "expected_trace": want, "observed_trace": trace, "verdict": verdict}
					site := "ParseStream"
					if in.file != "" || in.fifo {
						site = "ParseFile"
					}
					switch {
					case verdict == "watchdog":
						c.Inconclusive("l3-traces", fmt.Sprintf("watchdog on input %d policy %s", i, policy))
					case verdict == "producer-exited-without-done":
						c.Violation(site+" policy "+policy+"|done-never-delivered", fmt.Sprintf("%s input: the producer returned without sending Done; a draining consumer would wait forever. trace %v", in.class, trace), rep)
					case verdict == "producer-blocked-after-done":
						c.Violation(site+" policy "+policy+"|producer-blocked-after-done", "producer still blocked in a channel send after Done", rep)
					case strings.Join(trace, "\n") != strings.Join(want, "\n"):
						class := "trace-mismatch"
						if cnt := countPrefix(trace, "err("); cnt > 1 {
							class = "error-delivered-more-than-once"
						}
						c.Violation(site+" policy "+policy+"|"+class, fmt.Sprintf("%s input: observed %v, want %v", in.class, clipList(trace), clipList(want)), rep)
					}
					if i < 3 && procs == 16 {
						c.Sample(map[string]any{"input_class": in.class, "policy": policy, "jitter_pattern": pattern, "observed_trace": clipList(trace)})
					}
				}
			})
		}
		runtime.GOMAXPROCS(16)
		// one parser value for several inputs in turn, each drained until Done: every parse observes what the callback
		// parser reports for that input (a parser is not used up by a parse)
		{
			var reusable []c18Input
			for _, in := range ins {
				if in.file == "" && !in.fifo && in.skip == 0 && in.comment == 0 && (in.class == "valid" || in.class == "malformed" || in.class == "empty" || in.class == "failing-reader") {
					reusable = append(reusable, in)
				}
			}
			nseq := c.N(60, 600)
			core.ParallelFor(nseq, 8, func(w, si int) {
				r := c.Rng("reuse", si)
				if len(reusable) == 0 {
					return
				}
				p := parser.NewParser(parser.NewDefaultConfig())
				for step := 0; step < 2+r.Intn(4); step++ {
					in := reusable[r.Intn(len(reusable))]
					c.Crumb(w, fmt.Sprintf("reuse sequence %d step %d class %s", si, step, in.class))
					nodes, firstErr, _ := c18Reference(in)
					trace, pattern, verdict := c18RunWith(c, p, in, "B", r, 0)
					c.Eval(1)
					c.Count("runs_on_a_reused_parser", 1)
					var want []string
					for _, nd := range nodes {
						want = append(want, "node("+nd+")")
					}
					if firstErr != "" {
						want = append(want, "err("+firstErr+")")
					}
					want = append(want, "done", "exited")
					c.Nontrivial("reuse", in.text, fmt.Sprint(si, step), pattern)
					if verdict == "watchdog" {
						c.Inconclusive("l3-traces", fmt.Sprintf("watchdog on reuse sequence %d step %d", si, step))
						return
					}
					if verdict != "" || strings.Join(trace, "\n") != strings.Join(want, "\n") {
						c.Violation("ParseStream on a reused parser|trace-mismatch", fmt.Sprintf("step %d of a sequence on one parser value (%s input, %s): observed %v, want %v", step, in.class, verdict, clipList(trace), clipList(want)),
							map[string]any{"sequence": si, "step": step, "input_class": in.class, "input": clip(in.text, 3000), "reader_fails_at": in.limit, "expected_trace": want, "observed_trace": trace, "verdict": verdict})
						return
					}
				}
			})
		}
		// slow consumers: a few inputs of every class, pauses of 150 ms / 1.2 s / 2.5 s after each event
		byClass := map[string][]c18Input{}
		for _, in := range ins {
			// short inputs only: the pause is taken after every event
			if len(byClass[in.class]) < 2 && len(in.text) < 400 {
				byClass[in.class] = append(byClass[in.class], in)
			}
		}
		type slowCase struct {
			in     c18Input
			policy string
			pause  time.Duration
		}
		var slow []slowCase
		for _, cl := range sortedKeys(byClass) {
			for _, in := range byClass[cl] {
				for _, policy := range []string{"A", "B"} {
					for _, pause := range []time.Duration{150 * time.Millisecond, 1200 * time.Millisecond, 2500 * time.Millisecond} {
						slow = append(slow, slowCase{in, policy, pause})
					}
				}
			}
		}
		// and consumers that are away for seconds (a stopped terminal, a pager nobody scrolls, a suspended process):
		// the hand-over waits as long as it takes - one input per class, policy B, 6.5 s (thorough: also 31 s) after each event
		for _, cl := range sortedKeys(byClass) {
			if nodes, _, _ := c18Reference(byClass[cl][0]); len(nodes) >= 1 && len(nodes) <= 2 {
				slow = append(slow, slowCase{byClass[cl][0], "B", 6500 * time.Millisecond})
				if !c.Quick() {
					slow = append(slow, slowCase{byClass[cl][0], "A", 31 * time.Second})
				}
			}
		}
		core.ParallelFor(len(slow), 64, func(w, i int) {
			sc := slow[i]
			nodes, firstErr, _ := c18Reference(sc.in)
			if len(nodes) > 4 {
				return
			}
			trace, pattern, verdict := c18Run(c, sc.in, sc.policy, c.Rng("slow", i), sc.pause)
			c.Eval(1)
			c.Count("slow_consumer_runs", 1)
			c.Nontrivial("slow", sc.in.text, sc.in.file, sc.policy, sc.pause.String())
			var want []string
			for _, nd := range nodes {
				want = append(want, "node("+nd+")")
			}
			if firstErr != "" {
				want = append(want, "err("+firstErr+")")
			}
			if sc.policy == "A" && firstErr == "" {
				want = append(want, "done")
			}
			if sc.policy == "B" {
				want = append(want, "done", "exited")
			}
			site := "ParseStream"
			if sc.in.file != "" {
				site = "ParseFile"
			}
			rep := map[string]any{"input_class": sc.in.class, "input": clip(sc.in.text, 3000), "file": sc.in.file, "policy": sc.policy, "consumer_pause_after_each_event": sc.pause.String(), "jitter_pattern": pattern, "expected_trace": want, "observed_trace": trace, "verdict": verdict}
			switch {
			case verdict == "watchdog":
				c.Inconclusive("l3-traces", fmt.Sprintf("watchdog on slow-consumer case %d", i))
			case verdict == "producer-exited-without-done":
				c.Violation(site+" policy "+sc.policy+"|done-never-delivered", fmt.Sprintf("%s input, consumer pausing %v after each event: the producer returned without sending Done. trace %v", sc.in.class, sc.pause, clipList(trace)), rep)
			case verdict == "producer-blocked-after-done":
				c.Violation(site+" policy "+sc.policy+"|producer-blocked-after-done", "producer still blocked in a channel send after Done", rep)
			case strings.Join(trace, "\n") != strings.Join(want, "\n"):
				c.Violation(site+" policy "+sc.policy+"|trace-mismatch", fmt.Sprintf("%s input, consumer pausing %v: observed %v, want %v", sc.in.class, sc.pause, clipList(trace), clipList(want)), rep)
			}
		})
	})
	// the same comparison made by a process that is not root, on files it may read but does not own (a system-wide
	// food database, a file under /proc): who opens the file is not part of the input
	{
		drop := []string{"setpriv", "--reuid=65534", "--regid=65534", "--clear-groups"}
		owned := filepath.Join(c.Work, "owned-by-root.yaml")
		avail := true
		if !c.InChild() {
			os.WriteFile(owned, []byte("2021/01/01:\n  a: 1\n  b: 2.5\n2021/01/02:\n  c: 3\n"), 0o644)
			os.Chmod(c.Work, 0o777)
			if exec.Command(drop[0], append(append([]string{}, drop[1:]...), "test", "-x", os.Args[0], "-a", "-r", owned)...).Run() != nil {
				avail = false
				c.Count("runs_as_another_user_not_available", 1)
			}
		}
		if avail {
			c.RunPartAs("l3-as-another-user", 5*time.Minute, drop, func(c *core.Ctx) {
				for fi, file := range []string{owned, "/proc/version", "/etc/hostname", "/etc/passwd"} {
					if _, err := os.Stat(file); err != nil {
						continue
					}
					in := c18Input{class: "file-of-another-user", file: file}
					nodes, firstErr, _ := c18Reference(in)
					for _, policy := range []string{"A", "B"} {
						trace, pattern, verdict := c18Run(c, in, policy, c.Rng("other-user", fi), 0)
						c.Eval(1)
						c.Count("runs_as_another_user", 1)
						c.Nontrivial("other-user", file, policy)
						var want []string
						for _, nd := range nodes {
							want = append(want, "node("+nd+")")
						}
						if firstErr != "" {
							want = append(want, "err("+firstErr+")")
						}
						if policy == "A" && firstErr == "" {
							want = append(want, "done")
						}
						if policy == "B" {
							want = append(want, "done", "exited")
						}
						if verdict == "watchdog" {
							c.Inconclusive("l3-as-another-user", "watchdog on "+file)
							continue
						}
						if verdict != "" || strings.Join(trace, "\n") != strings.Join(want, "\n") {
							c.Violation("ParseFile policy "+policy+"|trace-mismatch-as-another-user", fmt.Sprintf("uid 65534 reading %s (owned by root, readable): observed %v, want %v (%s)", file, clipList(trace), clipList(want), verdict),
								map[string]any{"file": file, "policy": policy, "jitter_pattern": pattern, "expected_trace": want, "observed_trace": trace, "run_as": joinArgs(drop)})
						}
					}
				}
			})
		}
	}
	if !c.InChild() {
		c18CommandGoroutines(c)
	}
	// race reports of the child process
	raceReports(c, "the channel parser")
}

// c18CommandGoroutines: whatever a command of the program starts to read its files (producers of the
// channel parser included) is gone when the command returns. The job server reports the number of
// goroutines alive after every job; the same job is repeated and the count must not grow. Inputs: intact
// files, a malformed log, a malformed book, both malformed (at the same place and at different places),
// missing files.
func c18CommandGoroutines(c *core.Ctx) {
	srv, err := run.NewServer(c.HR, filepath.Join(c.Work, "goroutines"))
	if err != nil {
		c.Inconclusive("command-goroutines", err.Error())
		return
	}
	defer srv.Close()
	book := "a/b:\n  x: 2\n  y: 1\n\nd:\n  a/b: 2\n"
	log := "2021/01/24:\n  a/b: 1\n  zz: 2\n\n2021/01/25:\n  d: 1.5\n  x: 1\n"
	long := strings.Repeat("2021/01/26:\n  a/b: 1\n  x: 3\n", 3000)
	worlds := []struct {
		what  string
		files map[string]string
	}{
		{"intact files", map[string]string{"food.yaml": book, "log.yaml": log}},
		{"malformed log", map[string]string{"food.yaml": book, "log.yaml": log + "  broken\n"}},
		{"malformed book", map[string]string{"food.yaml": "a/b:\n  broken\n" + book, "log.yaml": log}},
		{"both files malformed on line 2", map[string]string{"food.yaml": "a/b:\n  broken\n" + book, "log.yaml": "2021/01/23:\n  broken\n" + log}},
		{"book malformed on line 2, log malformed after 9000 good lines", map[string]string{"food.yaml": "a/b:\n  broken\n" + book, "log.yaml": long + "  broken\n"}},
		{"log malformed on line 2, book malformed at its end", map[string]string{"food.yaml": book + "  broken\n", "log.yaml": "2021/01/23:\n  broken\n" + log}},
		{"missing files", map[string]string{}},
	}
	// lint is the command that keeps consuming after a problem: what the parser reported before it gave up on the
	// input (a line over the limit, a read error) is still shown
	{
		tail := map[string]string{"a line of 70000 bytes": "  # " + strings.Repeat("n", 70000) + "\n", "nothing (control)": ""}
		for what, t := range tail {
			text := "2021/01/24:\n  ok: 1\n  broken\n  also: 1,5\n\n2021/01/25:\n  x: abc\n" + t
			srv.Write(map[string]string{"badlong.yaml": text})
			res := srv.App1([]string{"--no-color", "lint", "badlong.yaml"}, nil)
			c.Eval(1)
			c.Count("lint_reports_before_unreadable_input", 1)
			msgs := obsLines(res.Out)
			okMsgs := len(msgs) >= 3 && strings.Contains(msgs[0], "line 3") && strings.Contains(msgs[1], "line 4") && strings.Contains(msgs[2], "line 7")
			if !okMsgs || (t != "" && res.Exit == 0) {
				c.Violation("lint|problems-lost-before-unreadable-input", fmt.Sprintf("three malformed lines followed by %s: lint prints %d lines %q, exit %d", what, len(msgs), clip(res.Out, 200), res.Exit),
					caseDoc{Files: map[string]string{"badlong.yaml": clip(text, 300)}, Args: []string{"--no-color", "lint", "badlong.yaml"}, Note: "followed by " + what, Observed: map[string]any{"stdout": clip(res.Out, 600), "exit": res.Exit, "err": clip(res.Err, 200)}})
			}
		}
	}
	// a terminal that takes no output for a while (stopped with XOFF, a slow remote session) as standard output, a log
	// whose malformed line comes after many records: the records before the error are shown, all of them, as through a
	// pipe - however far the reading side ran ahead of the writing side
	if c.HR != "" {
		var sb strings.Builder
		sb.WriteString("2021/01/01:\n  first: 1\n")
		for k := 0; k < 70; k++ {
			fmt.Fprintf(&sb, "2021/02/%02d:\n  %s %d: %d\n", 1+k%28, strings.Repeat("long name ", 9), k, k+1)
		}
		sb.WriteString("  - broken\n2021/03/01:\n  after: 1\n")
		dir := filepath.Join(c.Work, "stalled")
		run.WriteFiles(dir, map[string]string{"log.yaml": sb.String(), "food.yaml": book})
		for _, cmd := range [][]string{{"print"}, {"csv", "log"}, {"reg"}} {
			args := append([]string{"--no-color", "-d", "food.yaml", "-l", "log.yaml"}, cmd...)
			ref := run.Exec(c.HR, args, run.ExecOpts{Dir: dir})
			for round := 0; round < 6; round++ {
				res, ok := run.ExecPtyStalled(c.HR, args, run.ExecOpts{Dir: dir}, 150*time.Millisecond)
				if !ok {
					c.Inconclusive("stalled-terminal", "no pseudo-terminal available")
					break
				}
				c.Eval(1)
				c.Count("runs_on_a_stalled_terminal", 1)
				c.Nontrivial("stalled", joinArgs(cmd), fmt.Sprint(round))
				if res.Out != ref.Out || (res.Exit == 0) != (ref.Exit == 0) {
					c.Violation(strings.Join(cmd, " ")+"|stalled-terminal-changes-the-report", fmt.Sprintf("%s on a log whose 72nd record is malformed, stdout a terminal that is not read for 150 ms: exit %d and %d bytes of report; through a pipe exit %d and %d bytes", joinArgs(cmd), res.Exit, len(res.Out), ref.Exit, len(ref.Out)),
						caseDoc{Files: map[string]string{"log.yaml": sb.String(), "food.yaml": book}, Args: args, Note: "stdout is a pseudo-terminal whose master side is read only after 150 ms", Expected: resDoc(ref), Observed: resDoc(res)})
					break
				}
			}
		}
	}
	r := c.Rng("goroutines", 0)
	cmds := [][]string{{"stats"}, {"reg"}, {"bal"}, {"csv", "log"}, {"csv", "database"}, {"csv", "database-resolved"}, {"print"}, {"summary", "2021/01/24"}, {"report", "totals"}, {"report", "quantity"}, {"report", "unresolved"}, {"report", "element-total", "x"}, {"lint", "log.yaml"}, {"lint", "food.yaml"}}
	for k := 0; k < 8; k++ {
		cmds = append(cmds, randomCmd(r, "x", "a", "2021/01/24").Args)
	}
	for _, w := range worlds {
		os.Remove(filepath.Join(srv.Dir, "food.yaml"))
		os.Remove(filepath.Join(srv.Dir, "log.yaml"))
		srv.Write(w.files)
		for _, cmd := range cmds {
			args := append([]string{"--no-color", "-d", "food.yaml", "-l", "log.yaml", "--today", "2021/02/01"}, cmd...)
			res := srv.App1(args, nil)
			first := srv.LastGor
			if first == 0 {
				c.Inconclusive("command-goroutines", "the job server does not report goroutine counts (older hook)")
				return
			}
			for k := 0; k < 4; k++ {
				srv.App1(args, nil)
			}
			last := srv.LastGor
			c.Eval(5)
			c.Count("command_goroutine_checks", 1)
			c.Nontrivial("goroutines", w.what, joinArgs(cmd))
			if last > first {
				c.Violation(strings.Join(cmd[:min(2, len(cmd))], " ")+"|goroutines-left-behind", fmt.Sprintf("%s on %s: %d goroutines alive after the first run, %d after four more identical runs", joinArgs(cmd), w.what, first, last),
					caseDoc{Files: w.files, Args: args, Note: w.what, Observed: map[string]any{"goroutines_after_first_run": first, "goroutines_after_fifth_run": last, "exit": res.Exit, "err": res.Err}})
			}
		}
	}
}

func obsLines(out string) []string {
	var ls []string
	for _, l := range strings.Split(out, "\n") {
		if strings.TrimSpace(l) != "" {
			ls = append(ls, l)
		}
	}
	return ls
}

func countPrefix(xs []string, p string) int {
	n := 0
	for _, x := range xs {
		if strings.HasPrefix(x, p) {
			n++
		}
	}
	return n
}

func clipList(xs []string) []string {
	out := make([]string, 0, len(xs))
	for _, x := range xs {
		out = append(out, clip(x, 120))
	}
	if len(out) > 12 {
		out = append(out[:12], fmt.Sprintf("…(+%d)", len(xs)-12))
	}
	return out
}

var raceFrameRe = regexp.MustCompile(`(?m)^  ([\w./*()\-]+)\(\)$`)

// raceKey: the outermost-relevant function names of the report, line numbers stripped.
func raceKey(blk string) string {
	ms := raceFrameRe.FindAllStringSubmatch(blk, 4)
	var fs []string
	for _, m := range ms {
		fs = append(fs, m[1])
	}
	return strings.Join(fs, "<>")
}

var _ = gen.Half
