package checks

import (
	"fmt"
	"math/big"
	"math/rand"
	"sort"
	"strings"
	"time"

	shared "github.com/aquilax/hranoprovod-cli/v3"

	"verif/harness/core"
	"verif/harness/gen"
	"verif/harness/model"
	"verif/harness/obs"
	"verif/harness/run"
)

func init() {
	register(&Check{ID: "C03", Level: "exploration", Run: runC03})
}

var balModes = []struct {
	name string
	args []string
}{
	{"bal", []string{"bal"}},
	{"bal --collapse", []string{"bal", "-c"}},
	{"bal --collapse-last", []string{"bal", "--collapse-last"}},
}

type pathAmt struct {
	Path string
	Amt  *big.Rat
	Abs  *big.Rat
	Leaf bool
}

func prefixFree(foods []string) bool {
	for _, f := range foods {
		for _, g := range foods {
			if f != g && strings.HasPrefix(g, f+"/") {
				return false
			}
		}
	}
	return true
}

// splitOptional: in --single-element mode a row whose whole subtree is zero at
// print precision (|amount| <= 0.005 + eps for itself and every descendant) is
// optional: whether a food contributing nothing visible is listed is not
// specified. Returns the mandatory rows and the set of optional paths.
func splitOptional(rows []pathAmt) (kept []pathAmt, optional map[string]bool) {
	optional = map[string]bool{}
	small := func(r pathAmt) bool {
		a := r.Abs
		if a == nil {
			a = absRat(r.Amt)
		}
		lim := new(big.Rat).Add(ratHalfCent, eps(a))
		return absRat(r.Amt).Cmp(lim) <= 0
	}
	for i, r := range rows {
		opt := true
		for j := i; j < len(rows); j++ {
			if j > i && !strings.HasPrefix(rows[j].Path, r.Path+"/") {
				break
			}
			if !small(rows[j]) {
				opt = false
				break
			}
		}
		if opt {
			optional[r.Path] = true
		} else {
			kept = append(kept, r)
		}
	}
	relabelLeaves(kept)
	return
}

func relabelLeaves(rows []pathAmt) {
	for i := range rows {
		rows[i].Leaf = i+1 >= len(rows) || !strings.HasPrefix(rows[i+1].Path, rows[i].Path+"/")
	}
}

// dropPaths removes the rows whose path is in the set.
func dropPaths(rows []pathAmt, set map[string]bool) []pathAmt {
	var out []pathAmt
	for _, r := range rows {
		if !set[r.Path] {
			out = append(out, r)
		}
	}
	relabelLeaves(out)
	return out
}

func observedRows(b obs.Bal) ([]pathAmt, error) {
	paths, leaf, err := obs.BalPaths(b.Rows)
	if err != nil {
		return nil, err
	}
	rows := make([]pathAmt, len(paths))
	for i := range paths {
		rows[i] = pathAmt{paths[i], b.Rows[i].Amount, nil, leaf[i]}
	}
	return rows, nil
}

func expectedRows(amounts, abs map[string]*big.Rat) []pathAmt {
	var rows []pathAmt
	for _, t := range model.Tree(amounts, abs) {
		rows = append(rows, pathAmt{t.Path, t.Amount, t.Abs, t.Leaf})
	}
	return rows
}

// balCase is one (files, element) configuration checked in all three modes.
type balCase struct {
	files   map[string]string
	amounts map[string]*big.Rat // per food (already quantity × element amount in -s mode)
	abs     map[string]*big.Rat
	element string // "" = all foods
	exact   bool
	foods   []string
	label   string
}

func checkBal(c *core.Ctx, srv *run.Server, bc balCase) {
	want := expectedRows(bc.amounts, bc.abs)
	pf := prefixFree(bc.foods)
	var optional map[string]bool
	if bc.element != "" {
		want, optional = splitOptional(want)
	}
	for _, mode := range balModes {
		args := withBase(mode.args...)
		if bc.element != "" {
			args = append(args, "-s", bc.element)
		}
		args = respell(c.Rng("spell", len(bc.files["log.yaml"])+len(bc.label)), args)
		res := srv.App1(args, nil)
		c.Eval(1)
		sigCmd := mode.name
		if bc.element != "" {
			sigCmd += " -s"
		}
		c.Count("runs_"+sigCmd, 1)
		doc := caseDoc{Files: bc.files, Args: args, Note: bc.label, Observed: resDoc(res)}
		if res.Panic != "" || res.Exit != 0 {
			c.Violation(sigCmd+"|fails-on-valid-input", fmt.Sprintf("exit %d err %q %s", res.Exit, res.Err, clip(res.Panic, 300)), doc)
			continue
		}
		if c.HR != "" && (len(bc.files["log.yaml"])+len(args))%9 == 0 {
			// the same report with a terminal as standard output (a pseudo-terminal through script(1))
			if pres, ok := run.ExecPty(c.HR, args, run.ExecOpts{Dir: srv.Dir}); ok {
				c.Eval(1)
				c.Count("runs_with_a_terminal_as_stdout", 1)
				if pres.Exit != res.Exit || pres.Out != res.Out {
					c.Violation(sigCmd+"|terminal-changes-the-report", fmt.Sprintf("with a terminal as standard output: exit %d and %d bytes; through a pipe: exit %d and %d bytes", pres.Exit, len(pres.Out), res.Exit, len(res.Out)),
						caseDoc{Files: bc.files, Args: args, Note: bc.label + "; stdout is a pseudo-terminal (script -qec)", Expected: resDoc(res), Observed: resDoc(pres)})
				}
			}
		}
		b, err := obs.ParseBal(res.Out)
		if err != nil {
			c.Violation(sigCmd+"|unparsable-output", err.Error(), doc)
			continue
		}
		got, err := observedRows(b)
		if err != nil {
			c.Violation(sigCmd+"|unparsable-output", err.Error(), doc)
			continue
		}
		if bc.element != "" {
			bad := ""
			for _, g := range got {
				if (mode.name == "bal" || pf) && optional[g.Path] && absRat(g.Amt).Cmp(ratCent) > 0 {
					bad = fmt.Sprintf("path %q shows %s, want about 0", g.Path, rs(g.Amt))
				}
			}
			if bad != "" {
				c.Violation(sigCmd+"|row-mismatch", bad, doc)
				continue
			}
			got = dropPaths(got, optional)
		}
		doc.Expected = rowsDoc(want)
		seen := map[string]bool{}
		dup := ""
		for _, g := range got {
			if seen[g.Path] {
				dup = g.Path
			}
			seen[g.Path] = true
		}
		if dup != "" {
			c.Violation(sigCmd+"|path-shown-twice", fmt.Sprintf("path %q printed twice", dup), doc)
			continue
		}
		if mode.name == "bal" {
			// default mode: the whole tree, in order
			if msg := compareRows(got, want, bc.exact, false); msg != "" {
				c.Violation(sigCmd+"|tree-mismatch", msg, doc)
				continue
			}
			c.Count("default_mode_trees_checked", 1)
		} else if pf {
			// collapse modes only join segments: same leaves, and every row is a node of the tree
			if msg := compareRows(leavesOf(got), leavesOf(want), bc.exact, true); msg != "" {
				c.Violation(sigCmd+"|leaf-set-differs", msg, doc)
				continue
			}
			wm := map[string]pathAmt{}
			for _, w := range want {
				wm[w.Path] = w
			}
			bad := ""
			for _, g := range got {
				w, ok := wm[g.Path]
				if !ok {
					bad = fmt.Sprintf("row %q is not a path of the tree", g.Path)
				} else if !numOK(g.Amt, w.Amt, 2, w.Abs, bc.exact) {
					bad = fmt.Sprintf("row %q shows %s, want %s", g.Path, rs(g.Amt), rs(w.Amt))
				}
			}
			if bad != "" {
				c.Violation(sigCmd+"|row-mismatch", bad, doc)
				continue
			}
			c.Count("collapse_mode_leafsets_checked", 1)
		} else {
			c.Count("collapse_mode_not_prefix_free_skipped", 1)
		}
		if bc.element != "" {
			if !b.HasGrand {
				c.Violation(sigCmd+"|no-grand-total", "single-element balance without grand total line", doc)
				continue
			}
			total, abs := new(big.Rat), new(big.Rat)
			for f, v := range bc.amounts {
				total.Add(total, v)
				abs.Add(abs, bc.abs[f])
			}
			if !numOK(b.Grand, total, 2, abs, bc.exact) {
				c.Violation(sigCmd+"|grand-total", fmt.Sprintf("grand total %s, want %s", b.GrandRaw, rs(total)), doc)
				continue
			}
			// grand total equals the sum of the top-level rows as printed
			sum := new(big.Rat)
			k := 0
			for _, r := range b.Rows {
				if r.Level == 0 {
					sum.Add(sum, r.Amount)
					k++
				}
			}
			ok := sum.Cmp(b.Grand) == 0
			if !bc.exact {
				ok = sumOfPrinted(sum, b.Grand, k, 2, abs)
			}
			if !ok {
				c.Violation(sigCmd+"|grand-total-vs-rows", fmt.Sprintf("grand total %s but top-level rows sum to %s", b.GrandRaw, rs(sum)), doc)
				continue
			}
			c.Count("grand_totals_checked", 1)
		} else if b.HasGrand {
			c.Violation(sigCmd+"|unexpected-grand-total", "grand total printed without --single-element", doc)
		}
	}
}

func leavesOf(rows []pathAmt) []pathAmt {
	var out []pathAmt
	for _, r := range rows {
		if r.Leaf {
			out = append(out, r)
		}
	}
	return out
}

func rowsDoc(rows []pathAmt) []string {
	var out []string
	for _, r := range rows {
		out = append(out, fmt.Sprintf("%s = %s", r.Path, rs(r.Amt)))
	}
	return out
}

// compareRows compares two pre-order row lists (or leaf lists when asSet).
func compareRows(got, want []pathAmt, exact, asSet bool) string {
	if asSet {
		g := append([]pathAmt{}, got...)
		w := append([]pathAmt{}, want...)
		sort.Slice(g, func(i, j int) bool { return g[i].Path < g[j].Path })
		sort.Slice(w, func(i, j int) bool { return w[i].Path < w[j].Path })
		got, want = g, w
	}
	if len(got) != len(want) {
		return fmt.Sprintf("%d rows %v, want %d %v", len(got), rowsDoc(got), len(want), rowsDoc(want))
	}
	for i := range want {
		if got[i].Path != want[i].Path {
			return fmt.Sprintf("row %d is %q, want %q (siblings sorted by name)", i, got[i].Path, want[i].Path)
		}
		if !numOK(got[i].Amt, want[i].Amt, 2, want[i].Abs, exact) {
			return fmt.Sprintf("path %q shows %s, want %s", want[i].Path, rs(got[i].Amt), rs(want[i].Amt))
		}
	}
	return ""
}

// all paths over segments {a,b} up to depth 3 (14 paths)
func c03AllPaths() []string {
	var out []string
	var rec func(prefix string, d int)
	rec = func(prefix string, d int) {
		for _, s := range []string{"a", "b"} {
			p := s
			if prefix != "" {
				p = prefix + "/" + s
			}
			out = append(out, p)
			if d < 3 {
				rec(p, d+1)
			}
		}
	}
	rec("", 1)
	return out
}

func runC03(c *core.Ctx) {
	c.SetRule("cases: (1) every set of <= K paths over segments {a,b} up to depth 3 (14 paths; K=3 quick: 469 sets, K=4 thorough: 1470), distinct exact amounts, x {bal, --collapse, --collapse-last} x {all foods, -s X with per-food recipes, -s X with X itself logged directly}; (2) random logs/books: Unicode and blank-containing segments, shared prefixes, negative amounts, several days, directly logged elements, foods in and not in the book, exact and general numbers; (3) library: TreeNode.AddDeep driven directly, invariant Total(n) = sum of values added at or below n checked after every add. Oracle: expected pre-order tree from generator truth; default mode compared row by row; collapse modes (prefix-free food sets only) compared by leaf set + every row a tree node. Non-trivial = >= 2 foods sharing a first segment; distinct = hash(files, element).")
	c.Assume("in --single-element mode rows whose whole subtree is exactly zero are ignored on both sides (whether a food contributing 0 is listed is not specified)")

	c.RunPart("l3-adddeep", 20*time.Minute, func(c *core.Ctx) {
		n := c.N(100000, 1000000)
		trees := 200
		core.ParallelFor(trees, c.Procs, func(w, ti int) {
			r := c.Rng("adddeep", ti)
			root := shared.NewTreeNode("", 0)
			truth := map[string]*big.Rat{}
			segs := []string{"a", "b", "c", "d e", "ж"}
			for k := 0; k < n/trees; k++ {
				depth := 1 + r.Intn(4)
				var ps []string
				for d := 0; d < depth; d++ {
					ps = append(ps, segs[r.Intn(len(segs))])
				}
				name := strings.Join(ps, "/")
				v := gen.Quarter(r.Intn(41) - 20)
				c.Crumb(w, "AddDeep "+name)
				root.AddDeep(shared.NewElement(name, v.F()), "/")
				c.Eval(1)
				for d := 1; d <= depth; d++ {
					p := strings.Join(ps[:d], "/")
					if truth[p] == nil {
						truth[p] = new(big.Rat)
					}
					truth[p].Add(truth[p], v.R)
				}
				// quiescent-point invariant on the touched chain
				node := root
				for d := 1; d <= depth; d++ {
					node = node.Children[ps[d-1]]
					p := strings.Join(ps[:d], "/")
					if node == nil || node.Name != ps[d-1] {
						c.Violation("TreeNode.AddDeep|missing-node", fmt.Sprintf("after adding %q the node %q is missing", name, p), map[string]any{"tree": ti, "add": name})
						return
					}
					if got := ratOfFloat(node.Total); got == nil || got.Cmp(truth[p]) != 0 {
						c.Violation("TreeNode.AddDeep|total", fmt.Sprintf("after adding %q=%s: Total(%q)=%v, want %s", name, v.Lit, p, node.Total, rs(truth[p])), map[string]any{"tree": ti, "add": name})
						return
					}
				}
			}
			// full walk at the end: node count and sorted keys
			count := 0
			var walk func(n *shared.TreeNode, path string)
			walk = func(nd *shared.TreeNode, path string) {
				keys := nd.Keys()
				if !sort.StringsAreSorted(keys) || len(keys) != len(nd.Children) {
					c.Violation("TreeNode.Keys|not-sorted", fmt.Sprintf("Keys() of %q = %v", path, keys), map[string]any{"tree": ti})
				}
				for _, k := range keys {
					count++
					p := k
					if path != "" {
						p = path + "/" + k
					}
					walk(nd.Children[k], p)
				}
			}
			walk(root, "")
			if count != len(truth) {
				c.Violation("TreeNode.AddDeep|node-count", fmt.Sprintf("tree has %d nodes, %d distinct paths were added", count, len(truth)), map[string]any{"tree": ti})
			}
			c.Nontrivial("adddeep", fmt.Sprint(ti))
		})
		c.Count("adddeep_trees", trees)
	})
	if c.InChild() {
		return
	}

	pool := newPool(c, c.Procs)
	if pool == nil {
		return
	}
	defer pool.Close()

	// (1) exhaustive path sets
	paths := c03AllPaths()
	maxK := c.N(3, 4)
	var sets [][]int
	var rec func(start int, cur []int)
	rec = func(start int, cur []int) {
		if len(cur) > 0 {
			sets = append(sets, append([]int{}, cur...))
		}
		if len(cur) == maxK {
			return
		}
		for i := start; i < len(paths); i++ {
			rec(i+1, append(cur, i))
		}
	}
	rec(0, nil)
	c.Count("exhaustive_path_sets", len(sets))
	core.ParallelFor(len(sets), c.Procs, func(wk, si int) {
		srv := pool.Servers[wk]
		r := c.Rng("sets", si)
		var foods []string
		for _, pi := range sets[si] {
			foods = append(foods, paths[pi])
		}
		// distinct exact amounts, spread over two days, one food logged twice
		qty := map[string]gen.Num{}
		var day1, day2 gen.Day
		day1.Date, day2.Date = gen.Date{Y: 2021, M: 1, D: 24}, gen.Date{Y: 2021, M: 1, D: 25}
		amounts, abs := map[string]*big.Rat{}, map[string]*big.Rat{}
		for k, f := range foods {
			q := gen.Half(3 + 2*k + 20*(k%2))
			if r.Intn(4) == 0 {
				q = gen.Half(-(5 + 2*k))
			}
			qty[f] = q
			amounts[f] = new(big.Rat).Set(q.R)
			abs[f] = absRat(q.R)
			if k%2 == 0 {
				day1.Ents = append(day1.Ents, gen.Ent{Name: f, Val: q})
			} else {
				day2.Ents = append(day2.Ents, gen.Ent{Name: f, Val: q})
			}
		}
		// log the first food once more on day 2
		extra := gen.Half(4)
		day2.Ents = append(day2.Ents, gen.Ent{Name: foods[0], Val: extra})
		amounts[foods[0]].Add(amounts[foods[0]], extra.R)
		abs[foods[0]].Add(abs[foods[0]], extra.R)
		log := gen.Log{day1, day2}
		files := map[string]string{"food.yaml": "", "log.yaml": gen.RenderLog(log, "2006/01/02", nil)}
		srv.Write(files)
		shared1 := false
		for i := range foods {
			for j := range foods {
				if i != j && strings.SplitN(foods[i], "/", 2)[0] == strings.SplitN(foods[j], "/", 2)[0] {
					shared1 = true
				}
			}
		}
		if shared1 {
			c.Nontrivial("set", strings.Join(foods, ","))
		}
		checkBal(c, srv, balCase{files: files, amounts: amounts, abs: abs, exact: true, foods: foods, label: "path set " + strings.Join(foods, ",")})

		// -s X: every food is a recipe with its own coefficient of element "kcal"
		var book gen.Book
		samt, sabs := map[string]*big.Rat{}, map[string]*big.Rat{}
		for k, f := range foods {
			coef := gen.Half(2 * (k + 2))
			book = append(book, gen.Recipe{Name: f, Ents: []gen.Ent{{Name: "kcal", Val: coef}, {Name: "fat", Val: gen.Half(3)}}})
			samt[f] = new(big.Rat).Mul(amounts[f], coef.R)
			sabs[f] = new(big.Rat).Mul(abs[f], coef.R)
		}
		files2 := map[string]string{"food.yaml": gen.RenderBook(book, nil), "log.yaml": files["log.yaml"]}
		srv.Write(files2)
		checkBal(c, srv, balCase{files: files2, amounts: samt, abs: sabs, element: "kcal", exact: true, foods: foods, label: "-s kcal, path set " + strings.Join(foods, ",")})

		// -s X where X itself (the last food of the set) is logged directly and is not in the book
		x := foods[len(foods)-1]
		var book3 gen.Book
		samt3, sabs3 := map[string]*big.Rat{}, map[string]*big.Rat{}
		for k, f := range foods[:len(foods)-1] {
			coef := gen.Half(2 * (k + 3))
			book3 = append(book3, gen.Recipe{Name: f, Ents: []gen.Ent{{Name: x, Val: coef}}})
			samt3[f] = new(big.Rat).Mul(amounts[f], coef.R)
			sabs3[f] = new(big.Rat).Mul(abs[f], coef.R)
		}
		samt3[x], sabs3[x] = amounts[x], abs[x]
		files3 := map[string]string{"food.yaml": gen.RenderBook(book3, nil), "log.yaml": files["log.yaml"]}
		srv.Write(files3)
		checkBal(c, srv, balCase{files: files3, amounts: samt3, abs: sabs3, element: x, exact: true, foods: foods, label: "-s " + x + " (logged directly), path set " + strings.Join(foods, ",")})
		if si == 200 {
			c.Sample(map[string]any{"part": "exhaustive", "foods": foods, "log.yaml": files["log.yaml"], "modes": "bal, bal -c, bal --collapse-last, each also with -s"})
		}
	})
	c.SetExhaustive(false)

	// (2) random worlds
	n := c.N(1000, 20000)
	core.ParallelFor(n, c.Procs, func(wk, i int) {
		srv := pool.Servers[wk]
		r := c.Rng("random", i)
		w := c03World(r, i%2 == 0)
		if i%8 == 5 && !w.Exact && len(w.Log) > 0 {
			// quantities around the limits of the 64-bit integers, written as plain integers (the model bounds the error
			// of every row by the sum of the absolute quantities below it)
			for k := 0; k < 1+r.Intn(2); k++ {
				d := r.Intn(len(w.Log))
				if len(w.Log[d].Ents) == 0 {
					continue
				}
				name := w.Log[d].Ents[r.Intn(len(w.Log[d].Ents))].Name
				w.Log[d].Ents = append(w.Log[d].Ents, gen.Ent{Name: name + "/big", Val: gen.N(gen.MachineLimitInts[r.Intn(len(gen.MachineLimitInts))])})
			}
			w.LogText = gen.RenderLog(w.Log, w.Layout, nil)
			c.Count("random_worlds_with_quantities_at_the_integer_limits", 1)
		}
		srv.Write(w.Files())
		q, qa := model.Quantities(w.Log)
		var foods []string
		for f := range q {
			foods = append(foods, f)
		}
		sort.Strings(foods)
		c.Nontrivial("random", w.BookText, w.LogText)
		checkBal(c, srv, balCase{files: w.Files(), amounts: q, abs: qa, exact: w.Exact, foods: foods, label: "random world"})
		els := w.Elements()
		if len(els) == 0 {
			return
		}
		sort.Strings(els)
		x := els[r.Intn(len(els))]
		if r.Intn(6) == 0 {
			x = w.Recipes[r.Intn(len(w.Recipes))] // a recipe name as element: contributes nothing anywhere
		}
		samt, sabs := map[string]*big.Rat{}, map[string]*big.Rat{}
		for _, d := range w.Log {
			// entry by entry (not merged per day): the error bound is the sum of the absolute terms
			for _, e := range d.Ents {
				if es, ok := w.Res[e.Name]; ok {
					if k := indexElem(es, x); k >= 0 {
						if samt[e.Name] == nil {
							samt[e.Name], sabs[e.Name] = new(big.Rat), new(big.Rat)
						}
						p := new(big.Rat).Mul(e.Val.R, es[k].V)
						samt[e.Name].Add(samt[e.Name], p)
						sabs[e.Name].Add(sabs[e.Name], new(big.Rat).Mul(absRat(e.Val.R), w.Abs[e.Name][x]))
					}
				} else if e.Name == x {
					if samt[x] == nil {
						samt[x], sabs[x] = new(big.Rat), new(big.Rat)
					}
					samt[x].Add(samt[x], e.Val.R)
					sabs[x].Add(sabs[x], absRat(e.Val.R))
				}
			}
		}
		var sfoods []string
		for f := range samt {
			sfoods = append(sfoods, f)
		}
		sort.Strings(sfoods)
		checkBal(c, srv, balCase{files: w.Files(), amounts: samt, abs: sabs, element: x, exact: w.Exact, foods: sfoods, label: "random world -s " + x})
		if i%4 == 2 && strings.TrimSpace(x) == x {
			// the element's name with a blank, a colon or quotes around it is another name: nothing in this book has it,
			// so its balance is the empty tree
			d := []string{x + "\u00a0", " " + x, x + ":", "\"" + x + "\"", "\u3000" + x, x + " "}[r.Intn(6)]
			known := false
			for _, n := range w.Elements() {
				known = known || n == d
			}
			if !known {
				checkBal(c, srv, balCase{files: w.Files(), amounts: map[string]*big.Rat{}, abs: map[string]*big.Rat{}, element: d, exact: w.Exact, foods: nil, label: "random world -s with a decorated name"})
				c.Count("single_element_balances_for_a_decorated_name", 1)
			}
		}
		if i < 2 {
			c.Sample(map[string]any{"part": "random", "food.yaml": clip(w.BookText, 600), "log.yaml": clip(w.LogText, 600), "element": x})
		}
	})
	// element names that share a prefix and go on with '/' in one and with a character that sorts before '/' in the
	// other (fat/saturated, fat-trans, fat.free, "fat (total)"): each is an element of its own, wherever a sorted
	// list puts it
	{
		srv := pool.Servers[0]
		els := []string{"fat", "fat/saturated", "fat-trans", "fat.free", "fat (total)", "fat+", "fat!", "fat/saturated/x", "fat0"}
		book := "snack/bar:\n"
		for k, e := range els {
			book += fmt.Sprintf("  %s: %d\n", e, k+2)
		}
		book += "other/thing:\n  fat-trans: 1\n  fat/saturated: 1\n"
		files := map[string]string{"food.yaml": book, "log.yaml": "2021/01/01:\n  snack/bar: 2\n  other/thing: 3\n"}
		srv.Write(files)
		for k, e := range els {
			amt := map[string]*big.Rat{"snack/bar": big.NewRat(int64(2*(k+2)), 1)}
			if e == "fat-trans" || e == "fat/saturated" {
				amt["other/thing"] = big.NewRat(3, 1)
			}
			abs := map[string]*big.Rat{}
			var foods []string
			for f, v := range amt {
				abs[f] = v
				foods = append(foods, f)
			}
			sort.Strings(foods)
			checkBal(c, srv, balCase{files: files, amounts: amt, abs: abs, element: e, exact: true, foods: foods, label: "element names around the path separator, -s " + e})
			c.Count("single_element_balances_for_names_around_the_separator", 1)
		}
	}
	// the balance of a request served by an application value that has served other requests before
	reusedApp(c, pool, c.N(200, 2500), nestedBalShape)
	jobs, deaths := pool.Stats()
	c.Count("l2_jobs", jobs)
	c.Count("l2_process_deaths", deaths)
	c.Count("l2_priming_runs", pool.Primed())
}

// c03World: names built from few segments so that prefixes are shared at several depths.
func c03World(r *rand.Rand, exact bool) *World {
	segs := gen.Names(r, 4+r.Intn(3), gen.NameOpts{Unicode: true, Spaces: true, Punct: ".,'()&+-", MaxLen: 6})
	mk := func() string {
		d := 1 + r.Intn(4)
		if r.Intn(12) == 0 {
			d = 9 + r.Intn(8) // deep category chains (up to 16 segments)
		}
		var ps []string
		for i := 0; i < d; i++ {
			ps = append(ps, segs[r.Intn(len(segs))])
		}
		return strings.Join(ps, "/")
	}
	seen := map[string]bool{}
	var names []string
	want := 8
	if r.Intn(12) == 0 {
		want = 40 + r.Intn(10) // enough names for days with more than 32 different foods
		segs = append(segs, gen.Names(r, 6, gen.NameOpts{MaxLen: 4})...)
	}
	for len(names) < want {
		n := mk()
		if !seen[n] {
			seen[n] = true
			names = append(names, n)
		}
	}
	if r.Intn(5) == 0 {
		// sibling names that differ only in the kind or amount of white space are different paths
		base := segs[0] + "/olive oil"
		for _, v := range []string{base, segs[0] + "/olive  oil", segs[0] + "/olive\u00a0oil", segs[0] + " /olive oil", segs[0] + "/olive oil /x"} {
			if !seen[v] {
				seen[v] = true
				names = append(names, v)
			}
		}
	}
	nrec := 1 + r.Intn(4)
	nbas, wide := 2, false
	if r.Intn(8) == 0 {
		// recipes with many elements (more than 16 / 32 distinct ones): the single-element balance depends on
		// every one of them being merged correctly
		nrec, nbas, wide = 4+r.Intn(4), 18+r.Intn(30), true
		for len(names) < nrec+nbas+4 {
			n := mk()
			if !seen[n] {
				seen[n] = true
				names = append(names, n)
			}
		}
	}
	w := &World{Exact: exact, Layout: "2006/01/02"}
	w.Recipes, w.Basics, w.Unknown = names[:nrec], names[nrec:nrec+nbas], names[nrec+nbas:]
	w.Book = gen.RandomBook(r, gen.BookOpts{Recipes: nrec, Basics: nbas, MaxDepth: 1 + r.Intn(3), Exact: exact, RecipeNames: w.Recipes, BasicNames: w.Basics, Wide: wide})
	if r.Intn(4) == 0 && len(w.Book) >= 1 {
		// a heading whose name begins with the comment character (in quotes): a recipe nothing can refer to; its
		// elements are its own and nobody else's
		hash := gen.Recipe{Name: "#1 combo", Ents: []gen.Ent{{Name: w.Basics[0], Val: gen.N("180")}, {Name: w.Basics[len(w.Basics)-1], Val: gen.N("75")}}}
		at := 1 + r.Intn(len(w.Book))
		w.Book = append(w.Book[:at:at], append(gen.Book{hash}, w.Book[at:]...)...)
	}
	w.Log = gen.RandomLog(r, gen.LogOpts{Days: 1 + r.Intn(4), Foods: names, Exact: exact, EmptyDays: true})
	w.Res = model.Resolve(w.Book)
	w.Abs = model.AbsPaths(w.Book)
	var st *gen.Style
	if r.Intn(3) == 0 {
		// every documented layout variant: blank and comment lines inside records, dashes, quotes, tabs, CRLF
		st = gen.Hostile(r)
	}
	w.BookText = gen.RenderBook(w.Book, st)
	w.LogText = gen.RenderLog(w.Log, w.Layout, st)
	return w
}
