package checks

import (
	"errors"
	"fmt"
	"io"
	"math/rand"
	"os"
	"os/exec"
	"path/filepath"
	"strings"
	"time"

	shared "github.com/aquilax/hranoprovod-cli/v3"
	"github.com/aquilax/hranoprovod-cli/v3/parser"

	"verif/harness/core"
	"verif/harness/gen"
	"verif/harness/run"
)

func init() {
	register(&Check{ID: "C10", Level: "fault_enumeration", Run: runC10})
}

// countingReader delivers limit bytes (limit < 0: all) in reads of at most
// chunk bytes and then fails; partial: the failing Read returns the last bytes
// together with the error. It counts what the code under test was given.
type countingReader struct {
	data      []byte
	limit     int
	chunk     int
	rnd       *rand.Rand
	partial   bool
	delivered int
	errd      bool
	eof       bool
}

var errInjected = errors.New("verif: injected input/output error")

func (f *countingReader) Read(p []byte) (int, error) {
	if len(p) == 0 {
		return 0, nil
	}
	max := len(p)
	if f.chunk > 0 && max > f.chunk {
		max = f.chunk
	}
	if f.rnd != nil {
		max = 1 + f.rnd.Intn(max)
	}
	failNow := false
	if f.limit >= 0 {
		room := f.limit - f.delivered
		if room <= 0 {
			f.errd = true
			return 0, errInjected
		}
		if max >= room {
			max = room
			failNow = f.partial
		}
	}
	rest := len(f.data) - f.delivered
	if rest == 0 {
		f.eof = true
		return 0, io.EOF
	}
	if max > rest {
		max = rest
		failNow = false
	}
	copy(p, f.data[f.delivered:f.delivered+max])
	f.delivered += max
	if failNow {
		f.errd = true
		return max, errInjected
	}
	return max, nil
}

func parseWith(rd io.Reader) (evs []parseEvent, ret error, pnc string) {
	return parseWithConfig(rd, parser.NewDefaultConfig())
}

func parseWithConfig(rd io.Reader, cfg parser.Config) (evs []parseEvent, ret error, pnc string) {
	pnc = safely(func() {
		ret = parser.ParseStreamCallback(rd, cfg, func(n *shared.ParserNode, err error) (bool, error) {
			if err != nil {
				evs = append(evs, parseEvent{Err: err.Error()})
			} else {
				evs = append(evs, parseEvent{Node: copyNode(n)})
			}
			return false, nil
		})
	})
	return
}

func eventsEqual(a, b []parseEvent) bool {
	if len(a) != len(b) {
		return false
	}
	for i := range a {
		if a[i].Err != b[i].Err {
			return false
		}
		if (a[i].Node == nil) != (b[i].Node == nil) {
			return false
		}
		if a[i].Node != nil && nodeString(a[i].Node) != nodeString(b[i].Node) {
			return false
		}
	}
	return true
}

func nodeString(n *shared.ParserNode) string {
	if n.Metadata == nil {
		return fmt.Sprintf("%q %v nil", n.Header, n.Elements)
	}
	return fmt.Sprintf("%q %v %v", n.Header, n.Elements, *n.Metadata)
}

// c10Commands: every command that reads its input through streams; idx of the
// book / log among the opened files (-1: not read).
type c10Cmd struct {
	args     []string
	book     int
	log      int
	lintFile string
}

var c10Cmds = []c10Cmd{
	{[]string{"reg"}, 0, 1, ""},
	{[]string{"reg", "--use-old-reg-reporter"}, 0, 1, ""},
	{[]string{"reg", "--internal-template-name", "left-aligned"}, 0, 1, ""},
	{[]string{"reg", "-s", "x"}, 0, 1, ""},
	{[]string{"reg", "-s", "x", "-g"}, 0, 1, ""},
	{[]string{"reg", "-f", "a"}, 0, 1, ""},
	{[]string{"reg", "--totals-only"}, 0, 1, ""},
	{[]string{"bal"}, 0, 1, ""},
	{[]string{"bal", "-c"}, 0, 1, ""},
	{[]string{"bal", "--collapse-last"}, 0, 1, ""},
	{[]string{"bal", "-s", "x"}, 0, 1, ""},
	{[]string{"csv", "log"}, -1, 0, ""},
	{[]string{"csv", "database"}, 0, -1, ""},
	{[]string{"csv", "database-resolved"}, 0, -1, ""},
	{[]string{"print"}, -1, 0, ""},
	{[]string{"summary", "2021/01/24"}, 0, 1, ""},
	{[]string{"report", "element-total", "x"}, 0, -1, ""},
	{[]string{"report", "unresolved"}, 0, 1, ""},
	{[]string{"report", "quantity"}, -1, 0, ""},
	{[]string{"report", "totals"}, 0, 1, ""},
	{[]string{"lint", "food.yaml"}, 0, -1, "food.yaml"},
	{[]string{"lint", "log.yaml"}, -1, 0, "log.yaml"},
	{[]string{"lint", "--silent", "food.yaml"}, 0, -1, "food.yaml"},
	{[]string{"lint", "-s", "log.yaml"}, -1, 0, "log.yaml"},
}

func c10Files(r *rand.Rand, small bool) (book, log string) {
	nb := 2 + r.Intn(3)
	b := gen.RandomBook(r, gen.BookOpts{Recipes: nb, Basics: 2, MaxDepth: 2, Exact: true, RecipeNames: []string{"a/b", "a/c", "d", "e f", "g"}[:nb], BasicNames: []string{"x", "y"}})
	l := gen.RandomLog(r, gen.LogOpts{Days: 1 + r.Intn(3), MaxEnts: 3, Foods: []string{"a/b", "a/c", "d", "x", "zz"}, Exact: true, Sorted: true, Notes: true})
	var st *gen.Style
	if !small {
		st = gen.Hostile(r)
	}
	return gen.RenderBook(b, st), gen.RenderLog(l, "2006/01/02", st)
}

func runC10(c *core.Ctx) {
	// in the background: a writer that is silent for half a minute has not reached the end of the file
	if !c.InChild() {
		waitPaused := pausedPipes(c, map[string]string{"reg": "log", "csv database-resolved": "book", "print": "log"})
		defer waitPaused()
	}
	// plus command shapes drawn from the catalogue (flag combinations nobody listed by hand); stats opens
	// its files by name and is exercised in the real-process part
	{
		r := c.Rng("shapes", 0)
		have := map[string]bool{}
		for _, cmd := range c10Cmds {
			have[joinArgs(cmd.args)] = true
		}
		for n := 0; n < 8; {
			sp := randomCmd(r, "x", "a", "2021/01/24")
			if have[joinArgs(sp.Args)] || sp.Args[0] == "stats" {
				continue
			}
			have[joinArgs(sp.Args)] = true
			cc := c10Cmd{args: sp.Args, book: -1, log: -1}
			idx := 0
			if sp.Book {
				cc.book, idx = idx, idx+1
			}
			if sp.Log {
				cc.log = idx
			}
			c10Cmds = append(c10Cmds, cc)
			n++
		}
	}
	c.SetRule("faults: (1) library: for each small generated file every byte offset k in 0..len at which the reader starts failing x chunking {1 byte, 7 bytes, whole, random} x fault shape {(0,err), (n>0,err)}, plus lines of 64 KiB-1, 64 KiB, 64 KiB+1, 1 MiB as comment/note/entry/heading at first/middle/last position; (2) the same offsets through every stream-reading command of the real program (fault jobs: counting reader wrapped around the real files) on the log and on the book; (3) real binary: directory or missing file as log/book, files with a 70 KiB line, strace read-error injection incl. stats. Invariants: error delivered => failure; success => EOF was delivered and the result equals the fault-free one. Non-trivial = a faulted run in which the reader did deliver its error (counted from the wrapper); distinct = hash(file, offset, chunking, shape, command).")
	c.Assume("a reader that fails at offset k fails on every later Read as well (sticky fault)")

	c.RunPart("l3-offsets", 30*time.Minute, func(c *core.Ctx) {
		nfiles := c.N(200, 2000)
		core.ParallelFor(nfiles, c.Procs, func(w, i int) {
			r := c.Rng("files", i)
			book, log := c10Files(r, true)
			text := book
			if i%2 == 1 {
				text = log
			}
			if len(text) > 400 {
				text = text[:strings.LastIndex(text[:400], "\n")+1]
			}
			if i%5 == 3 {
				// a note line above the first heading (left by an export tool, or what remains when the first heading was
				// commented out): it belongs to no record, and everything below it is still part of the file
				text = []string{"  # exported from the kitchen spreadsheet\n", "\t#\n", "- # x: 1\n", "# a comment\n\n  # then a note\n"}[r.Intn(4)] + text
				c.Count("l3_files_with_a_note_above_the_first_heading", 1)
			}
			if i%3 == 2 {
				// lines a YAML reader gives a meaning to (document markers, directives): here they are ordinary lines,
				// and whatever follows them is part of the file
				lines := strings.SplitAfter(text, "\n")
				at := r.Intn(len(lines))
				marker := []string{"...\n", "---\n", "... \n", "%YAML 1.2\n", "...:\n", "...\n"}[r.Intn(6)]
				text = strings.Join(lines[:at], "") + marker + strings.Join(lines[at:], "")
				c.Count("l3_files_with_yaml_marker_lines", 1)
			}
			data := []byte(text)
			ref, refErr, _ := parseWith(&countingReader{data: data, limit: -1})
			if refErr != nil {
				c.HarnessError("fault-free parse failed: " + refErr.Error())
				return
			}
			c.Crumb(w, fmt.Sprintf("file %d", i))
			// the fault-free reference itself against the file: one record per heading, one entry per entry line
			wantRecs, wantEnts := c10CountHeadings(text), c10CountEntries(text)
			gotEnts := 0
			for _, e := range ref {
				if e.Node != nil {
					gotEnts += len(e.Node.Elements)
				}
			}
			if len(ref) != wantRecs || gotEnts != wantEnts {
				c.Violation("ParseStreamCallback|success-on-a-part-of-the-file", fmt.Sprintf("fault-free parse returned nil with %d records / %d entries; the file has %d headings / %d entry lines", len(ref), gotEnts, wantRecs, wantEnts), map[string]any{"file": text})
			}
			// the same content under every way a file can end (no terminator, CRLF, a CRLF cut before its LF) and
			// with CRLF throughout: the same records
			body := strings.TrimRight(text, "\n")
			for _, alt := range []string{body, body + "\r\n", body + "\r", strings.ReplaceAll(body, "\n", "\r\n") + "\r", strings.ReplaceAll(body, "\n", "\r\n") + "\r\n"} {
				for _, chunk := range []int{0, 1} {
					rd := &countingReader{data: []byte(alt), limit: -1, chunk: chunk}
					evs, ret, pnc := parseWith(rd)
					c.Eval(1)
					c.Count("l3_file_ending_variants", 1)
					if pnc != "" || ret != nil || !rd.eof || !eventsEqual(evs, ref) {
						c.Violation("ParseStreamCallback|file-ending-changes-the-records", fmt.Sprintf("file ending in %q: returned %v, panic %q, %d records (the same lines ending in a line feed give %d)", alt[max(0, len(alt)-3):], ret, clip(pnc, 100), len(evs), len(ref)), map[string]any{"file": alt, "chunk": chunk})
						break
					}
				}
			}
			for _, chunk := range []int{1, 7, 0, -1} {
				for _, partial := range []bool{false, true} {
					for k := -1; k <= len(data); k++ {
						rd := &countingReader{data: data, limit: k, chunk: chunk, partial: partial}
						if chunk == -1 {
							rd.chunk = 0
							rd.rnd = rand.New(rand.NewSource(int64(i*1000 + k)))
						}
						evs, ret, pnc := parseWith(rd)
						c.Eval(1)
						rep := map[string]any{"file": text, "fail_at_offset": k, "chunk": chunk, "error_with_data": partial, "returned": fmt.Sprint(ret), "delivered": rd.delivered}
						switch {
						case pnc != "":
							c.Violation("ParseStreamCallback|panic", clip(pnc, 300), rep)
						case rd.errd && ret == nil:
							c.Violation("ParseStreamCallback|read-error-swallowed", fmt.Sprintf("reader failed at offset %d of %d, parser returned nil after %d records", k, len(data), len(evs)), rep)
						case ret == nil && !rd.eof:
							c.Violation("ParseStreamCallback|success-without-eof", fmt.Sprintf("parser returned nil without reading to EOF (delivered %d of %d)", rd.delivered, len(data)), rep)
						case ret == nil && !eventsEqual(evs, ref):
							c.Violation("ParseStreamCallback|success-with-different-records", fmt.Sprintf("chunking %d changed the result", chunk), rep)
						case !rd.errd && ret != nil:
							c.Violation("ParseStreamCallback|error-without-fault", fmt.Sprintf("no fault delivered but parser returned %v", ret), rep)
						}
						if rd.errd {
							c.Nontrivial(text, fmt.Sprint(k, chunk, partial))
							c.Count("l3_faults_delivered", 1)
						}
					}
				}
			}
			if i == 0 {
				c.Sample(map[string]any{"part": "l3-offsets", "file": text, "offsets": fmt.Sprintf("-1..%d", len(data)), "chunkings": "1,7,whole,random", "shapes": "(0,err),(n,err)"})
			}
		})
		c.Count("l3_files_all_offsets", nfiles)
	})

	c.RunPart("l3-long-lines", 30*time.Minute, func(c *core.Ctx) {
		sizes := []int{65535, 65536, 65537, 70000, 1 << 20}
		kinds := []string{"comment", "note", "entry", "heading"}
		for _, size := range sizes {
			for _, kind := range kinds {
				for _, pos := range []string{"first", "middle", "last"} {
					long := c10LongLine(kind, size)
					head := "a:\n  x: 1\n"
					tail := "b:\n  y: 2\n"
					var text string
					switch pos {
					case "first":
						if kind == "note" || kind == "entry" {
							text = "h:\n" + long + "\n" + tail
						} else {
							text = long + "\n" + tail
						}
					case "middle":
						text = head + long + "\n" + tail
					default:
						text = head + long
					}
					rd := &countingReader{data: []byte(text), limit: -1}
					evs, ret, pnc := parseWith(rd)
					c.Eval(1)
					c.Count("long_line_cases", 1)
					c.Nontrivial("long", kind, pos, fmt.Sprint(size))
					rep := map[string]any{"line_kind": kind, "line_bytes": size, "position": pos, "returned": fmt.Sprint(ret), "records": len(evs), "delivered": rd.delivered, "total": len(text)}
					if pnc != "" {
						c.Violation("ParseStreamCallback|panic", clip(pnc, 300), rep)
						continue
					}
					if ret == nil {
						// an implementation may enlarge the buffer: then the whole file must have been taken into account
						wantRecs := strings.Count(text, "\na:")*0 + c10CountHeadings(text)
						if !rd.eof || len(evs) != wantRecs {
							c.Violation("ParseStreamCallback|long-line-truncates-silently", fmt.Sprintf("%s line of %d bytes (%s): returned nil with %d of %d records, read %d of %d bytes", kind, size, pos, len(evs), wantRecs, rd.delivered, len(text)), rep)
						}
					}
				}
			}
		}
		// the same over-long lines after every kind of line (round 12, K10: the scanner's error was dropped when the
		// last significant line before it was a note): the line(s) standing directly before the long line vary
		before := []struct{ what, text string }{
			{"note", "a:\n  x: 1\n  # k: v\n"}, {"bare note", "a:\n  #\n"}, {"note, blank", "a:\n  x: 1\n  # k: v\n\n"},
			{"note, comment", "a:\n  # k: v\n# c\n"}, {"comment", "a:\n  x: 1\n# c\n"}, {"blank", "a:\n  x: 1\n\n"},
			{"heading", "a:\n  x: 1\nc:\n"}, {"note above the first heading", "  # k: v\n"}, {"malformed-free quoted entry", "a:\n  \"x y\": 1\n"},
		}
		for _, size := range sizes {
			for _, kind := range kinds {
				for _, bf := range before {
					for _, pos := range []string{"middle", "last"} {
						long := c10LongLine(kind, size)
						text := bf.text + long
						if pos == "middle" {
							text += "\nb:\n  y: 2\n"
						}
						rd := &countingReader{data: []byte(text), limit: -1}
						evs, ret, pnc := parseWith(rd)
						c.Eval(1)
						c.Count("long_line_cases_after_other_lines", 1)
						c.Nontrivial("long-after", kind, bf.what, pos, fmt.Sprint(size))
						rep := map[string]any{"line_kind": kind, "line_bytes": size, "after": bf.what, "position": pos, "returned": fmt.Sprint(ret), "records": len(evs), "delivered": rd.delivered, "total": len(text)}
						if pnc != "" {
							c.Violation("ParseStreamCallback|panic", clip(pnc, 300), rep)
							continue
						}
						if ret == nil {
							if wantRecs := c10CountHeadings(text); !rd.eof || len(evs) != wantRecs {
								c.Violation("ParseStreamCallback|long-line-truncates-silently", fmt.Sprintf("%s line of %d bytes after a %s (%s): returned nil with %d of %d records, read %d of %d bytes", kind, size, bf.what, pos, len(evs), wantRecs, rd.delivered, len(text)), rep)
							}
						}
					}
				}
			}
		}
		c.Sample(map[string]any{"part": "l3-long-lines", "sizes": sizes, "kinds": kinds, "positions": "first,middle,last", "after": "entry; and (middle,last) after note, bare note, note+blank, note+comment, comment, blank, heading, note above the first heading, quoted entry"})
	})

	c.RunPart("l3-large", 20*time.Minute, func(c *core.Ctx) {
		// inputs larger than any plausible internal cap: success requires EOF and every record
		rec := "2021/01/24:\n  a/b: 1\n  zz: 2.5\n\n"
		for _, mib := range []int{5, 17, 33} {
			n := mib << 20 / len(rec)
			data := []byte(strings.Repeat(rec, n))
			rd := &countingReader{data: data, limit: -1}
			count := 0
			var ret error
			pnc := safely(func() {
				ret = parser.ParseStreamCallback(rd, parser.NewDefaultConfig(), func(nd *shared.ParserNode, err error) (bool, error) {
					if err == nil && nd != nil && len(nd.Elements) == 2 {
						count++
					}
					return false, nil
				})
			})
			c.Eval(1)
			c.Count("large_input_cases", 1)
			c.Nontrivial("large", fmt.Sprint(mib))
			rep := map[string]any{"input_bytes": len(data), "records": n, "records_seen": count, "delivered": rd.delivered, "eof_delivered": rd.eof, "returned": fmt.Sprint(ret)}
			if pnc != "" {
				c.Violation("ParseStreamCallback|panic", clip(pnc, 300), rep)
			} else if ret == nil && (!rd.eof || count != n) {
				c.Violation("ParseStreamCallback|success-without-eof", fmt.Sprintf("input of %d MiB: returned nil after %d of %d records, %d of %d bytes read, EOF delivered: %v", mib, count, n, rd.delivered, len(data), rd.eof), rep)
			}
		}
	})

	if c.InChild() {
		return
	}

	// (2) fault jobs through every stream-reading command
	pool := newPool(c, c.Procs)
	if pool == nil {
		return
	}
	defer pool.Close()
	nfiles := c.N(2, 12)
	type fj struct {
		file  int
		cmd   int
		which string // "book" | "log"
		k     int
		chunk int
		part  bool
	}
	type world struct{ book, log string }
	worlds := make([]world, nfiles)
	var jobs []fj
	for i := range worlds {
		r := c.Rng("world", i)
		b, l := c10Files(r, i%2 == 0)
		if len(b) > 700 {
			b = b[:strings.LastIndex(b[:700], "\n")+1]
		}
		if len(l) > 500 {
			l = l[:strings.LastIndex(l[:500], "\n")+1]
		}
		worlds[i] = world{b, l}
		for ci, cmd := range c10Cmds {
			for _, which := range []string{"book", "log"} {
				idx, size := cmd.book, len(b)
				if which == "log" {
					idx, size = cmd.log, len(l)
				}
				if idx < 0 {
					continue
				}
				for k := -1; k <= size; k++ {
					chunk := []int{0, 1, 5, 64}[(k+1+ci)%4]
					jobs = append(jobs, fj{i, ci, which, k, chunk, (k+ci)%3 == 0})
				}
			}
		}
	}
	c.Count("fault_job_worlds", nfiles)
	// reference (fault-free) output per (world, command)
	refs := make(map[[2]int]run.FaultRes)
	for i, wd := range worlds {
		srv := pool.Servers[0]
		srv.Write(map[string]string{"food.yaml": wd.book, "log.yaml": wd.log})
		for ci, cmd := range c10Cmds {
			res := srv.Fault(run.FaultJob{Args: append([]string{"--no-color", "-d", "food.yaml", "-l", "log.yaml", "--today", "2021/02/01"}, cmd.args...), SinkLimit: -1}, nil)
			refs[[2]int{i, ci}] = res
			if cmd.lintFile == "" {
				// the same command started by a caller whose own context is already cancelled: nothing in the program
				// observes that context, so the files are read to their ends and the report is the whole report
				args := append([]string{"--no-color", "-d", "food.yaml", "-l", "log.yaml", "--today", "2021/02/01"}, cmd.args...)
				plain, cancelled := srv.App1(args, nil), srv.AppCancelled(args)
				c.Eval(2)
				c.Count("l2_runs_under_a_cancelled_context", 1)
				if cancelled.Panic != "" || cancelled.Out != plain.Out || cancelled.Exit != plain.Exit {
					c.Violation(strings.Join(cmd.args[:min(2, len(cmd.args))], " ")+"|differs-under-a-cancelled-context", fmt.Sprintf("%s through RunContext with a cancelled context: exit %d, %d bytes; through Run: exit %d, %d bytes", joinArgs(cmd.args), cancelled.Exit, len(cancelled.Out), plain.Exit, len(plain.Out)),
						caseDoc{Files: map[string]string{"food.yaml": wd.book, "log.yaml": wd.log}, Args: args, Expected: resDoc(plain), Observed: resDoc(cancelled)})
				}
			}
			if res.Exit != 0 || res.Died != "" || res.Panic != "" {
				c.HarnessError(fmt.Sprintf("fault-free run of %v failed: exit %d err %q %s %s\nbook:\n%s\nlog:\n%s", cmd.args, res.Exit, res.Err, res.Panic, res.Died, wd.book, wd.log))
				return
			}
		}
	}
	lastWorld := make([]int, c.Procs)
	for i := range lastWorld {
		lastWorld[i] = -1
	}
	core.ParallelFor(len(jobs), c.Procs, func(w, ji int) {
		j := jobs[ji]
		srv := pool.Servers[w]
		wd := worlds[j.file]
		if lastWorld[w] != j.file {
			srv.Write(map[string]string{"food.yaml": wd.book, "log.yaml": wd.log})
			lastWorld[w] = j.file
		}
		cmd := c10Cmds[j.cmd]
		idx := cmd.book
		if j.which == "log" {
			idx = cmd.log
		}
		args := append([]string{"--no-color", "-d", "food.yaml", "-l", "log.yaml", "--today", "2021/02/01"}, cmd.args...)
		job := run.FaultJob{Args: args, SinkLimit: -1, Reads: []run.ReadFault{{Idx: idx, Limit: j.k, Chunk: j.chunk, Partial: j.part}}}
		res := srv.Fault(job, nil)
		c.Eval(1)
		ref := refs[[2]int{j.file, j.cmd}]
		rep := caseDoc{Files: map[string]string{"food.yaml": wd.book, "log.yaml": wd.log}, Args: args,
			Note:     fmt.Sprintf("reader of the %s fails at byte offset %d (chunk %d, error-with-data %v)", j.which, j.k, j.chunk, j.part),
			Observed: map[string]any{"exit": res.Exit, "err": res.Err, "stdout": clip(res.Out, 1500), "readers": res.Readers, "panic": clip(res.Panic, 1500), "died": clip(res.Died, 1500)}}
		sig := strings.Join(cmd.args[:min(2, len(cmd.args))], " ")
		if cmd.args[0] == "summary" || cmd.args[0] == "lint" {
			sig = cmd.args[0]
		}
		if res.Died != "" || res.Panic != "" {
			c.Violation(sig+"|crash-on-read-fault", clip(res.Died+res.Panic, 300), rep)
			return
		}
		errd, alleof := false, true
		for _, rd := range res.Readers {
			if rd.Errd {
				errd = true
			}
			if !rd.EOF {
				alleof = false
			}
		}
		switch {
		case errd && res.Exit == 0:
			c.Violation(sig+"|read-error-swallowed", fmt.Sprintf("%s: reader of the %s failed at offset %d, command succeeded with %d bytes of report", joinArgs(cmd.args), j.which, j.k, len(res.Out)), rep)
		case res.Exit == 0 && !alleof:
			c.Violation(sig+"|success-without-eof", fmt.Sprintf("%s: success although a file was not read to EOF", joinArgs(cmd.args)), rep)
		case res.Exit == 0 && res.Out != ref.Out:
			c.Violation(sig+"|success-with-different-report", fmt.Sprintf("%s: chunked/faulted run succeeded with a report different from the fault-free one", joinArgs(cmd.args)), rep)
		case !errd && res.Exit != 0:
			c.Violation(sig+"|error-without-fault", fmt.Sprintf("%s: no fault delivered, yet exit %d (%s)", joinArgs(cmd.args), res.Exit, res.Err), rep)
		}
		if errd {
			c.Nontrivial("job", wd.book, wd.log, joinArgs(cmd.args), j.which, fmt.Sprint(j.k))
			c.Count("l2_faults_delivered", 1)
		}
		if ji == 100 {
			c.Sample(map[string]any{"part": "fault-job", "args": joinArgs(args), "fault": rep.Note, "exit": res.Exit, "err": res.Err, "readers": res.Readers})
		}
	})
	c.Count("l2_fault_jobs", len(jobs))

	// (3) real binary
	c10L1(c)
	c10Gigabyte(c)
}

// c10Gigabyte: a log of more than 1 GiB streamed through a pipe; the last day carries a
// sentinel food that must be in the report.
func c10Gigabyte(c *core.Ctx) {
	day := "2021/01/24:\n  " + strings.Repeat("f", 230) + ": 1\n  water: 2\n\n" // 256 bytes
	if len(day) != 256 {
		day += strings.Repeat("\n", 256-len(day)%256)
	}
	days := (1<<30)/len(day) + 4
	for ai, args := range [][]string{{"-l", "/dev/stdin", "report", "quantity"}, {"-d", "/dev/null", "-l", "/dev/stdin", "reg", "-s", "sentinel"}} {
		if ai > 0 && c.Quick() {
			break // the quick tier streams the gigabyte once
		}
		cmd := exec.Command(c.HR, args...)
		cmd.Env = run.BaseEnv()
		cmd.Dir = c.Work
		in, err := cmd.StdinPipe()
		if err != nil {
			c.Inconclusive("gigabyte-input", err.Error())
			return
		}
		var out, serr strings.Builder
		cmd.Stdout, cmd.Stderr = &out, &serr
		if err := cmd.Start(); err != nil {
			c.Inconclusive("gigabyte-input", err.Error())
			return
		}
		go func() {
			chunk := strings.Repeat(day, 4096) // 1 MiB
			for k := 0; k < days/4096; k++ {
				if _, err := io.WriteString(in, chunk); err != nil {
					break
				}
			}
			io.WriteString(in, strings.Repeat(day, days%4096))
			io.WriteString(in, "2021/01/25:\n  sentinel: 7\n")
			in.Close()
		}()
		done := make(chan error, 1)
		go func() { done <- cmd.Wait() }()
		var werr error
		select {
		case werr = <-done:
		case <-time.After(15 * time.Minute):
			cmd.Process.Kill()
			<-done
			c.Inconclusive("gigabyte-input", "watchdog")
			continue
		}
		c.Eval(1)
		c.Count("gigabyte_input_runs", 1)
		c.Nontrivial("gigabyte", joinArgs(args))
		if werr == nil && !strings.Contains(out.String(), "sentinel") {
			c.Violation(strings.Join(args[len(args)-2:], " ")+"|success-on-a-prefix", fmt.Sprintf("%s on a log of %d MiB from a pipe exits 0 without the last day's food", joinArgs(args), days*len(day)>>20),
				caseDoc{Args: args, Note: fmt.Sprintf("%d days of 256 bytes followed by a day with 'sentinel: 7', streamed to stdin", days), Observed: map[string]any{"stdout_tail": clip(out.String()[max(0, out.Len()-300):], 300), "stderr": clip(serr.String(), 300)}})
		}
	}
}

func c10CountHeadings(text string) int {
	n := 0
	for _, ln := range strings.Split(text, "\n") {
		if ln != "" && ln[0] != ' ' && ln[0] != '\t' && ln[0] != '#' && ln[0] != '-' {
			n++
		}
	}
	return n
}

// c10CountEntries counts the entry lines of a well-formed generated file: indented, not a note.
func c10CountEntries(text string) int {
	n := 0
	for _, ln := range strings.Split(text, "\n") {
		t := strings.Trim(ln, " \t\r-")
		if ln != "" && (ln[0] == ' ' || ln[0] == '\t' || ln[0] == '-') && t != "" && t[0] != '#' {
			n++
		}
	}
	return n
}

func c10LongLine(kind string, size int) string {
	switch kind {
	case "comment":
		return "#" + strings.Repeat("c", size-1)
	case "note":
		return "  # " + strings.Repeat("n", size-4)
	case "entry":
		return "  " + strings.Repeat("e", size-5) + ": 1"
	default:
		return strings.Repeat("h", size-1) + ":"
	}
}

func c10L1(c *core.Ctx) {
	dir := filepath.Join(c.Work, "l1")
	book := "a/b:\n  x: 2\n  y: 1\n\nd:\n  a/b: 2\n"
	log := "2021/01/24:\n  a/b: 1\n  zz: 2\n\n2021/01/25:\n  d: 1.5\n  x: 1\n"
	files := map[string]string{"food.yaml": book, "log.yaml": log,
		"longlog.yaml":  "2021/01/24:\n  a/b: 1\n  # " + strings.Repeat("n", 70000) + "\n  zz: 2\n\n2021/01/25:\n  d: 1.5\n",
		"longbook.yaml": "a/b:\n  x: 2\n#" + strings.Repeat("c", 70000) + "\n  y: 1\n\nd:\n  a/b: 2\n",
	}
	if err := run.WriteFiles(dir, files); err != nil {
		c.HarnessError(err.Error())
		return
	}
	os.MkdirAll(filepath.Join(dir, "adir"), 0o755)
	type variant struct{ what, d, l string }
	variants := []variant{
		{"directory as log", "food.yaml", "adir"},
		{"directory as book", "adir", "log.yaml"},
		{"missing log", "food.yaml", "nonexistent.yaml"},
		{"missing book", "nonexistent.yaml", "log.yaml"},
		{"70 KiB note line in log", "food.yaml", "longlog.yaml"},
		{"70 KiB comment line in book", "longbook.yaml", "log.yaml"},
	}
	cmds := append([]c10Cmd{}, c10Cmds...)
	cmds = append(cmds, c10Cmd{[]string{"stats"}, 0, 1, ""})
	pr := c.Rng("periods", 0)
	for vi, v := range variants {
		for ci, cmd := range cmds {
			uses := (strings.Contains(v.what, "log") && cmd.log >= 0) || (strings.Contains(v.what, "book") && cmd.book >= 0)
			if !uses {
				continue
			}
			args := []string{"--no-color", "-d", v.d, "-l", v.l, "--today", "2021/02/01"}
			if (vi+ci)%2 == 1 && cmd.args[0] != "summary" {
				// a period that keeps no day, every day or is inverted: an unreadable file is an error all the same
				args = append(args, randomPeriod(pr, func(y, m, d int) string { return fmt.Sprintf("%04d/%02d/%02d", y, m, d) })...)
			}
			if (vi+ci)%3 == 0 {
				// limits of 0 and 1 (nothing may be nested): an unreadable file is still the error that is reported
				args = append(args, "--maxdepth", []string{"0", "1", "0"}[(vi+ci)%3+ci%2])
			}
			args = append(args, cmd.args...)
			if cmd.lintFile != "" {
				f := v.d
				if cmd.lintFile == "log.yaml" {
					f = v.l
				}
				args = []string{"--no-color", "lint"}
				if len(cmd.args) == 3 {
					args = append(args, cmd.args[1])
				}
				args = append(args, f)
			}
			res := run.Exec(c.HR, args, run.ExecOpts{Dir: dir})
			c.Eval(1)
			c.Count("l1_unreadable_input_runs", 1)
			c.Nontrivial("l1", v.what, joinArgs(args))
			doc := caseDoc{Args: args, Note: v.what, Observed: resDoc(res)}
			sig := strings.Join(cmd.args[:min(2, len(cmd.args))], " ")
			if cmd.args[0] == "summary" || cmd.args[0] == "lint" {
				sig = cmd.args[0]
			}
			if res.Crashed() {
				c.Violation(sig+"|crash-on-unreadable-input", v.what+": "+clip(res.Serr, 300), doc)
			} else if res.Exit == 0 {
				c.Violation(sig+"|unreadable-input-accepted", fmt.Sprintf("%s: %s exits 0 with %d bytes of report", v.what, joinArgs(cmd.args), len(res.Out)), doc)
			}
		}
	}
	// lint given further arguments after the unreadable file: the failure of the file it names first is not
	// outvoted by whatever comes after it
	for _, v := range []struct{ what, file string }{{"directory", "adir"}, {"70 KiB note line", "longlog.yaml"}, {"missing file", "nonexistent.yaml"}} {
		for _, extra := range [][]string{{"log.yaml"}, {"food.yaml", "log.yaml"}} {
			for _, silent := range []bool{false, true} {
				args := []string{"--no-color", "lint"}
				if silent {
					args = append(args, "--silent")
				}
				args = append(append(args, v.file), extra...)
				res := run.Exec(c.HR, args, run.ExecOpts{Dir: dir})
				c.Eval(1)
				c.Count("l1_lint_with_further_arguments", 1)
				c.Nontrivial("l1lint", v.what, joinArgs(args))
				if res.Crashed() || res.Exit == 0 {
					c.Violation("lint|unreadable-input-accepted", fmt.Sprintf("lint of a %s followed by readable files: exit %d", v.what, res.Exit), caseDoc{Args: args, Note: v.what, Observed: resDoc(res)})
				}
			}
		}
	}
	// lint tolerates malformed lines and goes on; however many it has tolerated, the part of the file it could not
	// read is still an error: k malformed lines (mixed kinds, spread over records), then a line beyond the line
	// buffer / a read error from the device (a directory entry cannot follow, so: /proc/self/mem-like failure is
	// modelled by the over-long line and, in the job server, by the failing reader)
	for _, k := range []int{1, 3, 50, 99, 100, 101, 128, 250, 1000, 5000} {
		var sb strings.Builder
		for m := 0; m < k; m++ {
			if m%7 == 0 {
				fmt.Fprintf(&sb, "2021/01/%02d:\n  fine: 1\n", 1+m%28)
			}
			sb.WriteString([]string{"  no separator here\n", "  value: abc\n", "  comma: 1,5\n", "  two: 1.2.3\n"}[m%4])
		}
		text := sb.String() + "2021/02/01:\n  # " + strings.Repeat("n", 70000) + "\n  last: 1\n"
		name := fmt.Sprintf("tolerated%d.yaml", k)
		os.WriteFile(filepath.Join(dir, name), []byte(text), 0o644)
		for _, silent := range []bool{false, true} {
			args := []string{"--no-color", "lint"}
			if silent {
				args = append(args, "--silent")
			}
			args = append(args, name)
			res := run.Exec(c.HR, args, run.ExecOpts{Dir: dir})
			c.Eval(1)
			c.Count("l1_lint_unreadable_after_tolerated_problems", 1)
			c.Nontrivial("l1lint-tolerated", fmt.Sprint(k, silent))
			if res.Crashed() || res.Exit == 0 {
				c.Violation("lint|unreadable-input-accepted", fmt.Sprintf("lint of a file with %d malformed lines followed by a 70 KiB line: exit %d", k, res.Exit), caseDoc{Args: args, Note: fmt.Sprintf("generated file: %d malformed lines in records of 7, then a record with a comment line of 70000 bytes", k), Observed: map[string]any{"exit": res.Exit, "stdout_bytes": len(res.Out), "stderr": clip(res.Serr, 400)}})
			}
		}
		// the same file without the over-long line, read through a reader that fails right after the last malformed line
		if srv, err := run.NewServer(c.HR, filepath.Join(c.Work, "l1-tolerated-srv")); err == nil {
			defer srv.Close()
			good := sb.String() + "2021/02/01:\n  last: 1\n"
			srv.Write(map[string]string{name: good})
			fr := srv.Fault(run.FaultJob{Args: []string{"--no-color", "lint", name}, SinkLimit: -1, Reads: []run.ReadFault{{Idx: 0, Limit: len(sb.String()) + 3}}}, nil)
			c.Eval(1)
			c.Count("l2_lint_read_fault_after_tolerated_problems", 1)
			if fr.Died == "" && fr.Panic == "" && fr.Exit == 0 {
				c.Violation("lint|read-error-dropped", fmt.Sprintf("lint of a file with %d malformed lines whose reader fails after them: exit 0", k), caseDoc{Args: []string{"--no-color", "lint", name}, Note: fmt.Sprintf("reader fails at byte %d, after %d malformed lines", len(sb.String())+3, k), Observed: map[string]any{"exit": fr.Exit, "readers": fr.Readers}})
			}
		}
	}
	// a book in which a heading is declared once more with nothing under it (the later declaration counts; a record
	// like any other for the reader): what follows it is still part of the file - its recipes are loaded, and a line
	// beyond the line buffer further down is still an error
	{
		head := "a/b:\n  x: 2\n  y: 1\n\nd:\n  a/b: 2\n\na/b:\nzz:\n  y: 7\n"
		os.WriteFile(filepath.Join(dir, "redecl.yaml"), []byte(head), 0o644)
		os.WriteFile(filepath.Join(dir, "redecl-long.yaml"), []byte(head+"late:\n  # "+strings.Repeat("n", 70000)+"\n  x: 1\n"), 0o644)
		os.WriteFile(filepath.Join(dir, "redecl-log.yaml"), []byte("2021/01/24:\n  zz: 1\n  d: 1\n"), 0o644)
		for _, cmd := range [][]string{{"reg"}, {"bal"}, {"csv", "database-resolved"}, {"report", "totals"}, {"report", "element-total", "y"}, {"summary", "2021/01/24"}, {"report", "unresolved"}} {
			args := append([]string{"--no-color", "-d", "redecl.yaml", "-l", "redecl-log.yaml"}, cmd...)
			okRes := run.Exec(c.HR, args, run.ExecOpts{Dir: dir})
			largs := append([]string{"--no-color", "-d", "redecl-long.yaml", "-l", "redecl-log.yaml"}, cmd...)
			bad := run.Exec(c.HR, largs, run.ExecOpts{Dir: dir})
			c.Eval(2)
			c.Count("l1_books_with_a_bare_redeclared_heading", 1)
			c.Nontrivial("redeclared", joinArgs(cmd))
			sig := strings.Join(cmd[:min(2, len(cmd))], " ")
			showsAmounts := cmd[0] != "bal" && !(cmd[0] == "report" && cmd[1] == "unresolved")
			if okRes.Exit != 0 || (showsAmounts && !strings.Contains(okRes.Out, "7")) {
				c.Violation(sig+"|records-after-a-bare-heading-lost", fmt.Sprintf("%s: exit %d, the recipe declared after the bare heading (zz: y 7) does not show: %q", joinArgs(cmd), okRes.Exit, clip(okRes.Out, 200)), caseDoc{Args: args, Note: "book: " + head, Observed: resDoc(okRes)})
			}
			if bad.Crashed() || bad.Exit == 0 {
				c.Violation(sig+"|unreadable-input-accepted", fmt.Sprintf("a 70 KiB line after a bare redeclared heading: %s exits %d", joinArgs(cmd), bad.Exit), caseDoc{Args: largs, Note: "book: " + head + "late:\n  # <70000 bytes>\n  x: 1", Observed: map[string]any{"exit": bad.Exit, "stderr": clip(bad.Serr, 300), "stdout_bytes": len(bad.Out)}})
			}
		}
	}
	// a file whose last byte is a carriage return (CRLF file cut before the final line feed): every line counts
	{
		crlog := strings.ReplaceAll(strings.TrimRight(log, "\n"), "\n", "\r\n") + "\r"
		crbook := strings.ReplaceAll(strings.TrimRight(book, "\n"), "\n", "\r\n") + "\r"
		os.WriteFile(filepath.Join(dir, "crlog.yaml"), []byte(crlog), 0o644)
		os.WriteFile(filepath.Join(dir, "crbook.yaml"), []byte(crbook), 0o644)
		for _, cmd := range cmds {
			if cmd.lintFile != "" {
				continue
			}
			base := append([]string{"--no-color", "--today", "2021/02/01"}, cmd.args...)
			ref := run.Exec(c.HR, append([]string{"-d", "food.yaml", "-l", "log.yaml"}, base...), run.ExecOpts{Dir: dir})
			args := append([]string{"-d", "crbook.yaml", "-l", "crlog.yaml"}, base...)
			res := run.Exec(c.HR, args, run.ExecOpts{Dir: dir})
			c.Eval(2)
			c.Count("l1_files_ending_in_a_carriage_return", 1)
			if cmd.args[0] == "stats" {
				// stats prints the file names
				res.Out = strings.NewReplacer("crbook.yaml", "food.yaml", "crlog.yaml", "log.yaml").Replace(res.Out)
			}
			if res.Exit != ref.Exit || res.Out != ref.Out {
				sig := strings.Join(cmd.args[:min(2, len(cmd.args))], " ")
				c.Violation(sig+"|file-ending-changes-the-report", fmt.Sprintf("%s: the same lines ending in CR LF, the last one in a bare CR, give exit %d and a different report", joinArgs(cmd.args), res.Exit),
					caseDoc{Files: map[string]string{"crbook.yaml": crbook, "crlog.yaml": crlog, "food.yaml": book, "log.yaml": log}, Args: args, Expected: resDoc(ref), Observed: resDoc(res)})
			}
		}
	}
	// the same unreadable files when the program finds them by default name, HR_* variable or
	// configuration file instead of -d/-l
	for _, route := range []string{"default", "env", "config"} {
		for _, v := range []struct{ what, file, target string }{
			{"directory as book", "adir", "book"}, {"directory as log", "adir", "log"},
			{"70 KiB comment line in book", "longbook.yaml", "book"}, {"70 KiB note line in log", "longlog.yaml", "log"},
		} {
			rdir := filepath.Join(c.Work, "l1-"+route+"-"+v.target+"-"+v.file)
			goodBook, goodLog := files["food.yaml"], files["log.yaml"]
			rfiles := map[string]string{"food.yaml": goodBook, "log.yaml": goodLog, "longbook.yaml": files["longbook.yaml"], "longlog.yaml": files["longlog.yaml"]}
			run.WriteFiles(rdir, rfiles)
			os.MkdirAll(filepath.Join(rdir, "adir"), 0o755)
			var args []string
			env := map[string]string{}
			switch route {
			case "default":
				// the damaged file takes the default name in the working directory
				name := map[string]string{"book": "food.yaml", "log": "log.yaml"}[v.target]
				os.RemoveAll(filepath.Join(rdir, name))
				if v.file == "adir" {
					os.MkdirAll(filepath.Join(rdir, name), 0o755)
				} else {
					os.WriteFile(filepath.Join(rdir, name), []byte(rfiles[v.file]), 0o644)
				}
			case "env":
				env[map[string]string{"book": "HR_DATABASE", "log": "HR_LOGFILE"}[v.target]] = v.file
			case "config":
				key := map[string]string{"book": "DbFileName", "log": "LogFileName"}[v.target]
				os.WriteFile(filepath.Join(rdir, "hr.conf"), []byte("[Global]\n"+key+"="+filepath.Join(rdir, v.file)+"\n"), 0o644)
				args = append(args, "--config", "hr.conf")
			}
			for _, cmd := range cmds {
				if cmd.lintFile != "" || (v.target == "book" && cmd.book < 0) || (v.target == "log" && cmd.log < 0) {
					continue
				}
				full := append(append([]string{"--no-color", "--today", "2021/02/01"}, args...), cmd.args...)
				res := run.Exec(c.HR, full, run.ExecOpts{Dir: rdir, Env: env})
				c.Eval(1)
				c.Count("l1_unreadable_input_by_"+route, 1)
				c.Nontrivial("l1route", route, v.what, joinArgs(cmd.args))
				sig := strings.Join(cmd.args[:min(2, len(cmd.args))], " ")
				if cmd.args[0] == "summary" {
					sig = "summary"
				}
				doc := caseDoc{Args: full, Env: env, Note: v.what + ", file found through " + route, Observed: resDoc(res)}
				if res.Crashed() {
					c.Violation(sig+"|crash-on-unreadable-input", v.what+": "+clip(res.Serr, 300), doc)
				} else if res.Exit == 0 {
					c.Violation(sig+"|unreadable-input-accepted", fmt.Sprintf("%s (found through %s): %s exits 0 with %d bytes of report", v.what, route, joinArgs(cmd.args), len(res.Out)), doc)
				}
			}
		}
	}
	// strace injection: read() on the file fails with EIO on the N-th call
	if _, err := exec.LookPath("strace"); err != nil {
		c.Inconclusive("strace-injection", "strace not installed")
		return
	}
	probe := exec.Command("strace", "-o", "/dev/null", "-e", "trace=read", "true")
	if out, err := probe.CombinedOutput(); err != nil {
		c.Inconclusive("strace-injection", "ptrace refused: "+clip(string(out), 200))
		return
	}
	bigLog := log + strings.Repeat("\n2021/01/26:\n  a/b: 1\n  x: 3\n", 400) // > 4 KiB so the scanner needs a second read
	bigBook := book + strings.Repeat("\n# padding comment line ......................................\n", 100)
	run.WriteFiles(dir, map[string]string{"biglog.yaml": bigLog, "bigbook.yaml": bigBook})
	for _, cmd := range cmds {
		for _, which := range []string{"log", "book"} {
			if (which == "log" && cmd.log < 0) || (which == "book" && cmd.book < 0) {
				continue
			}
			for _, when := range []int{1, 2} {
				target := "biglog.yaml"
				if which == "book" {
					target = "bigbook.yaml"
				}
				args := append([]string{"--no-color", "-d", "bigbook.yaml", "-l", "biglog.yaml", "--today", "2021/02/01"}, cmd.args...)
				if cmd.lintFile != "" {
					args = []string{"--no-color", "lint"}
					if len(cmd.args) == 3 {
						args = append(args, cmd.args[1])
					}
					args = append(args, target)
				}
				straceLog := filepath.Join(c.Work, fmt.Sprintf("strace.%s.%d.%s.log", which, when, strings.NewReplacer("/", "_", " ", "_").Replace(strings.Join(cmd.args, "_"))))
				prefix := []string{"strace", "-f", "-o", straceLog, "-P", filepath.Join(dir, target), "-e", "trace=read", "-e", fmt.Sprintf("inject=read:error=EIO:when=%d+", when)}
				res := run.Exec(c.HR, args, run.ExecOpts{Dir: dir, Prefix: prefix, Timeout: 60 * time.Second})
				c.Eval(1)
				if b, err := os.ReadFile(straceLog); err != nil || !strings.Contains(string(b), "(INJECTED)") {
					// strace counts reads per thread: the reads of this run were spread over threads and none reached the count
					c.Count("l1_strace_runs_without_injection", 1)
					os.Remove(straceLog)
					continue
				}
				os.Remove(straceLog)
				c.Count("l1_strace_injection_runs", 1)
				c.Nontrivial("strace", which, fmt.Sprint(when), joinArgs(args))
				doc := caseDoc{Args: append(prefix, args...), Note: fmt.Sprintf("read() #%d and later on the %s return EIO", when, which), Observed: resDoc(res)}
				sig := strings.Join(cmd.args[:min(2, len(cmd.args))], " ")
				if cmd.args[0] == "summary" || cmd.args[0] == "lint" {
					sig = cmd.args[0]
				}
				if res.Crashed() {
					c.Violation(sig+"|crash-on-read-fault", clip(res.Serr, 300), doc)
				} else if res.Exit == 0 {
					c.Violation(sig+"|read-error-swallowed", fmt.Sprintf("%s: read() of the %s returned EIO (call %d), exit 0 with %d bytes of report", joinArgs(cmd.args), which, when, len(res.Out)), doc)
				}
			}
		}
	}
	// the log or the book typed in at a terminal (a pseudo-terminal as the file; each read returns one line): read to
	// the end-of-file character it gives the report of the same text in a file; a terminal that goes away in the
	// middle (its reads fail with EIO from the k-th on) is a file that could not be read completely
	for _, cmd := range cmds {
		if cmd.lintFile != "" {
			continue
		}
		for _, which := range []string{"log", "book"} {
			if (which == "log" && cmd.log < 0) || (which == "book" && cmd.book < 0) {
				continue
			}
			text := log
			mk := func(slave string) []string {
				if which == "log" {
					return append([]string{"--no-color", "-d", "food.yaml", "-l", slave, "--today", "2021/02/01"}, cmd.args...)
				}
				return append([]string{"--no-color", "-d", slave, "-l", "log.yaml", "--today", "2021/02/01"}, cmd.args...)
			}
			if which == "book" {
				text = book
			}
			sig := strings.Join(cmd.args[:min(2, len(cmd.args))], " ")
			if cmd.args[0] == "summary" {
				sig = cmd.args[0]
			}
			ref := run.Exec(c.HR, append([]string{"--no-color", "-d", "food.yaml", "-l", "log.yaml", "--today", "2021/02/01"}, cmd.args...), run.ExecOpts{Dir: dir})
			whole, ok := run.ExecTerminalInput(c.HR, mk, text, run.ExecOpts{Dir: dir}, 0)
			if !ok || whole.TimedOut {
				c.Inconclusive("terminal-input", "a pseudo-terminal could not be set up as input file")
				continue
			}
			c.Eval(1)
			c.Count("l1_terminal_as_input_file_runs", 1)
			if cmd.args[0] != "stats" && (whole.Exit != ref.Exit || whole.Out != ref.Out) {
				c.Violation(sig+"|terminal-differs-from-file", fmt.Sprintf("%s with the %s typed in at a terminal: exit %d, %d bytes; from a file: exit %d, %d bytes", joinArgs(cmd.args), which, whole.Exit, len(whole.Out), ref.Exit, len(ref.Out)),
					caseDoc{Args: mk("/dev/pts/N"), Note: "the " + which + " is the slave side of a pseudo-terminal into which the text and the end-of-file character are typed", Expected: resDoc(ref), Observed: resDoc(whole)})
			}
			lines := strings.Count(text, "\n")
			for _, when := range []int{1, 2, lines / 2, lines} {
				if when < 1 {
					continue
				}
				res, ok := run.ExecTerminalInput(c.HR, mk, text, run.ExecOpts{Dir: dir, Timeout: 60 * time.Second}, when)
				if !ok || res.TimedOut {
					c.Inconclusive("terminal-input", "strace injection on a pseudo-terminal could not be set up")
					continue
				}
				c.Eval(1)
				if res.Err != "injected" {
					// strace counts reads per thread; the reads of this run were spread over several threads and none reached k
					c.Count("l1_terminal_going_away_runs_without_injection", 1)
					continue
				}
				c.Count("l1_terminal_going_away_runs", 1)
				c.Nontrivial("tty-eio", which, fmt.Sprint(when), joinArgs(cmd.args))
				doc := caseDoc{Args: mk("/dev/pts/N"), Note: fmt.Sprintf("the %s is a pseudo-terminal; read() #%d and later on it return EIO (the terminal went away)", which, when), Observed: resDoc(res)}
				if res.Crashed() {
					c.Violation(sig+"|crash-on-read-fault", clip(res.Serr, 300), doc)
				} else if res.Exit == 0 {
					c.Violation(sig+"|read-error-swallowed", fmt.Sprintf("%s: the terminal the %s is read from went away at read %d of %d lines, exit 0 with %d bytes of report", joinArgs(cmd.args), which, when, lines, len(res.Out)), doc)
				}
			}
		}
	}
}
