package checks

import (
	"fmt"
	"math"
	"math/big"
	"sort"
	"strings"
	"time"

	shared "github.com/aquilax/hranoprovod-cli/v3"
	"github.com/aquilax/hranoprovod-cli/v3/resolver"

	"verif/harness/core"
	"verif/harness/gen"
	"verif/harness/model"
	"verif/harness/obs"
	"verif/harness/run"
)

func init() {
	register(&Check{ID: "C01", Level: "exploration", Run: runC01})
}

type c01Replay struct {
	Book    string `json:"book"`
	Order   string `json:"insertion_order,omitempty"`
	Entry   int    `json:"entry_point"`
	Depth   int    `json:"max_depth"`
	Problem string `json:"problem"`
}

// c01Eval resolves one (book, insertion order, entry point) and checks values,
// sortedness, expansion, idempotence. Returns a canonical snapshot for
// order-independence comparison.
func c01Eval(c *core.Ctx, part string, b gen.Book, order []int, entry, depth int, want model.Resolved, abs map[string]map[string]*big.Rat, exact bool) string {
	db := buildDB(b, order)
	if entry >= 2 {
		db = buildDBShared(b, order)
	}
	c.Eval(1)
	fail := func(class, msg string) {
		c.Violation(fmt.Sprintf("resolve entry%d|%s", entry, class), msg,
			c01Replay{bookText(b), orderStr(order), entry, depth, msg})
	}
	if err := resolveVia(entry, db, depth); err != nil {
		fail("error-on-legal-book", fmt.Sprintf("error %q on an acyclic book nested less deeply than the limit %d", err, depth))
		return ""
	}
	if class, msg := compareResolved(db, b, want, abs, exact); class != "" {
		fail(class, msg)
		return ""
	}
	snap := snapshotDB(db)
	// resolving an already resolved book changes nothing
	if err := resolveVia(entry, db, depth); err != nil {
		fail("second-resolve-error", fmt.Sprintf("second resolve failed: %v", err))
		return snap
	}
	if snap2 := snapshotDB(db); snap2 != snap {
		fail("not-idempotent", fmt.Sprintf("second resolve changed the book:\n%s\nvs\n%s", snap, snap2))
	}
	c.Count(part+"_idempotence_checks", 1)
	return snap
}

func runC01(c *core.Ctx) {
	c.SetRule("books: (1) all acyclic books among the 32768 structures over 3 recipes + 2 basic names (each edge its own prime coefficient, seed-chosen edges negative/zero/half) x 6 insertion orders x R repetitions x both entry points; (2) random layered DAGs (2-12 recipes, depth up to N-1 for N in {3,10}, diamonds, repeated ingredients, empty recipes, forward/backward references, names of all scripts), exact and general number pools; (3) the same books rendered to text through the real CLI (csv database-resolved, report element-total, reg). Non-trivial = a book with at least one recipe-to-recipe reference; distinct = hash of (book text, insertion order, entry point).")
	c.Assume("exact pool: all coefficients and products are exactly representable, values compared bit-exactly; general pool: |got-exact| <= 1e-12*sum over paths of |product|")
	c.Assume("maps of <= 8 entries iterate as a rotation of insertion order on both Go runtimes (measured), so permuting insertion order reaches every visiting order")

	c.RunPart("l3-exhaustive", 20*time.Minute, func(c *core.Ctx) {
		reps := c.N(16, 64)
		mods := newEdgeMods(c.Rng("mods", 0))
		var acyclic []int
		for s := 0; s < 1<<15; s++ {
			if _, cyc := model.Chain(structBook(s, edgeMods{})); !cyc {
				acyclic = append(acyclic, s)
			}
		}
		c.Count("exhaustive_acyclic_structures", len(acyclic))
		core.ParallelFor(len(acyclic), c.Procs, func(w, i int) {
			s := acyclic[i]
			b := structBook(s, mods)
			want := model.Resolve(b)
			nontrivial := false
			for _, r := range b {
				for _, e := range r.Ents {
					if e.Name[0] == 'r' {
						nontrivial = true
					}
				}
			}
			c.Crumb(w, fmt.Sprintf("structure %d\n%s", s, bookText(b)))
			snaps := map[string]bool{}
			for _, p := range perms3 {
				for entry := 0; entry < 2; entry++ {
					for k := 0; k < reps; k++ {
						snap := c01Eval(c, "exhaustive", b, p[:], entry, 10, want, nil, true)
						if snap != "" {
							snaps[snap] = true
						}
					}
					if nontrivial {
						c.Nontrivial(bookText(b), orderStr(p[:]), fmt.Sprint(entry))
					}
				}
			}
			if len(snaps) > 1 {
				c.Violation("resolve|order-dependent", fmt.Sprintf("structure %d resolves to %d different results depending on insertion order/entry point", s, len(snaps)),
					c01Replay{bookText(b), "all", -1, 10, "order dependent"})
			}
			if i == 777 || i == 1234 {
				c.Sample(map[string]any{"part": "exhaustive", "structure": s, "book": bookText(b), "resolved": snapshotOne(snaps)})
			}
		})
		c.SetExhaustive(false)
	})

	if !c.Quick() {
		c.RunPart("l3-exhaustive-4", 30*time.Minute, func(c *core.Ctx) {
			// all acyclic books among the 1048576 structures over four recipes x 24 insertion orders x both entry points
			var acyclic []int
			for s := 0; s < 1<<20; s++ {
				if _, cyc := model.Chain(struct4Book(s)); !cyc {
					acyclic = append(acyclic, s)
				}
			}
			c.Count("exhaustive4_acyclic_structures", len(acyclic))
			core.ParallelFor(len(acyclic), c.Procs, func(w, i int) {
				b := struct4Book(acyclic[i])
				want := model.Resolve(b)
				if i%512 == 0 {
					c.Crumb(w, fmt.Sprintf("4-recipe structure %d\n%s", acyclic[i], bookText(b)))
				}
				snaps := map[string]bool{}
				for _, p := range perms4 {
					for entry := 0; entry < 2; entry++ {
						for k := 0; k < 2; k++ {
							if snap := c01Eval(c, "exhaustive4", b, p, entry, 10, want, nil, true); snap != "" {
								snaps[snap] = true
							}
						}
					}
				}
				c.Nontrivial("s4", bookText(b))
				if len(snaps) > 1 {
					c.Violation("resolve|order-dependent", fmt.Sprintf("4-recipe structure %d resolves to %d different results depending on insertion order/entry point", acyclic[i], len(snaps)),
						c01Replay{bookText(b), "all", -1, 10, "order dependent"})
				}
			})
		})
	}

	c.RunPart("l3-reuse", 10*time.Minute, func(c *core.Ctx) {
		// resolve, let the book grow (a name that was basic gets its own recipe, a new recipe uses old
		// ones), resolve again - with the same Resolver value and with the function: the second result
		// must be that of the grown book
		n := c.N(400, 8000)
		core.ParallelFor(n, c.Procs, func(w, i int) {
			r := c.Rng("reuse", i)
			b := gen.RandomBook(r, gen.BookOpts{Recipes: 2 + r.Intn(5), Basics: 3, MaxDepth: 1 + r.Intn(3), Exact: true, Names: gen.NameOpts{MaxLen: 6}})
			basics := map[string]bool{}
			def := b.Defined()
			for _, rec := range b {
				for _, e := range rec.Ents {
					if !def[e.Name] {
						basics[e.Name] = true
					}
				}
			}
			var bn []string
			for k := range basics {
				bn = append(bn, k)
			}
			if len(bn) == 0 {
				return
			}
			sort.Strings(bn)
			grown := append(gen.Book{}, b...)
			// a formerly basic name becomes a recipe over fresh basic names
			promoted := bn[r.Intn(len(bn))]
			grown = append(grown, gen.Recipe{Name: promoted, Ents: []gen.Ent{{Name: "fresh1", Val: gen.Half(3)}, {Name: "fresh2", Val: gen.Half(4)}}})
			grown = append(grown, gen.Recipe{Name: "newtop", Ents: []gen.Ent{{Name: b[0].Name, Val: gen.Half(2)}, {Name: promoted, Val: gen.Half(2)}}})
			want := model.Resolve(grown)
			for entry := 0; entry < 2; entry++ {
				c.Crumb(w, fmt.Sprintf("reuse book %d entry %d\n%s", i, entry, bookText(grown)))
				order := r.Perm(len(b))
				db := buildDB(b, order)
				res := resolver.NewResolver(db, resolver.Config{MaxDepth: 10})
				var err1 error
				if entry == 0 {
					_, err1 = resolver.Resolve(resolver.Config{MaxDepth: 10}, db)
				} else {
					err1 = res.Resolve()
				}
				// the caller adds the new records in their unresolved form and resolves again
				for _, rec := range grown[len(b):] {
					nd := shared.NewParserNode(rec.Name)
					for _, e := range rec.Ents {
						nd.Elements.Add(e.Name, e.Val.F())
					}
					db.Push(shared.NewDBNodeFromNode(nd))
				}
				var err2 error
				if entry == 0 {
					_, err2 = resolver.Resolve(resolver.Config{MaxDepth: 10}, db)
				} else {
					err2 = res.Resolve()
				}
				c.Eval(1)
				c.Count("reuse_sequences", 1)
				c.Nontrivial("reuse", bookText(grown), fmt.Sprint(entry))
				rep := c01Replay{bookText(grown), orderStr(order), entry, 10, "resolve, add the last two recipes, resolve again with the same resolver"}
				if err1 != nil || err2 != nil {
					c.Violation(fmt.Sprintf("resolve entry%d|error-on-legal-book", entry), fmt.Sprintf("errors %v / %v in a resolve-grow-resolve sequence", err1, err2), rep)
					continue
				}
				// recipes that used the promoted name before it was a recipe keep their already resolved form
				// (they list it as an element); the new recipes and the promoted one must be right
				for _, name := range []string{promoted, "newtop"} {
					got := db[name]
					if got == nil {
						c.Violation(fmt.Sprintf("resolve entry%d|keys-changed", entry), name+" missing after the second resolve", rep)
						continue
					}
					sub := model.Resolved{name: want[name]}
					sdb := shared.DBNodeMap{name: got}
					if name == "newtop" {
						// newtop = 2 x (b[0] as resolved before the growth, with the promoted name expanded) + 2 x promoted
						// the model of the grown book gives exactly that
					}
					if class, msg := compareResolved(sdb, gen.Book{{Name: name}}, sub, nil, true); class != "" && class != "unexpanded" {
						c.Violation(fmt.Sprintf("resolve entry%d|%s-after-growth", entry, class), msg, rep)
					} else if class == "unexpanded" {
						c.Violation(fmt.Sprintf("resolve entry%d|unexpanded-after-growth", entry), msg, rep)
					}
				}
			}
		})
	})

	// books nested exactly one level below the limit whose deepest chain ends in a recipe without
	// ingredients, in a recipe of zero amounts, in a basic name, in a recipe declared twice: "less deeply than the
	// limit" counts references, whatever the chain ends in
	c.RunPart("l3-boundary", 10*time.Minute, func(c *core.Ctx) {
		for _, limit := range []int{1, 2, 3, 4, 5, 10, 11, 64} {
			for endKind := 0; endKind < 5; endKind++ {
				refs := limit - 1 // references on the longest chain
				var b gen.Book
				name := func(i int) string { return fmt.Sprintf("r%03d", i) }
				last := "x"
				n := refs // number of recipes that carry one reference each
				switch endKind {
				case 0: // the chain ends in a basic name: r1 -> ... -> r(refs) -> x
				case 1, 2, 3: // the chain ends in a recipe that has no references itself: one reference fewer is carried by the others
					if refs == 0 {
						continue
					}
					last = "end"
				case 4: // a second, shorter branch next to the longest chain
				}
				if endKind >= 1 && endKind <= 3 {
					n = refs
				}
				for i := 1; i <= n; i++ {
					next := name(i + 1)
					if i == n {
						next = last
					}
					rec := gen.Recipe{Name: name(i), Ents: []gen.Ent{{Name: next, Val: gen.Half(2)}}}
					if endKind == 4 {
						rec.Ents = append(rec.Ents, gen.Ent{Name: "y", Val: gen.Half(3)})
					}
					b = append(b, rec)
				}
				switch endKind {
				case 1:
					b = append(b, gen.Recipe{Name: "end"})
				case 2:
					b = append(b, gen.Recipe{Name: "end"}, gen.Recipe{Name: "other", Ents: []gen.Ent{{Name: "end", Val: gen.Half(2)}}})
				case 3:
					// declared twice: the later, empty declaration counts
					b = append(gen.Book{{Name: "end", Ents: []gen.Ent{{Name: "x", Val: gen.Half(2)}}}}, b...)
					b = append(b, gen.Recipe{Name: "end"})
				}
				if len(b) == 0 {
					continue
				}
				longest, cyc := model.Chain(b)
				if cyc || longest >= limit {
					c.HarnessError(fmt.Sprintf("boundary book kind %d: chain %d for limit %d", endKind, longest, limit))
					continue
				}
				want := model.Resolve(b)
				r := c.Rng("boundary", limit*10+endKind)
				for k := 0; k < 6; k++ {
					order := r.Perm(len(b))
					if endKind == 3 {
						// declaration order matters for the redeclared heading: keep it
						order = nil
						for i := range b {
							order = append(order, i)
						}
					}
					for entry := 0; entry < 2; entry++ {
						c01Eval(c, "boundary", b, order, entry, limit, want, nil, true)
						c.Nontrivial("boundary", bookText(b), orderStr(order), fmt.Sprint(entry, limit))
						c.Count("boundary_books", 1)
					}
				}
			}
		}
	})

	c.RunPart("l3-random", 20*time.Minute, func(c *core.Ctx) {
		// amounts at the edges of the number type: the sum over paths of the products is finite although a sum of
		// coefficients alone (or a product taken in another grouping) would not be - 2^1023 twice times 2^-1000,
		// and the mirror case with tiny coefficients
		for entry := 0; entry < 4; entry++ {
			for ci, cs := range []struct {
				outer, inner float64
				rows         int
				want         float64
			}{{math.Ldexp(1, 1023), math.Ldexp(1, -1000), 2, math.Ldexp(1, 24)}, {-math.Ldexp(1, 1023), math.Ldexp(1, -1000), 2, -math.Ldexp(1, 24)}, {math.Ldexp(1, 1022), math.Ldexp(1, -1022), 4, 4}, {math.Ldexp(1, -1000), math.Ldexp(1, 1000), 3, 3}} {
				mk := func() shared.DBNodeMap {
					db := shared.NewDBNodeMap()
					mix := shared.NewParserNode("mix")
					if entry >= 2 {
						// all rows in one table, as in buildDBShared
						tbl := make(shared.Elements, 0, cs.rows+1)
						for k := 0; k < cs.rows; k++ {
							tbl = append(tbl, shared.NewElement("concentrate", cs.outer))
						}
						mix.Elements = tbl
					} else {
						for k := 0; k < cs.rows; k++ {
							mix.Elements.Add("concentrate", cs.outer)
						}
					}
					conc := shared.NewParserNode("concentrate")
					conc.Elements.Add("x", cs.inner)
					db.Push(shared.NewDBNodeFromNode(mix))
					db.Push(shared.NewDBNodeFromNode(conc))
					return db
				}
				db := mk()
				err := resolveVia(entry, db, 10)
				c.Eval(1)
				c.Count("edge_of_number_type_cases", 1)
				c.Nontrivial("edge-numbers", fmt.Sprint(entry, ci))
				got := db["mix"].Elements
				if err != nil || len(got) != 1 || got[0].Name != "x" || got[0].Value != cs.want {
					c.Violation(fmt.Sprintf("resolve entry%d|value", entry), fmt.Sprintf("mix = %d rows of concentrate x %g, concentrate = x %g: resolved to %v (error %v), want x = %g", cs.rows, cs.outer, cs.inner, got, err, cs.want),
						map[string]any{"rows": cs.rows, "outer_coefficient": fmt.Sprint(cs.outer), "inner_coefficient": fmt.Sprint(cs.inner), "want": fmt.Sprint(cs.want), "got": fmt.Sprint(got), "entry_point": entry})
				}
			}
		}
		n := c.N(2000, 40000)
		core.ParallelFor(n, c.Procs, func(w, i int) {
			r := c.Rng("random", i)
			depthLimit := []int{3, 10}[r.Intn(2)]
			exact := r.Intn(2) == 0
			nrec := 2 + r.Intn(11)
			// every seventh book has names with bytes that are not valid UTF-8 (and siblings that differ only there)
			o := gen.BookOpts{Recipes: nrec, Basics: 1 + r.Intn(5), MaxDepth: depthLimit - 1, Exact: exact, Wide: i%10 == 0,
				Names: gen.NameOpts{Unicode: true, Spaces: true, Slash: true, Punct: gen.PunctAll, Invalid: i%7 == 3}}
			if o.Names.Invalid {
				o.Basics += 3
				c.Count("random_books_with_invalid_utf8_names", 1)
			}
			if depthLimit == 10 {
				o.MaxDepth = 1 + r.Intn(9)
			}
			if o.Wide {
				o.Basics = 35 + r.Intn(30) // recipes that reach more than 32 distinct elements
			}
			b := gen.RandomBook(r, o)
			if i%4 == 1 {
				if _, nn := relateNames(r, b, nil, nil); nn != "" {
					c.Count("random_books_with_related_names", 1)
				}
			}
			longest, cyc := model.Chain(b)
			if cyc || longest >= depthLimit {
				c.HarnessError(fmt.Sprintf("generator produced chain %d cyclic=%v for limit %d", longest, cyc, depthLimit))
				return
			}
			want := model.Resolve(b)
			var abs map[string]map[string]*big.Rat
			if !exact {
				abs = model.AbsPaths(b)
			}
			c.Crumb(w, fmt.Sprintf("random book %d\n%s", i, bookText(b)))
			c.Max("random_longest_chain", longest)
			if nrec > 8 {
				c.Count("random_books_over_8_recipes", 1)
			}
			snaps := map[string]bool{}
			for k := 0; k < 6; k++ {
				order := r.Perm(len(b))
				for entry := 0; entry < 4; entry++ {
					// entries 2 and 3: the two entry points on a book whose ingredient lists are windows of one table
					snap := c01Eval(c, "random", b, order, entry, depthLimit, want, abs, exact)
					if snap != "" {
						snaps[snap] = true
					}
					if longest >= 2 {
						c.Nontrivial(bookText(b), orderStr(order), fmt.Sprint(entry))
					}
				}
			}
			if exact && len(snaps) > 1 {
				c.Violation("resolve|order-dependent", fmt.Sprintf("random book %d resolves to %d different results depending on insertion order/entry point", i, len(snaps)),
					c01Replay{bookText(b), "random", -1, depthLimit, "order dependent"})
			}
			if i < 2 {
				c.Sample(map[string]any{"part": "random", "book": bookText(b), "limit": depthLimit, "exact_pool": exact, "longest_chain": longest})
			}
		})
	})

	// (3) the same kind of books through the real CLI
	if c.InChild() {
		return
	}
	// the library parts above resolve independent books in up to 16 goroutines at once, under the race detector:
	// resolving one book shares nothing with resolving another
	raceReports(c, "the resolver (independent books resolved concurrently)")
	pool := newPool(c, c.Procs)
	if pool == nil {
		return
	}
	defer pool.Close()
	n := c.N(300, 4000)
	core.ParallelFor(n, c.Procs, func(w, i int) {
		srv := pool.Servers[w]
		r := c.Rng("cli", i)
		exact := r.Intn(2) == 0
		b := gen.RandomBook(r, gen.BookOpts{Recipes: 2 + r.Intn(9), Basics: 1 + r.Intn(4), MaxDepth: 1 + r.Intn(5), Exact: exact, Redeclare: i%5 == 0,
			Names: gen.NameOpts{Unicode: true, Spaces: true, Slash: true, Punct: ".,;'()&%+*=!?@_-\"#"}})
		st := gen.Hostile(r)
		var logStyle *gen.Style
		var confArgs []string
		conf := ""
		if i%6 == 3 {
			// a book kept under another comment character (configuration file, [ParserConfig] CommentChar): its comment
			// lines begin with that byte, and '#' is an ordinary first character of a recipe's name
			cc := []byte{';', '/', '`', '%', '!', 0xa7, 0xff}[r.Intn(7)]
			clash := false
			for _, rec := range b {
				clash = clash || rec.Name[0] == cc
				for _, e := range rec.Ents {
					clash = clash || e.Name[0] == cc
				}
			}
			if !clash {
				old, renamed := b[0].Name, "#"+b[0].Name
				for bi := range b {
					if b[bi].Name == old {
						b[bi].Name = renamed
					}
					for ei := range b[bi].Ents {
						if b[bi].Ents[ei].Name == old {
							b[bi].Ents[ei].Name = renamed
						}
					}
				}
				st.Comment, st.Quotes = cc, false
				logStyle = &gen.Style{Comment: cc}
				conf = fmt.Sprintf("[ParserConfig]\nCommentChar=%d\n", cc)
				confArgs = []string{"--config", "hr.conf"}
				c.Count("cli_books_under_another_comment_character", 1)
			}
		}
		want := model.Resolve(b)
		abs := model.AbsPaths(b)
		text := gen.RenderBook(b, st)
		files := map[string]string{"food.yaml": text, "log.yaml": ""}
		if conf != "" {
			files["hr.conf"] = conf
		}
		srv.Write(files)
		longest, _ := model.Chain(b)

		// csv database-resolved
		args := append(append([]string{}, confArgs...), "--no-color", "-d", "food.yaml", "-l", "log.yaml", "csv", "database-resolved")
		res := srv.App1(args, nil)
		c.Eval(1)
		c.Count("cli_csv_database_resolved", 1)
		if longest >= 2 {
			c.Nontrivial("cli", text)
		}
		doc := func(problem string) caseDoc {
			return caseDoc{Files: files, Args: args, Note: problem, Observed: resDoc(res)}
		}
		if i%25 == 0 {
			crossCheck(c, srv, args, nil, res)
		}
		if res.Exit != 0 || res.Panic != "" {
			c.Violation("csv database-resolved|error-on-legal-book", fmt.Sprintf("exit %d err %q panic %q", res.Exit, res.Err, clip(res.Panic, 200)), doc("failed"))
			return
		}
		rows, err := obs.ParseCSV(res.Out)
		if err != nil {
			c.Violation("csv database-resolved|unparsable", err.Error(), doc(err.Error()))
			return
		}
		var wantRows [][3]string
		for _, name := range sortedKeys(want) {
			for _, e := range want[name] {
				wantRows = append(wantRows, [3]string{name, e.Name, rs(e.V)})
			}
		}
		if len(rows) != len(wantRows) {
			c.Violation("csv database-resolved|row-count", fmt.Sprintf("got %d rows, want %d", len(rows), len(wantRows)), doc("row count"))
			return
		}
		for k, row := range rows {
			if len(row) != 3 || row[0] != wantRows[k][0] || row[1] != wantRows[k][1] {
				c.Violation("csv database-resolved|row-identity", fmt.Sprintf("row %d: got %q, want recipe %q element %q", k, row, wantRows[k][0], wantRows[k][1]), doc("row identity/order"))
				return
			}
			v, ok := obs.Dec(row[2])
			ex := want[row[0]][indexElem(want[row[0]], row[1])].V
			if !ok || !numOK(v, ex, 2, abs[row[0]][row[1]], exact) {
				c.Violation("csv database-resolved|value", fmt.Sprintf("row %d (%s,%s): printed %q, exact %s", k, row[0], row[1], row[2], rs(ex)), doc("value"))
				return
			}
		}

		// report element-total X for one basic element
		var basics []string
		seen := map[string]bool{}
		for _, es := range want {
			for _, e := range es {
				if !seen[e.Name] {
					seen[e.Name] = true
					basics = append(basics, e.Name)
				}
			}
		}
		sort.Strings(basics)
		if len(basics) > 0 {
			x := basics[r.Intn(len(basics))]
			args := append(append([]string{}, confArgs...), "--no-color", "-d", "food.yaml", "-l", "log.yaml", "report", "element-total", x)
			res := srv.App1(args, nil)
			c.Eval(1)
			c.Count("cli_element_total", 1)
			d := caseDoc{Files: files, Args: args, Observed: resDoc(res)}
			if res.Exit != 0 || res.Panic != "" {
				c.Violation("report element-total|error-on-legal-book", fmt.Sprintf("exit %d err %q", res.Exit, res.Err), d)
				return
			}
			got, err := obs.ParseValTabName(res.Out)
			if err != nil {
				c.Violation("report element-total|unparsable", err.Error(), d)
				return
			}
			wantET := map[string]*big.Rat{}
			for name, es := range want {
				if k := indexElem(es, x); k >= 0 {
					wantET[name] = es[k].V
				}
			}
			if len(got) != len(wantET) {
				c.Violation("report element-total|row-count", fmt.Sprintf("element %q: got %d rows, want %d", x, len(got), len(wantET)), d)
				return
			}
			for _, g := range got {
				ex, ok := wantET[g.Name]
				if !ok || !numOK(g.V, ex, 2, abs[g.Name][x], exact) {
					c.Violation("report element-total|value", fmt.Sprintf("element %q recipe %q: printed %s, exact %s", x, g.Name, g.Raw, rs(ex)), d)
					return
				}
				delete(wantET, g.Name)
			}
		}
		// only names the book does not define stand for themselves: a recipe logged directly and asked for as the
		// single element of the register is expanded into its elements, so it has no row of its own
		if len(b) > 0 {
			rn := b[r.Intn(len(b))].Name
			if _, defined := want[rn]; defined && len(want[rn]) > 0 && indexElem(want[rn], rn) < 0 {
				lfiles := map[string]string{"logr.yaml": gen.RenderLog(gen.Log{{Date: gen.Date{Y: 2021, M: 1, D: 24}, Ents: []gen.Ent{{Name: rn, Val: gen.Half(4)}}}}, "2006/01/02", logStyle)}
				srv.Write(lfiles)
				for _, extra := range [][]string{nil, {"--csv"}, {"-g"}} {
					sargs := append(append(append([]string{}, confArgs...), "--no-color", "-d", "food.yaml", "-l", "logr.yaml", "reg", "-s", rn), extra...)
					sres := srv.App1(sargs, nil)
					c.Eval(1)
					c.Count("cli_recipe_name_as_single_element", 1)
					if sres.Exit != 0 || strings.TrimSpace(sres.Out) != "" {
						c.Violation("reg -s|recipe-name-left-unexpanded", fmt.Sprintf("%s: recipe %q is logged and expands to %d elements, yet the single-element register of its own name shows %q (exit %d)", joinArgs(sargs[5:]), rn, len(want[rn]), clip(sres.Out, 120), sres.Exit),
							caseDoc{Files: map[string]string{"food.yaml": text, "logr.yaml": lfiles["logr.yaml"]}, Args: sargs, Observed: resDoc(sres)})
						break
					}
				}
			}
		}
		// a recipe that resolves to nothing (no ingredients, or only such recipes) is still a recipe: logged, it is
		// expanded into its (zero) elements and does not stand for itself
		for _, rec := range b {
			if es, defined := want[rec.Name]; defined && len(es) == 0 {
				lfiles := map[string]string{"loge.yaml": gen.RenderLog(gen.Log{{Date: gen.Date{Y: 2021, M: 1, D: 24}, Ents: []gen.Ent{{Name: rec.Name, Val: gen.Half(4)}}}}, "2006/01/02", logStyle)}
				srv.Write(lfiles)
				for ri, rr := range regRenderers {
					eargs := append(append(append([]string{}, confArgs...), "--no-color", "-d", "food.yaml", "-l", "loge.yaml"), rr.args...)
					eres := srv.App1(eargs, nil)
					c.Eval(1)
					c.Count("cli_recipe_that_resolves_to_nothing", 1)
					days, perr := rr.parse(eres.Out)
					bad := ""
					switch {
					case eres.Exit != 0 || perr != nil:
						bad = fmt.Sprintf("exit %d, parse error %v", eres.Exit, perr)
					case len(days) != 1 || len(days[0].Foods) != 1:
						bad = fmt.Sprintf("%d days shown", len(days))
					case len(days[0].Foods[0].Ingredients) != 0 || len(days[0].Totals) != 0:
						bad = fmt.Sprintf("%d ingredient rows %v and %d totals rows under a recipe that resolves to nothing", len(days[0].Foods[0].Ingredients), nvNames(days[0].Foods[0].Ingredients), len(days[0].Totals))
					}
					if bad != "" {
						c.Violation(rr.name+"|empty-recipe-stands-for-itself", fmt.Sprintf("recipe %q resolves to no element; %s", rec.Name, bad), caseDoc{Files: map[string]string{"food.yaml": text, "loge.yaml": lfiles["loge.yaml"]}, Args: eargs, Observed: resDoc(eres)})
						break
					}
					_ = ri
				}
				break
			}
		}
		if i < 2 {
			c.Sample(map[string]any{"part": "cli", "food.yaml": text, "args": joinArgs(args), "stdout": clip(res.Out, 600)})
		}
	})
	// (4) very deep books under a raised limit: r1 = 2 base, r(i) = 1 r(i-1) + 1 base, so r(i) = (i+1) base;
	// every row of the export is checked. Limits and depths far beyond what a person types show a cap or a
	// narrow counter anywhere between the option and the resolver.
	for _, depth := range []int{1200, 10050} {
		var sb strings.Builder
		order := c.Rng("deep", depth).Perm(depth)
		for _, k := range order {
			i := k + 1
			if i == 1 {
				sb.WriteString("r0000001:\n  base: 2\n")
			} else {
				fmt.Fprintf(&sb, "r%07d:\n  r%07d: 1\n  base: 1\n", i, i-1)
			}
		}
		dir := fmt.Sprintf("%s/deep%d", c.Work, depth)
		files := map[string]string{"food.yaml": sb.String(), "log.yaml": ""}
		if err := run.WriteFiles(dir, files); err != nil {
			c.HarnessError(err.Error())
			break
		}
		for vi, via := range []string{"flag", "env"} {
			args := []string{"--no-color", "-d", "food.yaml", "-l", "log.yaml"}
			env := map[string]string{}
			if via == "flag" {
				args = append(args, "--maxdepth", fmt.Sprint(2*depth))
			} else {
				env["HR_MAXDEPTH"] = fmt.Sprint(depth + 2)
			}
			args = append(args, "csv", "database-resolved")
			res := run.Exec(c.HR, args, run.ExecOpts{Dir: dir, Env: env, Timeout: 120 * time.Second})
			c.Eval(1)
			c.Count("cli_very_deep_books", 1)
			c.Nontrivial("deep", fmt.Sprint(depth, vi))
			d := caseDoc{Files: files, Args: args, Env: env, Note: fmt.Sprintf("chain of %d recipes r(i) = 1 r(i-1) + 1 base declared in shuffled order, limit by %s", depth, via), Observed: map[string]any{"exit": res.Exit, "stderr": clip(res.Serr, 300), "stdout": clip(res.Out, 300)}}
			if res.Exit != 0 {
				c.Violation("csv database-resolved|error-on-legal-deep-book", fmt.Sprintf("depth %d under a limit of %s: exit %d %s", depth, args[len(args)-3], res.Exit, clip(res.Serr, 200)), d)
				continue
			}
			rows, err := obs.ParseCSV(res.Out)
			if err != nil || len(rows) != depth {
				c.Violation("csv database-resolved|deep-book-rows", fmt.Sprintf("depth %d: %d rows, parse error %v", depth, len(rows), err), d)
				continue
			}
			for k, row := range rows {
				want := fmt.Sprintf("%d.00", k+2)
				if len(row) != 3 || row[0] != fmt.Sprintf("r%07d", k+1) || row[1] != "base" || row[2] != want {
					c.Violation("csv database-resolved|deep-book-value", fmt.Sprintf("depth %d row %d: %q, want r%07d,base,%s", depth, k, row, k+1, want), d)
					break
				}
			}
		}
	}
	jobs, deaths := pool.Stats()
	c.Count("l2_jobs", jobs)
	c.Count("l2_process_deaths", deaths)
	c.Count("l2_priming_runs", pool.Primed())
	_ = run.Result{}
}

func indexElem(es []model.Elem, name string) int {
	for i, e := range es {
		if e.Name == name {
			return i
		}
	}
	return -1
}

// numOK: printed decimal against exact value; exact pool → equality.
func numOK(printed, exact *big.Rat, d int, abs *big.Rat, exactPool bool) bool {
	if printed == nil || exact == nil {
		return false
	}
	if exactPool {
		return printed.Cmp(exact) == 0
	}
	if abs == nil {
		abs = new(big.Rat).Abs(exact)
	}
	return printedOK(printed, exact, d, abs)
}

func snapshotOne(m map[string]bool) string {
	for k := range m {
		return k
	}
	return ""
}
