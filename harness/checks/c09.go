package checks

import (
	"fmt"
	"math/rand"
	"os"
	"path/filepath"
	"regexp"
	"sort"
	"strings"

	"verif/harness/core"
	"verif/harness/gen"
	"verif/harness/obs"
	"verif/harness/run"
)

func init() {
	register(&Check{ID: "C09", Level: "exploration", Run: runC09})
}

// malformed line kinds: (indentation+dash)(name)(rest); never nan/inf/hex/underscore values, which ParseFloat accepts
var c09Bad = []func(name string) string{
	func(n string) string { return "  " + n },                   // single token
	func(n string) string { return "\t" + n + ":1" },            // no blank before the value
	func(n string) string { return "  - " + n },                 // dash, single token
	func(n string) string { return "  " + n + ": abc" },         // not a number
	func(n string) string { return "    " + n + ": 1,5" },       // decimal comma
	func(n string) string { return "  " + n + ": 1.2.3" },       // two points
	func(n string) string { return " \t" + n + ": --1" },        // double sign
	func(n string) string { return "  - " + n + ": 1x" },        // trailing junk
	func(n string) string { return "  " + n + ":  1e" },         // empty exponent
	func(n string) string { return "  \"" + n + "\": ٣" },       // non-ASCII digit
	func(n string) string { return "  " + n + " two: 1 2x" },    // name with blank, bad value
	func(n string) string { return "  " + n + " 3.5% fat: 1x" }, // percent sign in the name
	func(n string) string { return "  " + n + "-20%" },          // single token ending in a percent sign
	func(n string) string { return "  " + n + " %s %d: 100%" },  // printf-looking text, percent value
	func(n string) string { return "  " + n + `\n: 1\t2` },      // backslash sequences
	func(n string) string { return "  " + n + ": 100\u00a0" },   // number followed by a no-break space
	func(n string) string { return "  " + n + ": 1\u3000" },     // … by an ideographic space
	func(n string) string { return "  " + n + ": 2.5\f" },       // … by a form feed
	func(n string) string { return "  " + n + ":\u00a07" },      // no-break space instead of the blank before the value
	// long lines that are mostly multi-byte characters (more than 200 bytes in fewer than 200 characters, and more of both)
	func(n string) string { return "  " + strings.Repeat("ж", 130) + n + ": 1oo" },
	func(n string) string { return "  " + strings.Repeat("茶", 80) + n + " " + strings.Repeat("米", 30) },
	func(n string) string { return "  " + n + ": " + strings.Repeat("🍵", 60) },
	func(n string) string { return "  " + strings.Repeat("щ", 700) + n + ": x1" },
}

// plant inserts k malformed lines below the first heading; returns the new text and the (1-based position, raw line) list in file order.
func plant(r *rand.Rand, text string, k int, cc byte, prefixes ...string) (string, [][2]string) {
	crlf := strings.Contains(text, "\r\n")
	lines := strings.Split(text, "\n")
	first := -1
	for i, ln := range lines {
		l := strings.TrimRight(ln, "\r")
		if l != "" && l[0] != ' ' && l[0] != '\t' && l[0] != cc && l[0] != '-' {
			first = i
			break
		}
	}
	if first < 0 {
		return text, nil
	}
	prevRaw := ""
	for j := 0; j < k; j++ {
		pfx := ""
		if len(prefixes) > 0 {
			pfx = prefixes[r.Intn(len(prefixes))]
		}
		raw := c09Bad[r.Intn(len(c09Bad))](pfx + fmt.Sprintf("bad%dq", j))
		if j > 0 && r.Intn(4) == 0 {
			// the same malformed line once more, byte for byte (a typo repeated on another day): reported again
			raw = prevRaw
		}
		prevRaw = raw
		pos := first + 1 + r.Intn(len(lines)-first)
		if pos == len(lines) && !strings.HasSuffix(text, "\n") {
			// the file has no final line terminator: appending is fine, the line before gets one
			lines[len(lines)-1] = strings.TrimRight(lines[len(lines)-1], "\r")
			if crlf {
				lines[len(lines)-1] += "\r"
			}
		}
		ln := raw
		if crlf && pos < len(lines) {
			ln += "\r"
		}
		lines = append(lines[:pos], append([]string{ln}, lines[pos:]...)...)
	}
	var planted [][2]string
	re := regexp.MustCompile(`bad\d+q`)
	for i, ln := range lines {
		if re.MatchString(ln) {
			planted = append(planted, [2]string{fmt.Sprint(i + 1), strings.TrimRight(ln, "\r")})
		}
	}
	return strings.Join(lines, "\n"), planted
}

// sprinkleEmptyNotes inserts note lines without content below the first heading.
func sprinkleEmptyNotes(r *rand.Rand, text string, cc byte) string {
	crlf := strings.Contains(text, "\r\n")
	lines := strings.Split(text, "\n")
	var out []string
	seenHeading := false
	for li, ln := range lines {
		out = append(out, ln)
		l := strings.TrimRight(ln, "\r")
		if l != "" && l[0] != ' ' && l[0] != '\t' && l[0] != cc && l[0] != '-' {
			seenHeading = true
		}
		if seenHeading && li < len(lines)-1 && r.Intn(5) == 0 {
			c := string([]byte{cc})
			// ... and lines at column 0 that consist of nothing but quotes, colons, dashes and blanks: they trim to
			// nothing and are blank lines, the record above goes on below them
			note := []string{"  " + c, "\t" + c + " ", "  " + c + c, "- " + c, "    " + c + "  ", " " + c + "\t", "\"\":", "\"\"", ":", "\" \":", "---", "\"\": "}[r.Intn(12)]
			if crlf {
				note += "\r"
			}
			out = append(out, note)
		}
	}
	return strings.Join(out, "\n")
}

var c09LogCmds = [][]string{{"reg"}, {"reg", "-s", "x"}, {"reg", "-f", "a"}, {"reg", "--use-old-reg-reporter"}, {"bal"}, {"bal", "-c"}, {"bal", "-s", "x"}, {"csv", "log"}, {"print"}, {"summary", "DATE"}, {"report", "totals"}, {"report", "quantity"}, {"report", "unresolved"}, {"stats"}}
var c09BookCmds = [][]string{{"reg"}, {"reg", "-s", "x", "-g"}, {"bal"}, {"bal", "-s", "x"}, {"csv", "database"}, {"csv", "database-resolved"}, {"report", "element-total", "x"}, {"report", "totals"}, {"report", "unresolved"}, {"summary", "DATE"}, {"stats"}}

func mentionsLine(msg, pos, raw string) bool {
	re := regexp.MustCompile(`line ` + pos + `(\D|$)`)
	return re.MatchString(msg) && strings.Contains(msg, strings.TrimSpace(raw))
}

func runC09(c *core.Ctx) {
	c.SetRule("cases: generated well-formed books/logs (hostile layout: blank lines, comments, notes, CRLF, tabs, quotes, five date layouts) with k in 0..5 malformed lines of 11 kinds planted at PRNG-chosen positions below the first heading; the corrupted file is the log or the book; x 14 log-reading / 11 book-reading command shapes + lint with and without --silent. Oracle: the command fails, its message names line p1 and quotes it; lint prints exactly k messages, in file order, each naming (p_i, line_i), the first equal to the command's message; 'No errors found' iff k = 0 and not --silent. Non-trivial = k >= 1; distinct = hash(file, argv).")
	c.Assume("lint's own exit status is not asserted (the property does not state it)")
	pool := newPool(c, c.Procs)
	if pool == nil {
		return
	}
	defer pool.Close()
	layouts := []string{"2006/01/02", "2006/01/02", "2006-01-02", "02.01.2006", "Jan 2 2006", "02/01/06"}
	n := c.N(1500, 30000)
	core.ParallelFor(n, c.Procs, func(wk, i int) {
		srv := pool.Servers[wk]
		r := c.Rng("case", i)
		layout := layouts[r.Intn(len(layouts))]
		w := newWorld(r, worldOpts{Exact: true, Hostile: true, Notes: true, Layout: layout, MinDays: 1, AltComment: true})
		k := r.Intn(6)
		if i%40 == 9 {
			// a file that is mostly malformed (the wrong file given to lint, an export in another dialect): every
			// one of its malformed lines is reported, the hundredth and the thousandth like the first
			k = []int{64, 99, 100, 101, 130, 256, 300, 1100}[r.Intn(8)]
			c.Count("files_with_64_to_1100_malformed", 1)
		}
		inLog := r.Intn(2) == 0
		book, log := w.BookText, w.LogText
		var planted [][2]string
		target := "food.yaml"
		// under another comment character '#' may begin a malformed name, and so may the two-byte UTF-8 form
		// of a comment character above 127 (the comment character is a byte)
		var pfx []string
		cc := byte('#')
		if w.Conf != "" {
			pfx = []string{"", "#"}
			var ccn int
			fmt.Sscanf(w.Conf, "[ParserConfig]\nCommentChar=%d", &ccn)
			cc = byte(ccn)
			if ccn >= 0x80 {
				pfx = append(pfx, string(rune(ccn)), string(rune(ccn)))
			}
			c.Count("files_under_another_comment_character", 1)
		}
		if i%4 == 1 {
			// notes without content ("  #", "- #", "\t# ") inside records: well formed, never an error
			book, log = sprinkleEmptyNotes(r, book, cc), sprinkleEmptyNotes(r, log, cc)
			c.Count("files_with_empty_notes", 1)
		}
		if inLog {
			log, planted = plant(r, log, k, cc, pfx...)
			target = "log.yaml"
		} else {
			book, planted = plant(r, book, k, cc, pfx...)
		}
		k = len(planted)
		files := map[string]string{"food.yaml": book, "log.yaml": log}
		pre := []string{"--no-color", "-d", "food.yaml", "-l", "log.yaml", "--today", gen.Date{Y: 2021, M: 2, D: 1}.Format(layout)}
		if w.Conf != "" {
			files["hr.conf"] = w.Conf
			pre = append([]string{"--config", "hr.conf"}, pre...)
		}
		srv.Write(files)
		if layout != "2006/01/02" {
			pre = append(pre, "--date-format", layout)
		}
		if k > 0 {
			c.Nontrivial(book, log)
		}
		if k <= 5 {
			c.Count(fmt.Sprintf("files_with_%d_malformed", k), 1)
		}

		// lint, with and without --silent
		var lintFirst string
		for _, silent := range []bool{false, true} {
			args := append([]string{}, pre...)
			args = append(args, "lint")
			if silent {
				args = append(args, "--silent")
			}
			args = append(args, target)
			res := srv.App1(args, nil)
			c.Eval(1)
			c.Count("runs_lint", 1)
			doc := caseDoc{Files: files, Args: args, Expected: planted, Observed: resDoc(res)}
			if res.Panic != "" {
				c.Violation("lint|crash", clip(res.Panic, 300), doc)
				continue
			}
			lines := obs.Lines(res.Out)
			var msgs []string
			noErrors := false
			for _, ln := range lines {
				if ln == "No errors found" {
					noErrors = true
				} else {
					msgs = append(msgs, ln)
				}
			}
			switch {
			case noErrors && k > 0:
				c.Violation("lint|no-errors-found-after-errors", fmt.Sprintf("%d malformed lines reported and then 'No errors found'", k), doc)
			case noErrors && silent:
				c.Violation("lint|silent-not-silent", "'No errors found' printed with --silent", doc)
			case !noErrors && k == 0 && !silent:
				c.Violation("lint|no-errors-found-missing", "clean file, no --silent, but 'No errors found' not printed", doc)
			}
			if len(msgs) != k {
				c.Violation("lint|message-count", fmt.Sprintf("%d messages for %d malformed lines", len(msgs), k), doc)
				continue
			}
			for j, p := range planted {
				if !mentionsLine(msgs[j], p[0], p[1]) {
					c.Violation("lint|message-content", fmt.Sprintf("message %d %q does not name line %s and quote %q", j, msgs[j], p[0], p[1]), doc)
					break
				}
			}
			if k > 0 && !silent {
				lintFirst = msgs[0]
			}
			if i%8 == 3 {
				// the real binary with something else on its standard input (a pipe left over by the calling script, the
				// other file, nothing at all): lint reports on the file it was given
				other := []string{"", "stray text on standard input\n  not: a number\n", files["food.yaml"] + files["log.yaml"]}[r.Intn(3)]
				l1 := run.Exec(c.HR, args, run.ExecOpts{Dir: srv.Dir, Stdin: &other})
				c.Eval(1)
				c.Count("runs_lint_with_a_piped_standard_input", 1)
				if l1.Out != res.Out || (l1.Exit == 0) != (res.Exit == 0) {
					c.Violation("lint|depends-on-standard-input", fmt.Sprintf("lint FILE with %d bytes piped into standard input: exit %d, %d bytes of findings; without: exit %d, %d bytes", len(other), l1.Exit, len(l1.Out), res.Exit, len(res.Out)),
						caseDoc{Files: files, Args: args, Note: "standard input is a pipe carrying: " + clip(other, 200), Expected: resDoc(res), Observed: resDoc(l1)})
				}
			}
		}

		// every command that reads the corrupted file
		cmds := c09BookCmds
		if inLog {
			cmds = c09LogCmds
		}
		// plus command shapes drawn from the catalogue (flag combinations nobody listed by hand) that read the corrupted file
		cmds = append([][]string{}, cmds...)
		fixed := len(cmds)
		for tries := 0; len(cmds) < fixed+3 && tries < 40; tries++ {
			sp := randomCmd(r, "x", "a", "DATE")
			if (inLog && sp.Log) || (!inLog && sp.Book) {
				cmds = append(cmds, sp.Args)
			}
		}
		// a rotating subset keeps the run short; every command is hit hundreds of times overall
		for ci, cmd := range cmds {
			if ci < fixed && (ci+i)%3 != 0 && c.Quick() {
				continue
			}
			if ci >= fixed {
				c.Count("runs_of_catalogue_shapes", 1)
			}
			args := append([]string{}, pre...)
			if ci%2 == 1 && cmd[0] != "summary" {
				// a period that keeps no day, every day or is inverted: the file is read and checked all the same
				args = append(args, randomPeriod(r, func(y, m, d int) string { return gen.Date{Y: y, M: m, D: d}.Format(layout) })...)
			}
			for _, a := range cmd {
				if a == "DATE" {
					a = w.Log[0].Date.Format(layout)
				}
				args = append(args, a)
			}
			res := srv.App1(args, nil)
			c.Eval(1)
			name := strings.Join(cmd[:min(2, len(cmd))], " ")
			if cmd[0] == "summary" || cmd[0] == "reg" || cmd[0] == "bal" {
				name = cmd[0]
			}
			c.Count("runs_"+strings.ReplaceAll(name, " ", "_"), 1)
			doc := caseDoc{Files: files, Args: args, Expected: planted, Observed: resDoc(res), Note: "malformed lines planted in " + target}
			switch {
			case res.Panic != "":
				c.Violation(name+"|crash", clip(res.Panic, 300), doc)
			case k == 0 && res.Exit != 0:
				c.Violation(name+"|fails-on-clean-file", fmt.Sprintf("exit %d: %s", res.Exit, res.ErrText()), doc)
			case k > 0 && res.Exit == 0:
				c.Violation(name+"|malformed-line-accepted", fmt.Sprintf("exit 0 although line %s is malformed: %q", planted[0][0], planted[0][1]), doc)
			case k > 0 && !mentionsLine(res.ErrText(), planted[0][0], planted[0][1]):
				c.Violation(name+"|message-content", fmt.Sprintf("message %q does not name line %s and quote %q", res.ErrText(), planted[0][0], planted[0][1]), doc)
			case k > 0 && lintFirst != "" && strings.TrimSpace(res.ErrText()) != strings.TrimSpace(lintFirst):
				c.Violation(name+"|message-differs-from-lint", fmt.Sprintf("command says %q, lint says %q", res.ErrText(), lintFirst), doc)
			}
			if i%60 == 0 && ci == i%len(cmds) {
				crossCheck(c, srv, args, nil, res)
			}
		}
		// the malformed log together with an output sink that accepts nothing: the error that ends the run is still
		// the malformed line (asserted when the report up to that line fits into one output buffer, so that no
		// write was attempted before the parser got there)
		if i%7 == 2 && k > 0 && inLog && c.HR != "" {
			var ln int
			fmt.Sscanf(planted[0][0], "%d", &ln)
			lines := strings.SplitAfter(files["log.yaml"], "\n")
			if ln-1 <= len(lines) {
				srv.Write(map[string]string{"logpre.yaml": strings.Join(lines[:ln-1], "")})
				for _, cmd := range [][]string{{"reg"}, {"reg", "--use-old-reg-reporter"}, {"print"}, {"csv", "log"}, {"bal"}} {
					pargs := append(append([]string{}, pre...), "-l", "logpre.yaml")
					before := run.Exec(c.HR, append(pargs, cmd...), run.ExecOpts{Dir: srv.Dir})
					if before.Exit != 0 || len(before.Out) > 3000 {
						continue
					}
					if full, err := os.OpenFile("/dev/full", os.O_WRONLY, 0); err == nil {
						fargs := append(append([]string{}, pre...), cmd...)
						res := run.Exec(c.HR, fargs, run.ExecOpts{Dir: srv.Dir, Stdout: full})
						full.Close()
						c.Eval(2)
						c.Count("runs_with_a_malformed_log_and_a_full_sink", 1)
						if res.Exit == 0 || !mentionsLine(res.ErrText(), planted[0][0], planted[0][1]) {
							c.Violation(strings.Join(cmd, " ")+"|message-lost-with-a-failing-sink", fmt.Sprintf("stdout is /dev/full: exit %d, message %q does not name line %s and quote %q", res.Exit, clip(res.ErrText(), 200), planted[0][0], planted[0][1]),
								caseDoc{Files: files, Args: fargs, Expected: planted, Note: "stdout is /dev/full; the report of the lines before the malformed one is " + fmt.Sprint(len(before.Out)) + " bytes", Observed: resDoc(res)})
						}
					}
				}
			}
		}
		// the corrupted file through a pipe (a non-seekable input): same messages, same line numbers
		if i%5 == 0 && k > 0 {
			content := files[target]
			largs := append(append([]string{}, pre...), "lint", "/dev/stdin")
			lres := run.Exec(c.HR, largs, run.ExecOpts{Dir: srv.Dir, Stdin: &content})
			var cargs []string
			if inLog {
				cargs = append(append([]string{}, pre...), "-l", "/dev/stdin", "csv", "log")
			} else {
				cargs = append(append([]string{}, pre...), "-d", "/dev/stdin", "csv", "database")
			}
			cres := run.Exec(c.HR, cargs, run.ExecOpts{Dir: srv.Dir, Stdin: &content})
			c.Eval(2)
			c.Count("runs_from_a_pipe", 2)
			msgs := obs.Lines(lres.Out)
			if len(msgs) != k || !mentionsLine(msgs[0], planted[0][0], planted[0][1]) {
				c.Violation("lint|pipe-differs-from-file", fmt.Sprintf("lint /dev/stdin (piped): %d messages, first %q; planted %v", len(msgs), clip(lres.Out, 200), planted), caseDoc{Files: map[string]string{"stdin": content}, Args: largs, Expected: planted, Observed: resDoc(lres)})
			}
			if cres.Exit == 0 || !mentionsLine(cres.ErrText(), planted[0][0], planted[0][1]) {
				c.Violation("csv|pipe-differs-from-file", fmt.Sprintf("%s (piped): exit %d message %q; first planted line %v", joinArgs(cargs[len(pre):]), cres.Exit, clip(cres.ErrText(), 200), planted[0]), caseDoc{Files: map[string]string{"stdin": content}, Args: cargs, Expected: planted, Observed: resDoc(cres)})
			}
		}
		// the same file with bytes that are not valid UTF-8 inside the malformed lines (a file saved as
		// ISO-8859-1): the messages must still quote the line byte for byte. Real processes, because the
		// in-process job protocol is JSON.
		if i%6 == 1 && k > 0 {
			seqs := []string{"\xe9", "\xe8", "\xff", "\xbd", "\xc3", "\xed\xa0\x80"}
			nth := 0
			content := regexp.MustCompile(`bad\d+q`).ReplaceAllStringFunc(files[target], func(m string) string {
				nth++
				return m + seqs[nth%len(seqs)] + "z"
			})
			var inv [][2]string
			for li, ln := range strings.Split(content, "\n") {
				if strings.Contains(ln, "bad") && regexp.MustCompile(`bad\d+q`).MatchString(ln) {
					inv = append(inv, [2]string{fmt.Sprint(li + 1), strings.TrimRight(ln, "\r")})
				}
			}
			os.WriteFile(filepath.Join(srv.Dir, "inv.yaml"), []byte(content), 0o644)
			largs := append(append([]string{}, pre...), "lint", "inv.yaml")
			lres := run.Exec(c.HR, largs, run.ExecOpts{Dir: srv.Dir})
			var cargs []string
			if inLog {
				cargs = append(append([]string{}, pre...), "-l", "inv.yaml", "csv", "log")
			} else {
				cargs = append(append([]string{}, pre...), "-d", "inv.yaml", "csv", "database")
			}
			cres := run.Exec(c.HR, cargs, run.ExecOpts{Dir: srv.Dir})
			c.Eval(2)
			c.Count("runs_with_invalid_utf8_in_malformed_lines", 2)
			msgs := obs.Lines(lres.Out)
			idoc := caseDoc{Files: map[string]string{"inv.yaml": content, "food.yaml": book, "log.yaml": log}, Args: largs, Expected: inv, Observed: resDoc(lres)}
			if len(msgs) != len(inv) {
				c.Violation("lint|invalid-utf8-message-count", fmt.Sprintf("%d messages for %d malformed lines", len(msgs), len(inv)), idoc)
			} else {
				for j, pl := range inv {
					if !mentionsLine(msgs[j], pl[0], pl[1]) {
						c.Violation("lint|invalid-utf8-message-content", fmt.Sprintf("message %d %q does not name line %s and quote %q byte for byte", j, msgs[j], pl[0], pl[1]), idoc)
						break
					}
				}
			}
			if cres.Exit == 0 || !mentionsLine(cres.ErrText(), inv[0][0], inv[0][1]) {
				idoc.Args, idoc.Observed = cargs, resDoc(cres)
				c.Violation("csv|invalid-utf8-message-content", fmt.Sprintf("exit %d, message %q does not name line %s and quote %q byte for byte", cres.Exit, clip(cres.ErrText(), 200), inv[0][0], inv[0][1]), idoc)
			}
		}
		if i < 3 {
			c.Sample(map[string]any{"corrupted": target, "planted": planted, "file": clip(files[target], 700), "layout": layout})
		}
	})
	// notes whose text is a character another format gives a meaning to (the block-scalar indicators of YAML, an
	// anchor, a tag): a note is one line, and the malformed lines below it are reported like any others
	{
		srv := pool.Servers[0]
		for ni, note := range []string{"  # mood: |", "  # mood: >", "  # |", "  # >-", "  # text: |+", "  # ref: &a", "  # t: !!str"} {
			text := "2021/01/01:\n  bread: 2\n" + note + "\n  candy/snickers/bar:1\n  milk: 1\n    deeper: 1,5\n\n  after a blank line\n2021/01/02:\n  ok: 1\n"
			planted := [][2]string{{"4", "  candy/snickers/bar:1"}, {"6", "    deeper: 1,5"}, {"8", "  after a blank line"}}
			srv.Write(map[string]string{"noted.yaml": text})
			res := srv.App1([]string{"--no-color", "lint", "noted.yaml"}, nil)
			c.Eval(1)
			c.Count("files_with_a_note_other_formats_give_a_meaning_to", 1)
			c.Nontrivial("block-note", fmt.Sprint(ni))
			doc := caseDoc{Files: map[string]string{"noted.yaml": text}, Args: []string{"--no-color", "lint", "noted.yaml"}, Expected: planted, Observed: resDoc(res)}
			var msgs []string
			for _, ln := range obs.Lines(res.Out) {
				if ln != "No errors found" {
					msgs = append(msgs, ln)
				}
			}
			if len(msgs) != len(planted) {
				c.Violation("lint|message-count", fmt.Sprintf("%d messages for %d malformed lines below the note %q", len(msgs), len(planted), strings.TrimSpace(note)), doc)
			} else {
				for j, p := range planted {
					if !mentionsLine(msgs[j], p[0], p[1]) {
						c.Violation("lint|message-content", fmt.Sprintf("message %d %q does not name line %s and quote %q", j, msgs[j], p[0], p[1]), doc)
						break
					}
				}
			}
			pr := srv.App1([]string{"--no-color", "-l", "noted.yaml", "print"}, nil)
			c.Eval(1)
			if pr.Exit == 0 || !mentionsLine(pr.ErrText(), planted[0][0], planted[0][1]) {
				c.Violation("print|malformed-line-accepted", fmt.Sprintf("exit %d, message %q: line %s %q below the note %q is malformed", pr.Exit, clip(pr.ErrText(), 200), planted[0][0], planted[0][1], strings.TrimSpace(note)), caseDoc{Files: map[string]string{"noted.yaml": text}, Args: []string{"--no-color", "-l", "noted.yaml", "print"}, Observed: resDoc(pr)})
			}
		}
	}
	// values that are a fragment of a number - a lone sign, a lone point, an exponent without digits, a sign after the
	// digits (round 13, L09: a hand-written conversion for short integers took a lone '+' for 0): with and without the
	// colon, in the log and in the book, each reported by lint and refused by the commands with its line
	{
		srv := pool.Servers[0]
		for fi, frag := range []string{"+", ".", "+.", "-.", "e", "e5", "+e1", ".e1", "1e+", "1e-", "+-1", "-+1", "1+", "0x", "++", "+٣", "1..", "..1"} {
			for vi, line := range []string{"  sugar: " + frag, "  sugar " + frag, "  - sugar: " + frag, "\tsugar tea:  " + frag} {
				if strings.Contains(frag, " ") && vi == 1 {
					continue
				}
				logText := "2021/01/01:\n  bread: 2\n" + line + "\n  milk: 1\n2021/01/02:\n  ok: 1\n"
				bookText := "bread:\n  kcal: 2\n" + line + "\nmilk:\n  kcal: 1\n"
				planted := [2]string{"3", line}
				srv.Write(map[string]string{"frag-log.yaml": logText, "frag-book.yaml": bookText, "good-log.yaml": "2021/01/01:\n  bread: 2\n", "good-book.yaml": "bread:\n  kcal: 2\n"})
				c.Count("fragment_of_a_number_as_value_cases", 1)
				c.Nontrivial("fragment", fmt.Sprint(fi, vi))
				for _, f := range []string{"frag-log.yaml", "frag-book.yaml"} {
					lr := srv.App1([]string{"--no-color", "lint", f}, nil)
					c.Eval(1)
					var msgs []string
					for _, ln := range obs.Lines(lr.Out) {
						if ln != "No errors found" {
							msgs = append(msgs, ln)
						}
					}
					if len(msgs) != 1 || !mentionsLine(msgs[0], planted[0], planted[1]) || strings.Contains(lr.Out, "No errors found") {
						c.Violation("lint|message-content", fmt.Sprintf("%d messages %q for the one malformed line %s %q (value %q is not a number)", len(msgs), clip(lr.Out, 200), planted[0], planted[1], frag),
							caseDoc{Files: map[string]string{f: map[string]string{"frag-log.yaml": logText, "frag-book.yaml": bookText}[f]}, Args: []string{"--no-color", "lint", f}, Observed: resDoc(lr)})
					}
				}
				for ci, cmd := range [][]string{{"-d", "good-book.yaml", "-l", "frag-log.yaml", "reg"}, {"-d", "good-book.yaml", "-l", "frag-log.yaml", "bal"}, {"-d", "good-book.yaml", "-l", "frag-log.yaml", "csv", "log"}, {"-l", "frag-log.yaml", "print"},
					{"-d", "frag-book.yaml", "-l", "good-log.yaml", "reg"}, {"-d", "frag-book.yaml", "csv", "database"}, {"-d", "frag-book.yaml", "-l", "good-log.yaml", "report", "totals"}} {
					if (fi+vi+ci)%2 == 1 && c.Quick() {
						continue
					}
					args := append([]string{"--no-color"}, cmd...)
					res := srv.App1(args, nil)
					c.Eval(1)
					if res.Exit == 0 || !mentionsLine(res.ErrText(), planted[0], planted[1]) {
						c.Violation(strings.Join(cmd[len(cmd)-1:], " ")+"|malformed-line-accepted", fmt.Sprintf("%s: exit %d, message %q: line %s %q is malformed (value %q is not a number)", joinArgs(cmd), res.Exit, clip(res.ErrText(), 200), planted[0], planted[1], frag),
							caseDoc{Files: map[string]string{"frag-log.yaml": logText, "frag-book.yaml": bookText}, Args: args, Observed: resDoc(res)})
					}
				}
			}
		}
	}
	jobs, deaths := pool.Stats()
	c.Count("l2_jobs", jobs)
	c.Count("l2_process_deaths", deaths)
	c.Count("l2_priming_runs", pool.Primed())
	_ = sort.Strings
}
