package checks

import (
	"fmt"
	"math/rand"
	"os"
	"path/filepath"
	"runtime/debug"
	"strconv"
	"strings"
	"syscall"
	"time"

	shared "github.com/aquilax/hranoprovod-cli/v3"
	"github.com/aquilax/hranoprovod-cli/v3/parser"

	"verif/harness/core"
	"verif/harness/gen"
	"verif/harness/obs"
	"verif/harness/run"
)

func init() {
	register(&Check{ID: "C04", Level: "exploration", Run: runC04})
}

// parseEvent is one callback of the callback parser, deep-copied.
type parseEvent struct {
	Node *shared.ParserNode
	Err  string
}

// safely runs f and converts a panic into a message with its stack.
func safely(f func()) (pnc string) {
	defer func() {
		if p := recover(); p != nil {
			pnc = fmt.Sprintf("%v\n%s", p, debug.Stack())
		}
	}()
	f()
	return ""
}

func copyNode(n *shared.ParserNode) *shared.ParserNode {
	if n == nil {
		return nil
	}
	cp := &shared.ParserNode{Header: n.Header, Elements: append(shared.Elements{}, n.Elements...)}
	if n.Metadata != nil {
		md := append(shared.Metadata{}, (*n.Metadata)...)
		cp.Metadata = &md
	}
	return cp
}

// parseAll runs the callback parser with a callback that never stops.
func parseAll(text string) (evs []parseEvent, ret error, pnc string) {
	return parseAllCfg(text, parser.NewDefaultConfig())
}

func parseAllCfg(text string, cfg parser.Config) (evs []parseEvent, ret error, pnc string) {
	pnc = safely(func() {
		ret = parser.ParseStreamCallback(strings.NewReader(text), cfg, func(n *shared.ParserNode, err error) (bool, error) {
			if err != nil {
				evs = append(evs, parseEvent{Err: err.Error()})
			} else {
				evs = append(evs, parseEvent{Node: copyNode(n)})
			}
			return false, nil
		})
	})
	return
}

// compareParsed checks the event list against the generating structure.
func compareParsed(evs []parseEvent, ret error, want gen.Book) (class, msg string) {
	if ret != nil {
		return "returned-error", fmt.Sprintf("parser returned %q on a well-formed file", ret)
	}
	for _, e := range evs {
		if e.Err != "" {
			return "error-callback", fmt.Sprintf("error callback %q on a well-formed file", e.Err)
		}
	}
	if len(evs) != len(want) {
		return "record-count", fmt.Sprintf("got %d records, want %d", len(evs), len(want))
	}
	for i, rec := range want {
		n := evs[i].Node
		if n.Header != rec.Name {
			return "heading", fmt.Sprintf("record %d: heading %q, want %q", i, n.Header, rec.Name)
		}
		if len(n.Elements) != len(rec.Ents) {
			return "entry-count", fmt.Sprintf("record %d (%q): %d entries %v, want %d", i, rec.Name, len(n.Elements), n.Elements, len(rec.Ents))
		}
		for j, e := range rec.Ents {
			g := n.Elements[j]
			if g.Name != e.Name {
				return "entry-name", fmt.Sprintf("record %d entry %d: name %q, want %q", i, j, g.Name, e.Name)
			}
			if g.Value != e.Val.F() {
				return "entry-value", fmt.Sprintf("record %d entry %d (%q): value %v, want %v (literal %s)", i, j, e.Name, g.Value, e.Val.F(), e.Val.Lit)
			}
		}
		var md shared.Metadata
		if n.Metadata != nil {
			md = *n.Metadata
		}
		if len(md) != len(rec.Notes) {
			return "notes", fmt.Sprintf("record %d (%q): %d notes %v, want %d %v", i, rec.Name, len(md), md, len(rec.Notes), rec.Notes)
		}
		for j, nt := range rec.Notes {
			if md[j].Name != nt.Key || md[j].Value != nt.Text {
				return "notes", fmt.Sprintf("record %d note %d: got (%q,%q), want (%q,%q)", i, j, md[j].Name, md[j].Value, nt.Key, nt.Text)
			}
		}
	}
	return "", ""
}

// the 14-symbol alphabet of line kinds for the exhaustive part
type lineKind struct {
	text string
	kind byte // 'H' heading, 'E' entry, 'N' note, '.' ignored
	name string
	val  string
	key  string
}

var c04Alphabet = []lineKind{
	{"alpha:", 'H', "alpha", "", ""},
	{"\"beta gamma/δ\":  ", 'H', "beta gamma/δ", "", ""},
	{"  a: 1", 'E', "a", "1", ""},
	{"\tb b:\t2.5", 'E', "b b", "2.5", ""},
	{"  - c/d: -3", 'E', "c/d", "-3", ""},
	{"    \"e\": 010 ", 'E', "e", "010", ""},
	{" \tf: g:  +0.125\t", 'E', "f: g", "+0.125", ""},
	{"  - \"h, i\": 1.5e-1", 'E', "h, i", "1.5e-1", ""},
	{"# comment: 12", '.', "", "", ""},
	{"", '.', "", "", ""},
	{"   ", '.', "", "", ""},
	{"\t", '.', "", "", ""},
	{"  # note text", 'N', "", "note text", ""},
	{"\t# key: value 7", 'N', "", "value 7", "key"},
}

func runC04(c *core.Ctx) {
	c.SetRule("files: (1) every sequence of <= L lines over a 14-symbol alphabet of line kinds (2 headings, 6 entry layouts, comment, blank, 2 whitespace-only, 2 note forms) x {LF,CRLF} x {final EOL, none}, skipping sequences with an entry/note before the first heading (outside the documented format); (2) random files rendered from abstract books with every layout variant, names of all scripts with inner blanks, '/', punctuation, numbers signed/fractional/exponent, up to 2000 lines and names up to 20 kB; (3) a sample through csv database / csv log / print of the real binary. Oracle: the callback sequence must equal the generating structure (headings, entries, exact names, correctly rounded values via big.Rat, notes). Non-trivial = file with >= 1 entry; distinct = file hash.")
	c.Assume("names start and end with a letter or digit (leading/trailing quote, dash, colon and blanks are quoting syntax the parser strips by design)")
	// in the background: the book and the log through a pipe whose writer falls silent for half a minute in the middle
	if !c.InChild() {
		waitPaused := pausedPipes(c, map[string]string{"csv database": "book", "csv log": "log"})
		defer waitPaused()
	}

	c.RunPart("l3-exhaustive", 30*time.Minute, func(c *core.Ctx) {
		maxLen := c.N(5, 6)
		A := len(c04Alphabet)
		// enumerate sequences of length 1..maxLen as numbers in base A
		var total int
		for l, pow := 1, A; l <= maxLen; l, pow = l+1, pow*A {
			l, pow := l, pow
			total += pow
			core.ParallelFor(pow, c.Procs, func(w, idx int) {
				seq := make([]int, l)
				x := idx
				for k := 0; k < l; k++ {
					seq[k] = x % A
					x /= A
				}
				// expected structure; skip sequences outside the documented format
				var want gen.Book
				for _, s := range seq {
					lk := c04Alphabet[s]
					switch lk.kind {
					case 'H':
						want = append(want, gen.Recipe{Name: lk.name})
					case 'E':
						if len(want) == 0 {
							return
						}
						r := &want[len(want)-1]
						r.Ents = append(r.Ents, gen.Ent{Name: lk.name, Val: gen.N(lk.val)})
					case 'N':
						if len(want) == 0 {
							return
						}
						r := &want[len(want)-1]
						r.Notes = append(r.Notes, gen.Note{Key: lk.key, Text: lk.val})
					}
				}
				hasEntry := false
				for _, r := range want {
					if len(r.Ents) > 0 {
						hasEntry = true
					}
				}
				for _, eol := range []string{"\n", "\r\n"} {
					for _, final := range []bool{true, false} {
						var sb strings.Builder
						for k, s := range seq {
							sb.WriteString(c04Alphabet[s].text)
							if k < len(seq)-1 || final {
								sb.WriteString(eol)
							}
						}
						text := sb.String()
						evs, ret, pnc := parseAll(text)
						c.Eval(1)
						if hasEntry {
							c.Nontrivial(text)
						}
						if pnc != "" {
							c.Violation("ParseStreamCallback|panic", clip(pnc, 300), map[string]any{"file": text})
							continue
						}
						if class, msg := compareParsed(evs, ret, want); class != "" {
							c.Violation("ParseStreamCallback|"+class, msg, map[string]any{"file": text, "problem": msg})
						}
					}
				}
				if l == 4 && idx == 2744 {
					var sb strings.Builder
					for _, s := range seq {
						sb.WriteString(c04Alphabet[s].text + "\n")
					}
					c.Sample(map[string]any{"part": "exhaustive", "file": sb.String(), "records_expected": len(want)})
				}
			})
		}
		c.Count("exhaustive_line_sequences", total)
		c.SetExhaustive(false)
	})

	c.RunPart("l3-random", 30*time.Minute, func(c *core.Ctx) {
		n := c.N(3000, 50000)
		core.ParallelFor(n, c.Procs, func(w, i int) {
			r := c.Rng("random", i)
			b := c04RandomBook(r)
			st := gen.Hostile(r)
			cfg := parser.NewDefaultConfig()
			if i%6 == 5 {
				// a parser configured with another comment character: '#' is then an ordinary character that
				// may begin a name, and comments begin with the configured one
				cc := []byte{';', '/', '`', '%', '!', 0xa7, 0xe9, 0xff}[r.Intn(8)]
				ok := true
				for _, rec := range b {
					ok = ok && len(rec.Name) > 0 && rec.Name[0] != cc
					for _, e := range rec.Ents {
						ok = ok && e.Name[0] != cc
					}
				}
				if ok {
					for ri := range b {
						b[ri].Notes = nil // how note lines read under another comment character is not documented
						for ei := range b[ri].Ents {
							switch r.Intn(4) {
							case 0:
								b[ri].Ents[ei].Name = "#" + b[ri].Ents[ei].Name
							case 1:
								if cc >= 0x80 {
									// the two-byte UTF-8 form of the code point is not the comment byte
									b[ri].Ents[ei].Name = string(rune(cc)) + b[ri].Ents[ei].Name
								}
							}
						}
					}
					st.Comment, cfg.CommentChar = cc, cc
					st.Quotes = false
					c.Count("random_files_with_another_comment_character", 1)
				}
			}
			text := gen.RenderBook(b, st)
			c.Crumb(w, fmt.Sprintf("random file %d (%d bytes)", i, len(text)))
			evs, ret, pnc := parseAllCfg(text, cfg)
			c.Eval(1)
			c.Nontrivial(text)
			c.Max("random_max_file_bytes", len(text))
			if pnc != "" {
				c.Violation("ParseStreamCallback|panic", clip(pnc, 300), map[string]any{"file": text})
				return
			}
			if class, msg := compareParsed(evs, ret, b); class != "" {
				c.Violation("ParseStreamCallback|"+class, msg, map[string]any{"file": clip(text, 20000), "problem": msg, "comment_char": int(cfg.CommentChar)})
			}
			if i == 0 {
				c.Sample(map[string]any{"part": "random", "file": clip(text, 1500), "records": len(b)})
			}
		})
	})

	// lines whose length sits on the boundaries of read buffers (4096) and of the scanner (64 KiB),
	// as last line of the file with and without a final line terminator, as entry and as heading
	c.RunPart("l3-line-lengths", 10*time.Minute, func(c *core.Ctx) {
		// entry layouts at any position of a file: after a long head of plain `  name: value` lines (a machine-written
		// file edited by hand at the end) a quoted name, a list dash, a blank or the colon in front of the quantity mean
		// what they mean at the top
		{
			layouts := []struct{ line, name, val string }{{`  "brown rice": 2.5`, "brown rice", "2.5"}, {"  - tea: 1", "tea", "1"}, {"  oat milk : 3", "oat milk", "3"}, {"  coffee/cup :2", "coffee/cup", "2"}, {`  "x" :"1.5"`, "x", "1.5"}, {"\tjam:\t4", "jam", "4"}, {"  -  \"a b\":  5  ", "a b", "5"}}
			for _, head := range []int{0, 1, 63, 64, 65, 200, 1100} {
				var sb strings.Builder
				sb.WriteString("first:\n")
				for k := 0; k < head; k++ {
					fmt.Fprintf(&sb, "  plain%d: %d\n", k, k%9+1)
					if k%50 == 49 {
						fmt.Fprintf(&sb, "rec%d:\n", k)
					}
				}
				sb.WriteString("last:\n")
				for _, l := range layouts {
					sb.WriteString(l.line + "\n")
				}
				evs, ret, pnc := parseAll(sb.String())
				c.Eval(1)
				c.Count("entry_layouts_after_a_plain_head", 1)
				c.Nontrivial("layouts-after-head", fmt.Sprint(head))
				bad := ""
				if pnc != "" || ret != nil || len(evs) == 0 || evs[len(evs)-1].Node == nil {
					bad = fmt.Sprintf("returned %v, panic %q, %d events", ret, clip(pnc, 100), len(evs))
				} else if n := evs[len(evs)-1].Node; n.Header != "last" || len(n.Elements) != len(layouts) {
					bad = fmt.Sprintf("last record %q has %d entries, want %d", n.Header, len(n.Elements), len(layouts))
				} else {
					for k, l := range layouts {
						want, _ := strconv.ParseFloat(l.val, 64)
						if n.Elements[k].Name != l.name || n.Elements[k].Value != want {
							bad = fmt.Sprintf("entry written %q read as (%q, %v), want (%q, %v)", l.line, n.Elements[k].Name, n.Elements[k].Value, l.name, want)
							break
						}
					}
				}
				if bad != "" {
					c.Violation("ParseStreamCallback|entry-layout-after-plain-head", fmt.Sprintf("%d plain entries, then a record in mixed layouts: %s", head, bad), map[string]any{"plain_entries_before": head, "last_record": "last:\n" + func() string {
						t := ""
						for _, l := range layouts {
							t += l.line + "\n"
						}
						return t
					}()})
				}
			}
		}
		// names written in quotes are taken verbatim between the outer quotes: a backslash is a character, not an escape
		{
			type ne struct{ line, name string }
			quoted := []ne{{`"a\"b"`, `a\"b`}, {`"c\\d"`, `c\\d`}, {`"e\n"`, `e\n`}, {`"back\\"`, `back\\`}, {`"x \"y\" z"`, `x \"y\" z`}, {`"\\"`, `\\`}, {`"tab\t"`, `tab\t`}, {`'single'`, `'single'`}}
			for k, h := range quoted {
				for j, e := range quoted {
					text := h.line + ":\n  " + e.line + ": 1\n  - " + quoted[(j+1)%len(quoted)].line + ": 2\n"
					evs, ret, pnc := parseAll(text)
					c.Eval(1)
					c.Count("quoted_name_cases", 1)
					c.Nontrivial("quoted", text)
					bad := ""
					if pnc != "" || ret != nil || len(evs) != 1 || evs[0].Node == nil {
						bad = fmt.Sprintf("returned %v, panic %q, %d events", ret, clip(pnc, 100), len(evs))
					} else if n := evs[0].Node; n.Header != h.name || len(n.Elements) != 2 || n.Elements[0].Name != e.name || n.Elements[1].Name != quoted[(j+1)%len(quoted)].name {
						bad = fmt.Sprintf("heading %q entries %v, want heading %q entries %q, %q", n.Header, n.Elements, h.name, e.name, quoted[(j+1)%len(quoted)].name)
					}
					if bad != "" {
						c.Violation("ParseStreamCallback|quoted-name", fmt.Sprintf("case %d/%d: %s", k, j, bad), map[string]any{"file": text})
					}
				}
			}
		}
		for _, L := range []int{4095, 4096, 4097, 8191, 8192, 8193, 12288, 16384, 60000} {
			for _, kind := range []string{"entry", "heading"} {
				for _, eol := range []string{"", "\n", "\r\n"} {
					for _, pos := range []string{"last", "middle"} {
						var b gen.Book
						b = append(b, gen.Recipe{Name: "first", Ents: []gen.Ent{{Name: "x", Val: gen.N("1")}}})
						var line string
						if kind == "entry" {
							name := "p" + strings.Repeat("q", L-7) + "z" // "  name: 1" is L bytes
							b[0].Ents = append(b[0].Ents, gen.Ent{Name: name, Val: gen.N("1")})
							line = "  " + name + ": 1"
						} else {
							name := "h" + strings.Repeat("q", L-3) + "z" // "name:" is L bytes
							b = append(b, gen.Recipe{Name: name})
							line = name + ":"
						}
						text := "first:\n  x: 1\n" + line + eol
						if pos == "middle" {
							if eol == "" {
								continue
							}
							b = append(b, gen.Recipe{Name: "tail", Ents: []gen.Ent{{Name: "y", Val: gen.N("2")}}})
							text += "tail:\n  y: 2\n"
						}
						for _, chunk := range []int{0, 1, 4096, 4095} {
							evs, ret, pnc := parseWith(&countingReader{data: []byte(text), limit: -1, chunk: chunk})
							c.Eval(1)
							c.Count("boundary_length_cases", 1)
							c.Nontrivial("len", fmt.Sprint(L), kind, eol, pos, fmt.Sprint(chunk))
							rep := map[string]any{"line_bytes": L, "line_kind": kind, "line_terminator": eol, "position": pos, "reader_chunk": chunk}
							if pnc != "" {
								c.Violation("ParseStreamCallback|panic", clip(pnc, 300), rep)
							} else if class, msg := compareParsed(evs, ret, b); class != "" {
								c.Violation("ParseStreamCallback|"+class, fmt.Sprintf("%s line of %d bytes (%s, terminator %q, reader chunk %d): %s", kind, L, pos, eol, chunk, clip(msg, 200)), rep)
							}
						}
					}
				}
			}
		}
	})

	if c.InChild() {
		return
	}
	// (3) sample through the CLI: csv database (raw, file order)
	pool := newPool(c, c.Procs)
	if pool == nil {
		return
	}
	defer pool.Close()
	n := c.N(200, 3000)
	core.ParallelFor(n, c.Procs, func(w, i int) {
		srv := pool.Servers[w]
		r := c.Rng("cli", i)
		b := c04RandomBook(r)
		// the CLI keys recipes by name: headings must be distinct to be comparable row by row
		seen := map[string]bool{}
		var bb gen.Book
		for _, rec := range b {
			if !seen[rec.Name] {
				seen[rec.Name] = true
				bb = append(bb, rec)
			}
		}
		text := gen.RenderBook(bb, gen.Hostile(r))
		files := map[string]string{"food.yaml": text}
		srv.Write(files)
		args := []string{"-d", "food.yaml", "csv", "database"}
		res := srv.App1(args, nil)
		c.Eval(1)
		c.Count("cli_csv_database", 1)
		c.Nontrivial("cli", text)
		doc := caseDoc{Files: map[string]string{"food.yaml": clip(text, 20000)}, Args: args, Observed: resDoc(res)}
		if i%20 == 0 {
			crossCheck(c, srv, args, nil, res)
		}
		if res.Exit != 0 || res.Panic != "" {
			c.Violation("csv database|error-on-wellformed", fmt.Sprintf("exit %d err %q %s", res.Exit, res.Err, clip(res.Panic, 200)), doc)
			return
		}
		rows, err := obs.ParseCSV(res.Out)
		if err != nil {
			c.Violation("csv database|unparsable", err.Error(), doc)
			return
		}
		k := 0
		for _, rec := range bb {
			for _, e := range rec.Ents {
				if k >= len(rows) || len(rows[k]) != 3 || rows[k][0] != rec.Name || rows[k][1] != e.Name {
					got := []string{}
					if k < len(rows) {
						got = rows[k]
					}
					c.Violation("csv database|row", fmt.Sprintf("row %d: got %q, want (%q,%q)", k, got, rec.Name, e.Name), doc)
					return
				}
				v, ok := obs.Dec(rows[k][2])
				if !ok || !printedOK(v, e.Val.R, 2, nil2abs(e.Val)) {
					c.Violation("csv database|value", fmt.Sprintf("row %d: printed %q for literal %s", k, rows[k][2], e.Val.Lit), doc)
					return
				}
				k++
			}
		}
		if k != len(rows) {
			c.Violation("csv database|row", fmt.Sprintf("%d extra rows", len(rows)-k), doc)
		}
		// the record counter of stats: one record per heading of the file, repeated headings included
		if i%3 == 0 {
			if len(b) == len(bb) && len(b) > 0 && r.Intn(2) == 0 {
				b = append(b, gen.Recipe{Name: b[r.Intn(len(b))].Name, Ents: b[len(b)-1].Ents})
			}
			full := gen.RenderBook(b, gen.Hostile(r))
			srv.Write(map[string]string{"all.yaml": full, "none.yaml": ""})
			sargs := []string{"-d", "all.yaml", "-l", "none.yaml", "stats"}
			sres := srv.App1(sargs, nil)
			c.Eval(1)
			c.Count("cli_stats_record_counts", 1)
			if len(b) != len(bb) {
				c.Count("cli_stats_files_with_repeated_headings", 1)
			}
			st, err := obs.ParseStats(sres.Out)
			if sres.Exit != 0 || err != nil || st.Fields["Database records"] != fmt.Sprint(len(b)) {
				c.Violation("stats|record-count", fmt.Sprintf("exit %d, Database records %q for a file with %d headings (%d distinct)", sres.Exit, st.Fields["Database records"], len(b), len(bb)),
					caseDoc{Files: map[string]string{"all.yaml": full, "none.yaml": ""}, Args: sargs, Observed: resDoc(sres)})
			}
		}
		// the book through a named pipe whose writer turns up a quarter of a second after the program was started
		// (the usual order is the other way round): the program waits for it and reads every record
		if i%40 == 3 {
			fifo := filepath.Join(srv.Dir, fmt.Sprintf("late%d.fifo", i))
			os.Remove(fifo)
			if err := syscall.Mkfifo(fifo, 0o600); err == nil {
				wrote := make(chan struct{})
				go func() {
					defer close(wrote)
					time.Sleep(250 * time.Millisecond)
					if w, err := os.OpenFile(fifo, os.O_WRONLY, 0); err == nil {
						w.WriteString(text)
						w.Close()
					}
				}()
				fargs := []string{"-d", filepath.Base(fifo), "csv", "database"}
				fres := run.Exec(c.HR, fargs, run.ExecOpts{Dir: srv.Dir, Timeout: 20 * time.Second})
				// release a writer that is still blocked in open because the program has gone already
				for released := false; !released; {
					select {
					case <-wrote:
						released = true
					case <-time.After(400 * time.Millisecond):
						if rd, err := os.OpenFile(fifo, os.O_RDONLY|syscall.O_NONBLOCK, 0); err == nil {
							time.Sleep(50 * time.Millisecond)
							rd.Close()
						}
					}
				}
				os.Remove(fifo)
				c.Eval(1)
				c.Count("cli_csv_database_from_a_pipe_with_a_late_writer", 1)
				if fres.TimedOut {
					c.Inconclusive("late-writer", "watchdog")
				} else if fres.Out != res.Out || fres.Exit != res.Exit {
					c.Violation("csv database|late-writer-differs-from-file", fmt.Sprintf("the book through a named pipe whose writer opens it 250 ms after the program started: exit %d and %d bytes; from a file: exit %d and %d bytes", fres.Exit, len(fres.Out), res.Exit, len(res.Out)),
						caseDoc{Files: map[string]string{"(named pipe)": clip(text, 20000)}, Args: fargs, Note: "the writer opens the pipe 250 ms after the program was started", Expected: resDoc(res), Observed: resDoc(fres)})
				}
			}
		}
		// one file named twice (as book and as log) reads like two copies of it: each role gets the whole file
		if i%5 == 2 {
			srv.Write(map[string]string{"twin.yaml": text})
			for _, cmd := range [][]string{{"reg"}, {"bal"}, {"report", "unresolved"}, {"report", "totals"}, {"stats"}} {
				same := srv.App1(append([]string{"--no-color", "-d", "food.yaml", "-l", "food.yaml"}, cmd...), nil)
				twoArgs := append([]string{"--no-color", "-d", "twin.yaml", "-l", "food.yaml"}, cmd...)
				two := srv.App1(twoArgs, nil)
				c.Eval(2)
				c.Count("cli_one_file_in_both_roles", 1)
				if cmd[0] == "stats" {
					two.Out = strings.ReplaceAll(two.Out, "twin.yaml", "food.yaml")
				}
				if same.Exit != two.Exit || same.Out != two.Out || same.ErrText() != strings.ReplaceAll(two.ErrText(), "twin.yaml", "food.yaml") {
					c.Violation(strings.Join(cmd, " ")+"|one-file-in-both-roles", fmt.Sprintf("-d F -l F %s: exit %d, %d bytes; with a copy of F as the book: exit %d, %d bytes (%s / %s)", joinArgs(cmd), same.Exit, len(same.Out), two.Exit, len(two.Out), clip(same.ErrText(), 80), clip(two.ErrText(), 80)),
						caseDoc{Files: map[string]string{"food.yaml": clip(text, 20000), "twin.yaml": "(a copy of food.yaml)"}, Args: twoArgs, Expected: resDoc(two), Observed: resDoc(same)})
					break
				}
			}
		}
		// the same file through a pipe (-d /dev/stdin): a non-seekable input must read the same
		if i%4 == 0 {
			pargs := []string{"-d", "/dev/stdin", "csv", "database"}
			pres := run.Exec(c.HR, pargs, run.ExecOpts{Dir: srv.Dir, Stdin: &text})
			c.Eval(1)
			c.Count("cli_csv_database_from_a_pipe", 1)
			if pres.Out != res.Out || pres.Exit != res.Exit {
				c.Violation("csv database|pipe-differs-from-file", fmt.Sprintf("reading the book from a pipe gives exit %d and a different export than reading the same bytes from a file (%s)", pres.Exit, clip(pres.Serr, 150)),
					caseDoc{Files: map[string]string{"stdin": clip(text, 20000)}, Args: pargs, Expected: resDoc(res), Observed: resDoc(pres)})
			}
		}
	})
}

func nil2abs(n gen.Num) *bigRat { return absRat(n.R) }

// c04RandomBook: records with arbitrary names, all number forms, notes, occasionally long names / many lines.
func c04RandomBook(r *rand.Rand) gen.Book {
	no := gen.NameOpts{Unicode: true, Spaces: true, Slash: true, Punct: gen.PunctAll, MaxLen: 14, Edge: gen.EdgePunct}
	nrec := 1 + r.Intn(8)
	maxEnts := 6
	switch r.Intn(40) {
	case 0:
		nrec = 150 + r.Intn(100)
		maxEnts = 10
	case 1:
		no.MaxLen = 5000 + r.Intn(3000)
		no.MinLen = 3000
		nrec = 2
	}
	var b gen.Book
	for i := 0; i < nrec; i++ {
		rec := gen.Recipe{Name: gen.Name(r, no)}
		if r.Intn(12) == 0 {
			rec.Name = gen.SpecialName(r)
		}
		ne := r.Intn(maxEnts + 1)
		for j := 0; j < ne; j++ {
			en := gen.Name(r, no)
			if r.Intn(12) == 0 {
				en = gen.SpecialName(r)
			}
			rec.Ents = append(rec.Ents, gen.Ent{Name: en, Val: c04Num(r)})
		}
		if r.Intn(3) == 0 {
			rec.Notes = gen.RandomNotes(r)
		}
		b = append(b, rec)
	}
	return b
}

// c04Num: every documented number form.
func c04Num(r *rand.Rand) gen.Num {
	switch r.Intn(10) {
	case 9:
		return gen.N(gen.MachineLimitInts[r.Intn(len(gen.MachineLimitInts))])
	case 8:
		// leading zeros are digits like any other (the grammar's Quantity is a digit string)
		return gen.N([]string{"010", "0755", "-012", "+0100", "007.50", "00.5", "0017", "-00.25", "000", "0123456", "01e2", "08", "0x"[:1] + "9"}[r.Intn(13)])
	case 0:
		return gen.N(fmt.Sprintf("+%d.%d", r.Intn(100), r.Intn(1000)))
	case 1:
		return gen.N(fmt.Sprintf("%de%d", 1+r.Intn(99), r.Intn(30)-15))
	case 2:
		return gen.N(fmt.Sprintf("-%d.%dE+%d", r.Intn(10), r.Intn(100000), r.Intn(12)))
	case 3:
		// many digits: exercises correct rounding
		return gen.N(fmt.Sprintf("%d.%d%d%d", r.Intn(1000), r.Int63(), r.Int63(), r.Intn(10)))
	case 4:
		return gen.EQty(r)
	default:
		return gen.GNum(r)
	}
}
