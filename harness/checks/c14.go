package checks

import (
	"fmt"
	"math/big"
	"os"
	"path/filepath"
	"strings"

	"verif/harness/core"
	"verif/harness/gen"
	"verif/harness/model"
	"verif/harness/obs"
	"verif/harness/run"
)

func init() {
	register(&Check{ID: "C14", Level: "exploration", Run: runC14})
}

func runC14(c *core.Ctx) {
	c.SetRule("cases: generated logs in every documented layout variant (indentation, dashes, quotes, CRLF, comments), names of many scripts with blanks, '/', punctuation, notes of both documented forms, repeated foods, periods x date layouts {2006/01/02, 2006-01-02, 02.01.2006, Jan 2 2006, 02/01/06} given by flag, by HR_DATE_FORMAT and by the configuration file. P = print output under options O. Oracle: print on P under O == P byte for byte; P parses (own parser) to the generator's days in order, foods merged, each value within half a cent of the exact sum, notes in normal form attached to the right day; csv log on P under O == rows expected from P (dates ISO, names exact, amounts equal to the double nearest to what P shows, printed with three decimals). Non-trivial = log with a note or a repeated food; distinct = hash(log, options).")
	c.Assume("the 3-decimal CSV of the original log is deliberately not the reference for the read-back (that would be double rounding)")
	pool := newPool(c, c.Procs)
	if pool == nil {
		return
	}
	defer pool.Close()
	layouts := []string{"2006/01/02", "2006-01-02", "02.01.2006", "Jan 2 2006", "02/01/06"}
	n := c.N(1000, 20000)
	core.ParallelFor(n, c.Procs, func(wk, i int) {
		srv := pool.Servers[wk]
		r := c.Rng("case", i)
		layout := layouts[r.Intn(len(layouts))]
		w := newWorld(r, worldOpts{Exact: i%2 == 0, Hostile: true, Notes: true, Layout: layout, MinDays: 1,
			Names: gen.NameOpts{Unicode: true, Spaces: true, Slash: true, Punct: ".,;:'()&%+*=!?@_-\"#", MaxLen: 12, Edge: gen.EdgePunct}})
		if i%60 == 7 && len(w.Log) > 0 && len(w.Unknown)+len(w.Basics) > 0 {
			// a heading with a thousand and more food lines (a month or a year kept under one heading, an imported
			// log) and notes: the notes, the merged foods and their order are printed like those of any other day
			pool := append(append([]string{}, w.Basics...), w.Unknown...)
			nlines := []int{1000, 1100, 2500}[r.Intn(3)]
			d := &w.Log[r.Intn(len(w.Log))]
			for k := 0; k < nlines; k++ {
				d.Ents = append(d.Ents, gen.Ent{Name: pool[r.Intn(len(pool))], Val: gen.EQty(r)})
			}
			if len(d.Notes) == 0 {
				d.Notes = []gen.Note{{Key: "source", Text: "imported"}, {Text: "a long day"}}
			}
			w.LogText = gen.RenderLog(w.Log, w.Layout, gen.Hostile(r))
			c.Count("logs_with_a_day_of_1000_and_more_lines", 1)
		}
		files := map[string]string{"log.yaml": w.LogText}
		var opts []string
		env := map[string]string{}
		via := "default"
		if layout != "2006/01/02" {
			switch r.Intn(3) {
			case 0:
				opts, via = []string{"--date-format", layout}, "flag"
			case 1:
				env["HR_DATE_FORMAT"], via = layout, "env"
			case 2:
				files["hr.conf"] = "[Global]\nDateFormat=" + layout + "\n"
				opts, via = []string{"--config", "hr.conf"}, "config"
			}
		}
		var pb, pe *gen.Date
		var period []string
		if r.Intn(3) == 0 {
			b := w.Log[r.Intn(len(w.Log))].Date
			pb = &b
			period = []string{"-b", b.Format(layout)}
		}
		if r.Intn(3) == 0 {
			// an upper bound too; the days of a log come in any order, so a day after the bound says nothing about
			// the days that follow it in the file
			e := w.Log[r.Intn(len(w.Log))].Date
			pe = &e
			period = append(period, "-e", e.Format(layout))
			c.Count("print_with_an_upper_bound", 1)
		}
		srv.Write(files)
		c.Count("date_format_via_"+via, 1)
		sel := restrict(w.Log, pb, pe)
		nontrivial := false
		for _, d := range sel {
			if len(d.Notes) > 0 || len(model.MergeDay(d)) < len(d.Ents) {
				nontrivial = true
			}
		}
		if nontrivial {
			c.Nontrivial(w.LogText, layout, via, strings.Join(period, " "))
		}
		base := append([]string{"--no-color"}, opts...)
		args1 := append(append(append([]string{}, base...), "-l", "log.yaml"), period...)
		args1 = append(args1, "print")
		if pb != nil && pe != nil && r.Intn(2) == 0 {
			// the period spelled across the two levels of the command line: one bound before the command, the other after
			if r.Intn(2) == 0 {
				args1 = append(append(append([]string{}, base...), "-l", "log.yaml", period[0], period[1]), "print", period[2], period[3])
			} else {
				args1 = append(append(append([]string{}, base...), "-l", "log.yaml", period[2], period[3]), "print", period[0], period[1])
			}
			c.Count("print_with_a_period_split_across_levels", 1)
		}
		stray := false
		if i%6 == 5 {
			// words the command has no use for (a stray argument, a flag after one, anything after "--"): if the
			// command accepts them, what it prints is still the log in normal form
			args1 = append(args1, [][]string{{"extra"}, {"extra", "-e", w.Log[0].Date.Format(layout)}, {"--", "-b", "x"}, {"log.yaml"}}[r.Intn(4)]...)
			stray = true
			c.Count("print_with_stray_arguments", 1)
		}
		if i%6 == 2 && layout == "2006/01/02" {
			// a date format that is set but empty (an exported but empty variable, --date-format ""): the command may
			// refuse; if it prints, what it prints is the log in normal form
			env = map[string]string{}
			if r.Intn(2) == 0 {
				env["HR_DATE_FORMAT"] = ""
			} else {
				args1 = append([]string{"--date-format", ""}, args1...)
			}
			stray = true
			c.Count("print_with_an_empty_date_format", 1)
		}
		if i%6 == 4 && !stray {
			// a date format that reaches the program padded with white space (a quoted flag value, a line of a CRLF
			// .env file): the command may refuse to read the log under it; if it prints, what it prints reads back
			padded := []string{" " + layout, "\t" + layout, layout + "\r", "  " + layout + " ", layout + "\u00a0"}[r.Intn(5)]
			env = map[string]string{}
			if r.Intn(2) == 0 {
				env["HR_DATE_FORMAT"] = padded
				base = []string{"--no-color"}
			} else {
				base = []string{"--no-color", "--date-format", padded}
			}
			args1 = append(append(append([]string{}, base...), "-l", "log.yaml"), "print")
			pb, pe = nil, nil
			sel = w.Log
			stray = true
			c.Count("print_with_a_padded_date_format", 1)
		}
		p1 := srv.App1(args1, env)
		c.Eval(1)
		doc := caseDoc{Files: files, Args: args1, Env: env, Observed: resDoc(p1)}
		if stray && p1.Exit != 0 && p1.Panic == "" {
			c.Count("print_with_stray_arguments_rejected", 1)
			return
		}
		if p1.Exit != 0 || p1.Panic != "" {
			c.Violation("print|fails-on-valid-input", fmt.Sprintf("exit %d err %q %s", p1.Exit, p1.Err, clip(p1.Panic, 200)), doc)
			return
		}
		P := p1.Out
		// P against the generator
		days, err := obs.ParsePrint(P)
		if err != nil {
			c.Violation("print|not-normal-form", err.Error(), doc)
			return
		}
		if len(days) != len(sel) {
			c.Violation("print|day-count", fmt.Sprintf("%d days printed, want %d", len(days), len(sel)), doc)
			return
		}
		for k, d := range sel {
			g := days[k]
			if g.Date != d.Date.Format(layout) {
				c.Violation("print|heading", fmt.Sprintf("day %d heading %q, want %q (layout %s via %s)", k, g.Date, d.Date.Format(layout), layout, via), doc)
				return
			}
			var wantNotes []string
			for _, nt := range d.Notes {
				if nt.Key != "" {
					wantNotes = append(wantNotes, nt.Key+": "+nt.Text)
				} else {
					wantNotes = append(wantNotes, nt.Text)
				}
			}
			if strings.Join(g.Notes, "\n") != strings.Join(wantNotes, "\n") {
				c.Violation("print|notes", fmt.Sprintf("day %d notes %q, want %q", k, g.Notes, wantNotes), doc)
				return
			}
			merged := model.MergeDay(d)
			if len(g.Ents) != len(merged) {
				c.Violation("print|food-list", fmt.Sprintf("day %d: %d foods, want %d", k, len(g.Ents), len(merged)), doc)
				return
			}
			absq := map[string]*big.Rat{}
			for _, en := range d.Ents {
				if absq[en.Name] == nil {
					absq[en.Name] = new(big.Rat)
				}
				absq[en.Name].Add(absq[en.Name], absRat(en.Val.R))
			}
			for x, en := range merged {
				if g.Ents[x].Name != en.Name {
					c.Violation("print|food-name", fmt.Sprintf("day %d food %d: %q, want %q", k, x, g.Ents[x].Name, en.Name), doc)
					return
				}
				if !numOK(g.Ents[x].V, en.Val.R, 2, absq[en.Name], w.Exact) {
					c.Violation("print|quantity", fmt.Sprintf("day %d food %q: printed %s, exact %s", k, en.Name, g.Ents[x].Raw, rs(en.Val.R)), doc)
					return
				}
			}
		}
		// P reads back under the same options
		files2 := map[string]string{"printed.yaml": P}
		srv.Write(files2)
		args2 := append(append(append([]string{}, base...), "-l", "printed.yaml"), "print")
		p2 := srv.App1(args2, env)
		c.Eval(1)
		doc2 := caseDoc{Files: map[string]string{"log.yaml": w.LogText, "printed.yaml": P, "hr.conf": files["hr.conf"]}, Args: args2, Env: env, Observed: resDoc(p2)}
		if p2.Exit != 0 || p2.Panic != "" {
			c.Violation("print|output-not-readable", fmt.Sprintf("print of the printed log fails (layout %s via %s): exit %d %s", layout, via, p2.Exit, p2.ErrText()), doc2)
			return
		}
		if p2.Out != P {
			c.Violation("print|not-idempotent", "printing the printed log does not reproduce it byte for byte", doc2)
			return
		}
		args3 := append(append(append([]string{}, base...), "-l", "printed.yaml"), "csv", "log")
		p3 := srv.App1(args3, env)
		c.Eval(1)
		doc3 := caseDoc{Files: doc2.Files, Args: args3, Env: env, Observed: resDoc(p3)}
		rows, err := obs.ParseCSV(p3.Out)
		if p3.Exit != 0 || err != nil {
			c.Violation("csv log of printed|fails", fmt.Sprintf("exit %d %v %s", p3.Exit, err, p3.ErrText()), doc3)
			return
		}
		var want [][3]string
		for k, d := range sel {
			for _, en := range days[k].Ents {
				// what the tool must read back from P: the double nearest to the printed decimal, shown
				// with three decimals (x.xx0 whenever doubles still resolve thousandths)
				f, _ := en.V.Float64()
				amt := fmt.Sprintf("%.3f", f)
				if en.Raw == "-0.00" {
					amt = "-0.000"
				}
				want = append(want, [3]string{d.Date.ISO(), en.Name, amt})
			}
		}
		if len(rows) != len(want) {
			c.Violation("csv log of printed|row-count", fmt.Sprintf("%d rows, want %d", len(rows), len(want)), doc3)
			return
		}
		for k, wr := range want {
			amt := wr[2]
			if amt == "-0.000" && rows[k][2] == "0.000" {
				amt = "0.000"
			}
			if len(rows[k]) != 3 || rows[k][0] != wr[0] || rows[k][1] != wr[1] || (rows[k][2] != amt && !(wr[2] == "-0.000" && rows[k][2] == "-0.000")) {
				c.Violation("csv log of printed|row", fmt.Sprintf("row %d: %q, want %q", k, rows[k], wr), doc3)
				return
			}
		}
		if i%40 == 0 {
			crossCheck(c, srv, args2, env, p2)
		}
		// print | print -l /dev/stdin: the printed log read back through a pipe
		if i%6 == 0 {
			pargs := append(append(append([]string{}, base...), "-l", "/dev/stdin"), "print")
			pp := run.Exec(c.HR, pargs, run.ExecOpts{Dir: srv.Dir, Env: env, Stdin: &P})
			c.Eval(1)
			c.Count("print_read_back_through_a_pipe", 1)
			if pp.Exit != 0 || pp.Out != P {
				c.Violation("print|pipe-differs-from-file", fmt.Sprintf("print | print -l /dev/stdin does not reproduce the printed log (exit %d %s)", pp.Exit, clip(pp.Serr, 150)), caseDoc{Files: map[string]string{"stdin": P, "hr.conf": files["hr.conf"]}, Args: pargs, Env: env, Observed: resDoc(pp)})
			}
		}
		if i < 2 {
			c.Sample(map[string]any{"log.yaml": clip(w.LogText, 600), "layout": layout, "via": via, "printed": clip(P, 600)})
		}
	})
	// entry layouts the reader accepts besides the one print writes: a blank or the colon in front of the quantity,
	// quotes around name and quantity, tabs, a dash - print reads them and writes the normal form
	{
		srv := pool.Servers[0]
		logText := "2021/01/01:\n  coffee/cup :2\n  \"x\" :\"1.5\"\n  tea : 3\n\tjam:\t4\n  -  \"a b\":  5  \n  oat milk  6\n2021/01/02:\n  coffee/cup :1\n  coffee/cup: 1\n"
		want := [][][2]string{{{"coffee/cup", "2.00"}, {"x", "1.50"}, {"tea", "3.00"}, {"jam", "4.00"}, {"a b", "5.00"}, {"oat milk", "6.00"}}, {{"coffee/cup", "2.00"}}}
		srv.Write(map[string]string{"layouts.yaml": logText})
		args := []string{"--no-color", "-l", "layouts.yaml", "print"}
		res := srv.App1(args, nil)
		c.Eval(1)
		c.Count("print_of_a_log_in_mixed_entry_layouts", 1)
		c.Nontrivial("mixed-layouts", logText)
		doc := caseDoc{Files: map[string]string{"layouts.yaml": logText}, Args: args, Observed: resDoc(res)}
		days, err := obs.ParsePrint(res.Out)
		bad := ""
		if res.Exit != 0 || res.Panic != "" || err != nil || len(days) != len(want) {
			bad = fmt.Sprintf("exit %d err %q %v, %d days", res.Exit, res.Err, err, len(days))
		} else {
			for di, d := range days {
				if len(d.Ents) != len(want[di]) {
					bad = fmt.Sprintf("day %d has %d foods, want %d", di, len(d.Ents), len(want[di]))
					break
				}
				for k, e := range d.Ents {
					if e.Name != want[di][k][0] || e.Raw != want[di][k][1] {
						bad = fmt.Sprintf("day %d food %d: (%q, %s), want (%q, %s)", di, k, e.Name, e.Raw, want[di][k][0], want[di][k][1])
					}
				}
			}
		}
		if bad != "" {
			c.Violation("print|mixed-entry-layouts", bad, doc)
		}
	}
	// the default configuration location is covered by C16; here the explicit ones
	// entry lines just below the longest line the tool reads: what print writes for them (a dash and two decimals
	// more) must still be a line the tool reads
	if !c.InChild() && c.HR != "" {
		dir := filepath.Join(c.Work, "near-limit")
		for _, k := range []int{4090, 4096, 65000, 65529, 65531, 65533, 65535} {
			name := strings.Repeat("n", k-5)
			files := map[string]string{"log.yaml": "2021/01/24:\n  " + name + ": 1\n  water: 2\n"}
			run.WriteFiles(dir, files)
			p1 := run.Exec(c.HR, []string{"--no-color", "-l", "log.yaml", "print"}, run.ExecOpts{Dir: dir})
			c.Eval(1)
			c.Count("print_lines_near_the_line_limit", 1)
			if p1.Exit != 0 {
				continue // the tool does not read the log: nothing is claimed
			}
			run.WriteFiles(dir, map[string]string{"printed.yaml": p1.Out})
			p2 := run.Exec(c.HR, []string{"--no-color", "-l", "printed.yaml", "print"}, run.ExecOpts{Dir: dir})
			c.Eval(1)
			if p2.Exit != 0 || p2.Out != p1.Out {
				c.Violation("print|output-not-readable-near-the-line-limit", fmt.Sprintf("an entry line of %d bytes is read and printed (exit 0), but the printed log is not read back: exit %d %s", k, p2.Exit, clip(p2.Serr, 120)),
					caseDoc{Files: map[string]string{"log.yaml": fmt.Sprintf("2021/01/24:\n  <%d times n>: 1\n  water: 2\n", k-5)}, Args: []string{"--no-color", "-l", "log.yaml", "print"}, Note: fmt.Sprintf("entry line of %d bytes; then print of the printed file", k), Observed: map[string]any{"print_exit": p1.Exit, "printed_bytes": len(p1.Out), "read_back_exit": p2.Exit, "read_back_stderr": clip(p2.Serr, 200)}})
			}
		}
	}
	// process time zones in which a written date or time of day does not exist (clocks jump forward at midnight, or
	// the written hour is skipped): the printed log carries the days as written and reads back (round 12, K14:
	// headings read in the process zone move a day that starts inside the gap to the day before)
	if !c.InChild() && c.HR != "" {
		for zi, zc := range []struct {
			zone   string
			day    gen.Date
			layout string
			head   []string // headings as written, in file order
		}{
			{"America/Santiago", gen.Date{Y: 2022, M: 9, D: 11}, "2006/01/02", nil},
			{"America/Havana", gen.Date{Y: 2022, M: 3, D: 13}, "2006/01/02", nil},
			{"Asia/Beirut", gen.Date{Y: 2022, M: 3, D: 27}, "2006/01/02", nil},
			{"America/Sao_Paulo", gen.Date{Y: 2018, M: 11, D: 4}, "2006/01/02", nil},
			{"Africa/Cairo", gen.Date{Y: 2014, M: 5, D: 16}, "2006-01-02", nil},
			{"UTC", gen.Date{Y: 2022, M: 3, D: 13}, "2006/01/02", nil},
			{"Europe/Berlin", gen.Date{}, "2006/01/02 15:04", []string{"2021/03/28 01:59", "2021/03/28 02:30", "2021/03/28 03:00", "2021/10/31 02:30"}},
			{"America/Los_Angeles", gen.Date{}, "2006-01-02 15:04:05", []string{"2022-03-13 01:59:59", "2022-03-13 02:00:00", "2022-03-13 02:59:59", "2022-11-06 01:30:00"}},
			{"Australia/Lord_Howe", gen.Date{}, "2006/01/02 15:04", []string{"2021/10/03 01:59", "2021/10/03 02:15", "2021/10/03 02:30"}},
		} {
			if _, err := os.Stat("/usr/share/zoneinfo/" + zc.zone); err != nil {
				continue
			}
			heads := zc.head
			if heads == nil {
				for off := -1; off <= 1; off++ {
					heads = append(heads, zc.day.AddDays(off).Format(zc.layout))
				}
			}
			var sb strings.Builder
			for k, h := range heads {
				fmt.Fprintf(&sb, "%s:\n  tea, green: 1.5\n  day%d: 2\n", h, k)
			}
			files := map[string]string{"log.yaml": sb.String()}
			dir := fmt.Sprintf("%s/gap%d", c.Work, zi)
			run.WriteFiles(dir, files)
			args := []string{"--no-color", "--date-format", zc.layout, "-l", "log.yaml", "print"}
			env := map[string]string{"TZ": zc.zone}
			p1 := run.Exec(c.HR, args, run.ExecOpts{Dir: dir, Env: env})
			c.Eval(1)
			c.Count("print_in_zones_where_the_written_time_does_not_exist", 1)
			c.Nontrivial("gap", zc.zone, zc.layout)
			var got []string
			for _, ln := range strings.Split(p1.Out, "\n") {
				if ln != "" && ln[0] != ' ' && ln[0] != '\t' && ln[0] != '-' && strings.HasSuffix(ln, ":") {
					got = append(got, strings.TrimSuffix(ln, ":"))
				}
			}
			bad := ""
			if p1.Exit != 0 {
				bad = fmt.Sprintf("exit %d %s", p1.Exit, clip(p1.Serr, 120))
			} else if strings.Join(got, "|") != strings.Join(heads, "|") {
				bad = fmt.Sprintf("printed headings %q, the log has %q", got, heads)
			} else {
				run.WriteFiles(dir, map[string]string{"printed.yaml": p1.Out})
				p2 := run.Exec(c.HR, []string{"--no-color", "--date-format", zc.layout, "-l", "printed.yaml", "print"}, run.ExecOpts{Dir: dir, Env: env})
				c.Eval(1)
				if p2.Exit != 0 || p2.Out != p1.Out {
					bad = fmt.Sprintf("the printed log does not print to itself (exit %d)", p2.Exit)
				}
			}
			if bad != "" {
				c.Violation("print|days-depend-on-time-zone", fmt.Sprintf("TZ=%s layout %q: %s", zc.zone, zc.layout, bad), caseDoc{Files: files, Args: args, Env: env, Observed: resDoc(p1)})
			}
		}
	}
	// selection by instants that differ only in the fraction of a second (shared with C06)
	c06SubSecond(c, [][]string{{"print"}})
	jobs, deaths := pool.Stats()
	c.Count("l2_jobs", jobs)
	c.Count("l2_process_deaths", deaths)
	c.Count("l2_priming_runs", pool.Primed())
	_ = os.Remove
	_ = filepath.Join
}
