package checks

import (
	"fmt"
	"math/big"
	"os"
	"path/filepath"
	"sort"
	"strings"

	"verif/harness/core"
	"verif/harness/run"
)

var (
	ratHalfCent = big.NewRat(1, 200)
	ratCent     = big.NewRat(1, 100)
	ratHalfMil  = big.NewRat(1, 2000)
	ratEps      = big.NewRat(1, 1000000000)
	ratOne      = big.NewRat(1, 1)
)

func ratOfFloat(f float64) *big.Rat {
	r := new(big.Rat)
	if r.SetFloat64(f) == nil {
		return nil
	}
	return r
}

func absDiff(a, b *big.Rat) *big.Rat {
	d := new(big.Rat).Sub(a, b)
	return d.Abs(d)
}

// eps = 1e-9·(1+Σ|terms|)
func eps(absSum *big.Rat) *big.Rat {
	e := new(big.Rat).Add(ratOne, absSum)
	return e.Mul(e, ratEps)
}

// printedOK: a number printed with d decimals against its exact value:
// |printed − exact| ≤ ½·10⁻ᵈ + ε.
func printedOK(printed, exact *big.Rat, d int, absSum *big.Rat) bool {
	half := new(big.Rat).SetFrac64(1, 2)
	for i := 0; i < d; i++ {
		half.Mul(half, big.NewRat(1, 10))
	}
	tol := new(big.Rat).Add(half, eps(absSum))
	return absDiff(printed, exact).Cmp(tol) <= 0
}

// sameTrueValue: two printed numbers (d decimals) of the same true value: 10⁻ᵈ + 2ε.
func sameTrueValue(a, b *big.Rat, d int, absSum *big.Rat) bool {
	u := big.NewRat(1, 1)
	for i := 0; i < d; i++ {
		u.Mul(u, big.NewRat(1, 10))
	}
	e := eps(absSum)
	tol := new(big.Rat).Add(u, e.Add(e, e))
	return absDiff(a, b).Cmp(tol) <= 0
}

// sumOfPrinted: Σ of k printed numbers against one printed total: (k+1)·½·10⁻ᵈ + ε.
func sumOfPrinted(sum, total *big.Rat, k, d int, absSum *big.Rat) bool {
	half := new(big.Rat).SetFrac64(int64(k+1), 2)
	for i := 0; i < d; i++ {
		half.Mul(half, big.NewRat(1, 10))
	}
	tol := new(big.Rat).Add(half, eps(absSum))
	return absDiff(sum, total).Cmp(tol) <= 0
}

func rs(r *big.Rat) string {
	if r == nil {
		return "<nil>"
	}
	return r.FloatString(6)
}

func sortedKeys[V any](m map[string]V) []string {
	ks := make([]string, 0, len(m))
	for k := range m {
		ks = append(ks, k)
	}
	sort.Strings(ks)
	return ks
}

// caseDoc is the generic replay description of an L1/L2 case.
type caseDoc struct {
	Files    map[string]string `json:"files,omitempty"`
	Args     []string          `json:"args,omitempty"`
	Env      map[string]string `json:"env,omitempty"`
	Note     string            `json:"note,omitempty"`
	Expected any               `json:"expected,omitempty"`
	Observed any               `json:"observed,omitempty"`
	Extra    any               `json:"extra,omitempty"`
}

func clip(s string, n int) string {
	if len(s) > n {
		return s[:n] + fmt.Sprintf("…(+%d bytes)", len(s)-n)
	}
	return s
}

func resDoc(r run.Result) map[string]any {
	return map[string]any{"stdout": clip(r.Out, 4000), "stderr": clip(r.Serr, 2000), "err": r.Err, "exit": r.Exit, "panic": clip(r.Panic, 3000), "signal": r.Signal}
}

// pool starts one job server per worker.
func newPool(c *core.Ctx, n int) *run.Pool {
	p, err := run.NewPool(c.HR, c.Work, n)
	if err != nil {
		c.HarnessError("cannot start job servers: " + err.Error())
		return nil
	}
	return p
}

// crossCheck runs the same case through L1 and compares with the L2 result
// (faithfulness self-check of the in-process back-end).
func crossCheck(c *core.Ctx, s *run.Server, args []string, env map[string]string, l2 run.Result) {
	if l2.Panic != "" {
		return // reported by the caller as a crash; L1 would die with a partial report
	}
	l1 := run.Exec(c.HR, args, run.ExecOpts{Dir: s.Dir, Env: env})
	c.Count("l1_crosschecks", 1)
	if l1.Out != l2.Out || (l1.Exit == 0) != (l2.Exit == 0) {
		c.HarnessError(fmt.Sprintf("L1/L2 disagree on %v: L1 exit=%d out=%q stderr=%q; L2 exit=%d out=%q err=%q",
			args, l1.Exit, clip(l1.Out, 300), clip(l1.Serr, 300), l2.Exit, clip(l2.Out, 300), l2.Err))
		return
	}
	// and with a terminal as standard output (a pseudo-terminal through script(1)): the same report
	if l1.Exit == 0 && len(env) == 0 {
		if pty, ok := run.ExecPty(c.HR, args, run.ExecOpts{Dir: s.Dir}); ok {
			c.Count("l1_terminal_crosschecks", 1)
			if pty.Exit != 0 || pty.Out != l1.Out {
				name := "(no command)"
				for _, a := range args {
					if !strings.HasPrefix(a, "-") && !strings.Contains(a, ".") && !strings.Contains(a, "/") {
						name = a
						break
					}
				}
				c.Violation(name+"|terminal-changes-the-report", fmt.Sprintf("%s: with a terminal as standard output exit %d and %d bytes, through a pipe exit 0 and %d bytes", joinArgs(args), pty.Exit, len(pty.Out), len(l1.Out)),
					caseDoc{Args: args, Note: "files as left in the scratch directory of the case; stdout is a pseudo-terminal (script -qec)", Expected: resDoc(l1), Observed: resDoc(pty)})
			}
		}
	}
}

func joinArgs(a []string) string { return strings.Join(a, " ") }

type bigRat = big.Rat

func absRat(r *big.Rat) *big.Rat { return new(big.Rat).Abs(r) }

// raceReports reads the logs the race detector wrote for this run (GORACE log_path, set by check.sh) and turns
// every distinct report that involves the repository's packages into a violation; a report that involves the
// harness only is a harness error. Reports are de-duplicated by their outermost frames, line numbers stripped.
func raceReports(c *core.Ctx, where string) {
	raceLogs(c, where)
	if !raceEnabled {
		c.Inconclusive("race-detector", "harness was not built with -race")
	}
}

// raceLogs: the part of raceReports that reads the logs (also those written by a race-detector build of the program).
func raceLogs(c *core.Ctx, where string) {
	files, _ := filepath.Glob(filepath.Join(c.Work, "race.*"))
	reports := 0
	seen := map[string]bool{}
	for _, f := range files {
		b, err := os.ReadFile(f)
		if err != nil {
			continue
		}
		for _, blk := range strings.Split(string(b), "==================") {
			if !strings.Contains(blk, "WARNING: DATA RACE") {
				continue
			}
			reports++
			key := raceKey(blk)
			if seen[key] {
				continue
			}
			seen[key] = true
			if strings.Contains(blk, "hranoprovod-cli/v3") {
				c.Violation("race|"+key, "data race reported by the race detector in "+where+": "+clip(blk, 600), map[string]any{"report": blk})
			} else {
				c.HarnessError("data race inside the harness: " + clip(blk, 800))
			}
		}
	}
	c.Count("race_reports", reports)
	c.Count("race_log_files", len(files))
}
