package checks

import (
	"math/rand"
	"strings"
)

// cmdSpec is one command shape of the program together with what it reads: the
// checks that quantify over "every command that reads the file / resolves the
// book / writes a report" draw extra shapes from randomCmd so that flag
// combinations nobody listed by hand (two presentation flags at once, a report
// selector next to a renderer, an odd template name) are exercised too.
type cmdSpec struct {
	Args     []string
	Book     bool // parses the recipe book
	Log      bool // parses the log
	Resolves bool // resolves the book (the depth limit applies)
}

func (s cmdSpec) Name() string {
	n := strings.Join(s.Args[:min(2, len(s.Args))], " ")
	switch s.Args[0] {
	case "reg", "bal", "summary":
		n = s.Args[0]
		for _, a := range s.Args[1:] {
			if a == "-s" || a == "-f" {
				n += " " + a
			}
		}
	}
	return n
}

// randomCmd draws a command shape. x: an element name, f: a food-name fragment, date: a date in the layout in effect.
func randomCmd(r *rand.Rand, x, f, date string) cmdSpec {
	pickSome := func(flags []string, p int) []string {
		var out []string
		for _, fl := range flags {
			if r.Intn(p) == 0 {
				out = append(out, fl)
			}
		}
		return out
	}
	switch k := r.Intn(20); {
	case k < 8:
		args := []string{"reg"}
		switch r.Intn(8) {
		case 0:
			args = append(args, "--use-old-reg-reporter")
		case 1:
			args = append(args, "--internal-template-name", "left-aligned")
		case 2:
			// names of built-in templates in another letter case, the default by name, an unknown name
			args = append(args, "--internal-template-name", []string{"default", "Default", "LEFT-ALIGNED", "Left-Aligned", "bogus", ""}[r.Intn(6)])
		case 3:
			args = append(args, "--use-old-reg-reporter", "--internal-template-name", "left-aligned")
		}
		switch r.Intn(6) {
		case 0:
			args = append(args, "-s", x)
		case 1:
			args = append(args, "-f", f)
		case 2:
			args = append(args, "-f", f, "-s", x)
		}
		args = append(args, pickSome([]string{"--totals-only", "--no-totals", "--shorten", "--csv", "-g", "--no-color"}, 4)...)
		return cmdSpec{args, true, true, true}
	case k < 11:
		args := []string{"bal"}
		if r.Intn(2) == 0 {
			args = append(args, "-s", x)
		}
		args = append(args, pickSome([]string{"-c", "--collapse-last"}, 2)...)
		return cmdSpec{args, true, true, true}
	case k == 11:
		return cmdSpec{[]string{"summary", []string{date, "today", "yesterday"}[r.Intn(3)]}, true, true, true}
	case k == 12:
		return cmdSpec{[]string{"report", "totals"}, true, true, true}
	case k == 13:
		return cmdSpec{append([]string{"report", "quantity"}, pickSome([]string{"--desc"}, 2)...), false, true, false}
	case k == 14:
		return cmdSpec{append(append([]string{"report", "element-total"}, pickSome([]string{"--desc"}, 2)...), x), true, false, true}
	case k == 15:
		return cmdSpec{[]string{"report", "unresolved"}, true, true, true}
	case k == 16:
		return cmdSpec{[]string{"csv", "log"}, false, true, false}
	case k == 17:
		if r.Intn(2) == 0 {
			return cmdSpec{[]string{"csv", "database"}, true, false, false}
		}
		return cmdSpec{[]string{"csv", "database-resolved"}, true, false, true}
	case k == 18:
		return cmdSpec{[]string{"print"}, false, true, false}
	default:
		return cmdSpec{[]string{"stats"}, true, true, false}
	}
}

// randomPeriod draws global period flags that select nothing, everything or an inverted interval: what a
// command has to read, resolve and report as malformed does not depend on how many days the period keeps.
// format renders a date in the layout in effect.
func randomPeriod(r *rand.Rand, format func(y, m, d int) string) []string {
	switch r.Intn(7) {
	case 0:
		return []string{"-b", format(2030, 1, 1)}
	case 1:
		return []string{"-e", format(1999, 1, 1)}
	case 2:
		return []string{"-b", format(2021, 1, 31), "-e", format(2021, 1, 1)}
	case 3:
		return []string{"--begin", "today", "--end", "yesterday"}
	case 4:
		return []string{"-b", format(1, 1, 1), "-e", format(9999, 12, 31)}
	}
	return nil
}
