package checks

import (
	"fmt"
	"math/rand"
	"os"
	"os/exec"
	"path/filepath"
	"regexp"
	"strings"
	"time"

	"verif/harness/core"
	"verif/harness/gen"
	"verif/harness/run"
)

func init() {
	register(&Check{ID: "C08", Level: "exploration", Run: runC08})
}

var junkNumbers = []string{"NaN", "nan", "Inf", "-Inf", "+inf", "1e999", "-1e999", "0x1p-2", "0x", "1_000", "1,5", "1.2.3", "--1", "1x", "1e", "٣", "", " ", "1e-999", "9999999999999999999999", "0.000000000000000000001", "-0", "+.5", "5.", "\x00", "\xff\xfe", "1\t2", "١٢٣", "∞"}

// corrupt applies one grammar-aware mutation.
func corrupt(r *rand.Rand, text string) string {
	lines := strings.Split(text, "\n")
	pick := func() int { return r.Intn(len(lines)) }
	switch r.Intn(25) {
	case 24: // a heading of the file declared once more, at the end or right away: with notes only, with nothing, with one entry
		var heads []string
		for _, l := range lines {
			if len(l) > 1 && l[0] != ' ' && l[0] != '\t' && l[0] != '#' && l[0] != '-' && strings.HasSuffix(strings.TrimRight(l, " \r"), ":") {
				heads = append(heads, strings.TrimRight(l, " \r"))
			}
		}
		if len(heads) > 0 {
			h := heads[r.Intn(len(heads))]
			again := []string{h + "\n  # source: the label\n", h + "\n  # a plain note\n  # another: one\n", h + "\n", h + "\n  extra: 1\n", h + "\n  #\n"}[r.Intn(5)]
			if r.Intn(2) == 0 {
				return strings.TrimRight(text, "\n") + "\n" + again
			}
			return again + text
		}
	case 23: // a long malformed line that is mostly multi-byte characters (more bytes than characters, around 200 and far beyond)
		long := []string{strings.Repeat("ж", 130), strings.Repeat("茶", 80), strings.Repeat("🍵", 60), strings.Repeat("щ", 700), strings.Repeat("é", 101)}[r.Intn(5)]
		bad := []string{"  " + long + ": 1oo", "  " + long, "  x: " + long, "  - " + long + " " + long + ": 1,5"}[r.Intn(4)]
		i := pick()
		lines = append(lines[:i+1], append([]string{bad}, lines[i+1:]...)...)
	case 22: // odd category paths: trailing, leading or doubled separators in an entry or heading name
		for try := 0; try < 10; try++ {
			i := pick()
			k := strings.Index(lines[i], ":")
			if k <= 0 {
				continue
			}
			name, rest := lines[i][:k], lines[i][k:]
			switch r.Intn(5) {
			case 0:
				name += "/"
			case 1:
				name = strings.Replace(name, "/", "//", 1)
			case 2:
				t := strings.TrimLeft(name, " \t-")
				name = name[:len(name)-len(t)] + "/" + t
			case 3:
				name += "//"
			case 4:
				name = strings.Repeat("deep/", 3+r.Intn(12)) + strings.TrimLeft(name, " \t-")
				if lines[i][0] == ' ' {
					name = "  " + name
				}
			}
			lines[i] = name + rest
			break
		}
	case 0: // truncate at any byte
		if len(text) > 0 {
			return text[:r.Intn(len(text))]
		}
	case 1: // delete a line
		i := pick()
		lines = append(lines[:i], lines[i+1:]...)
	case 2: // duplicate a line
		i := pick()
		lines = append(lines[:i+1], lines[i:]...)
	case 3:
		r.Shuffle(len(lines), func(a, b int) { lines[a], lines[b] = lines[b], lines[a] })
	case 4, 5: // replace a number by junk
		for try := 0; try < 10; try++ {
			i := pick()
			if k := strings.LastIndexAny(lines[i], " \t"); k > 0 && strings.HasPrefix(lines[i], " ") {
				lines[i] = lines[i][:k+1] + junkNumbers[r.Intn(len(junkNumbers))]
				break
			}
		}
	case 6: // stray separators
		i := pick()
		s := []string{":", "-", "\"", "#", "::", " - ", "\t", "- -", "\":\"", "/", "//"}[r.Intn(11)]
		pos := 0
		if len(lines[i]) > 0 {
			pos = r.Intn(len(lines[i]) + 1)
		}
		lines[i] = lines[i][:pos] + s + lines[i][pos:]
	case 7: // NUL / invalid UTF-8 / control bytes
		i := pick()
		b := []string{"\x00", "\xff", "\xc3\x28", "\xed\xa0\x80", "\x1b[31m", "\x7f", "\u2028", "\ufeff"}[r.Intn(8)]
		pos := 0
		if len(lines[i]) > 0 {
			pos = r.Intn(len(lines[i]) + 1)
		}
		lines[i] = lines[i][:pos] + b + lines[i][pos:]
	case 8: // CR-only line endings
		return strings.ReplaceAll(text, "\n", "\r")
	case 9: // non-date / odd headings
		for try := 0; try < 10; try++ {
			i := pick()
			if len(lines[i]) > 0 && lines[i][0] != ' ' && lines[i][0] != '\t' && lines[i][0] != '#' {
				lines[i] = []string{"not a date:", "2021/13/45:", "0000/00/00:", ":", "\"\":", "2021/01/01", "9999999/01/01:", "2021/1/1:", "-:", "#:", "a/b/c/d/e/f/g/h/i/j:", "/:", "//:", "a//b:"}[r.Intn(14)]
				break
			}
		}
	case 10:
		return ""
	case 11:
		return "# only a comment\n#\n"
	case 12: // one very long line
		i := pick()
		lines[i] = lines[i] + strings.Repeat("x", 70000)
	case 13: // self reference
		return text + "\nselfref:\n  selfref: 1\n  x: 2\n"
	case 14: // mutual recursion
		return text + "\nmr1:\n  mr2: 1\nmr2:\n  mr3: 2\nmr3:\n  mr1: 3\n"
	case 15: // chain longer than the default depth
		var sb strings.Builder
		for k := 1; k <= 14; k++ {
			fmt.Fprintf(&sb, "deep%d:\n  deep%d: 1\n", k, k+1)
		}
		return text + "\n" + sb.String()
	case 16: // raw random bytes
		b := make([]byte, r.Intn(300))
		for k := range b {
			b[k] = byte(r.Intn(256))
		}
		return string(b)
	case 17: // random printable soup with structure characters
		var sb strings.Builder
		alpha := "ab:-\"# \t\n/.0123456789"
		for k := 0; k < r.Intn(400); k++ {
			sb.WriteByte(alpha[r.Intn(len(alpha))])
		}
		return sb.String()
	case 18: // indentation removed / added
		i := pick()
		if strings.HasPrefix(lines[i], " ") {
			lines[i] = strings.TrimLeft(lines[i], " \t")
		} else {
			lines[i] = "   " + lines[i]
		}
	case 19: // entry without value / without name
		i := pick()
		lines[i] = []string{"  lonely", "  : 1", "  :", "  - ", "  -", "  \"\": 1", "  a b c", "  # ", "  #", "  #:", "  ##: #", "   :  :  : "}[r.Intn(12)]
	case 20: // BOM + CRLF
		return "\ufeff" + strings.ReplaceAll(text, "\n", "\r\n")
	case 21: // heading only, many times
		return strings.Repeat("2021/01/01:\n", 1+r.Intn(5)) + text
	}
	return strings.Join(lines, "\n")
}

type c08Shape struct {
	args []string
	l1   bool // must run in a fresh process (reads the command tree / help machinery)
}

// c08HostileConfig: a configuration file assembled from valid and invalid pieces: keys used as section
// names, unknown sections and keys, keys before any section, duplicates, other letter case, sub-sections,
// quotes/escapes/trailing comments, empty and over-long values, numbers out of range, bytes that are not
// UTF-8, a byte order mark, CRLF, unbalanced brackets.
func c08HostileConfig(r *rand.Rand) string {
	pieces := []string{
		"[Global]", "[global]", "[GLOBAL]", "[Resolver]", "[resolver]", "[ReporterConfig]", "[ParserConfig]", "[FilterConfig]", "[APIConfig]",
		"[DbFileName]", "[LogFileName]", "[DateFormat]", "[Now]", "[MaxDepth]", "[Foo]", "[Global \"sub\"]", "[Global.sub]", "[", "]", "[Global", "Global]", "[]", "[ ]",
		"DbFileName=food.yaml", "LogFileName=log.yaml", "DbFileName = \"food.yaml\"", "LogFileName=\"log.yaml", "DbFileName=", "DbFileName", "=food.yaml", "dbfilename=food.yaml", "DBFILENAME=food.yaml",
		"DateFormat=2006/01/02", "DateFormat=\"2006/01/02\" ; comment", "DateFormat=2006/01/02 # comment", "DateFormat=", "DateFormat=%Y-%m-%d", "DateFormat=\\n\\t\\\"",
		"Now=2021-02-01T00:00:00Z", "Now=yesterday", "Now=", "Now=2021-02-30T00:00:00Z", "Now=9999999999",
		"MaxDepth=5", "MaxDepth=-1", "MaxDepth=0", "MaxDepth=99999999999999999999", "MaxDepth=9223372036854775807", "MaxDepth=1e3", "MaxDepth=0x7", "MaxDepth= 5 ", "MaxDepth=five", "MaxDepth",
		"CommentChar=59", "CommentChar=300", "CommentChar=-1", "CommentChar=0", "CommentChar=35", "CommentChar=#",
		"Color=true", "Color=yes", "Color=1", "Color=maybe", "Color", "CSV=true", "TotalsOnly=true", "totalsonly = true", "Totals=false", "ShortenStrings=on", "Unresolved=true", "SingleElement=x", "SingleFood=(", "ElementGroupByFood=true",
		"InternalTemplateName=Default", "InternalTemplateName=", "UseOldRegReporter=true", "Theme=dark", "Unknown.Key=1",
		"; comment", "# comment", "", "   ", "\t", "key with blanks = 1", "a=b=c", "\"quoted\"=1", "x = \"unterminated", "x = a\\", "x = \"a\\qb\"",
		"DbFileName=" + strings.Repeat("n", 5000), "caf\xe9=1", "DbFileName=caf\xe9.yaml", "[caf\xe9]", "\x00", "Db\x00FileName=x",
	}
	var sb strings.Builder
	if r.Intn(8) == 0 {
		sb.WriteString("\xef\xbb\xbf")
	}
	eol := "\n"
	if r.Intn(5) == 0 {
		eol = "\r\n"
	}
	for k := 1 + r.Intn(8); k > 0; k-- {
		sb.WriteString(pieces[r.Intn(len(pieces))] + eol)
	}
	out := sb.String()
	if r.Intn(6) == 0 {
		out = strings.TrimRight(out, "\r\n")
	}
	return out
}

func c08Shapes(r *rand.Rand, element, food string) []c08Shape {
	s := func(a ...string) c08Shape { return c08Shape{args: a} }
	l1 := func(a ...string) c08Shape { return c08Shape{args: a, l1: true} }
	shapes := []c08Shape{
		s("reg"), s("reg", "--use-old-reg-reporter"), s("reg", "--internal-template-name", "left-aligned"), s("reg", "--internal-template-name", "bogus"),
		s("reg", "-s", element), s("reg", "-s", element, "-g"), s("reg", "-s", element, "--csv"), s("reg", "-s", ""), s("reg", "-f", food), s("reg", "-f", "("), s("reg", "-f", ""), s("reg", "-f", "[a-"),
		s("reg", "--totals-only"), s("reg", "--no-totals"), s("reg", "--shorten"), s("reg", "--totals-only", "--no-totals", "--shorten", "--use-old-reg-reporter"),
		s("bal"), s("bal", "-c"), s("bal", "--collapse-last"), s("bal", "-s", element), s("bal", "-s", element, "-c"), s("bal", "-s", element, "--collapse-last"), s("bal", "-c", "--collapse-last"),
		s("report", "totals"), s("report", "quantity"), s("report", "quantity", "--desc"), s("report", "unresolved"), s("report", "element-total", element), s("report", "element-total", "--desc", element), s("report", "element-total"),
		s("csv", "log"), s("csv", "database"), s("csv", "database-resolved"), s("stats"), s("print"),
		s("summary", "2021/01/24"), s("summary", "today"), s("summary", "yesterday"), s("summary"), s("summary", "garbage"), s("summary", "2021/99/99"),
		s("lint", "food.yaml"), s("lint", "log.yaml"), s("lint", "--silent", "log.yaml"), s("lint"), s("lint", "nonexistent"), s("lint", "."),
		// both spellings of one flag at the same level, stray and repeated flags
		l1("reg", "-b", "2021/01/01", "--begin", "2021/01/02"), l1("bal", "-c", "--collapse"), l1("lint", "-s", "--silent", "log.yaml"), l1("reg", "-f", "a", "--single-food", "b"), l1("reg", "-s", "x", "-s", "y"), l1("print", "-e", "2021/01/01", "--end", "2021/01/05"),
		l1("gen", "man"), l1("gen", "markdown"), l1("gen"), l1("help"), l1("bogus"), l1("reg", "--bogus-flag"), l1("report"), l1("csv"), l1("report", "bogus"), l1("--help"), l1("--version"), l1("reg", "--help"), l1(),
	}
	// flag values derived from what the files contain: case variants, fragments, padded, recipe names
	variants := []string{strings.ToUpper(element), strings.ToLower(element), strings.Title(element), element + " ", " " + element, element + "/", element[:(len(element)+1)/2], food, strings.ToUpper(food), "unknown-" + element}
	v := variants[r.Intn(len(variants))]
	shapes = append(shapes,
		s("reg", "-s", v), s("reg", "-s", v, "--csv"), s("reg", "-s", v, "-g"), s("bal", "-s", v), s("bal", "-s", v, "-c"), s("report", "element-total", v), s("reg", "-f", v),
		s("reg", "-s", v), s("bal", "-s", v), s("reg", "-s", v, "--totals-only"), s("summary", v))
	return shapes
}

var c08Globals = [][]string{
	nil, nil, nil,
	{"-b", "2021/01/24"}, {"-e", "2021/01/24"}, {"-b", "today", "-e", "today"}, {"-b", "last7"}, {"-b", ""}, {"-e", ""}, {"-b", "garbage"}, {"-e", "next tuesday"}, {"-b", "2021/99/99"},
	{"-b", "9999/12/31", "-e", "0001/01/01"},
	{"--maxdepth", "-1"}, {"--maxdepth", "0"}, {"--maxdepth", "1"}, {"--maxdepth", "100000000"}, {"--maxdepth", "x"},
	// both spellings of one flag at the same level, a flag twice
	{"-b", "2021/01/01", "--begin", "2021/01/02"}, {"-e", "2021/01/01", "-e", "2021/01/02"}, {"--no-color", "--no-color"}, {"-d", "food.yaml", "--database", "food.yaml"},
	{"--maxdepth", "9223372036854775807"}, {"--maxdepth", "9223372036854775806"}, {"--maxdepth", "2147483648"}, {"--maxdepth", "-9223372036854775808"}, {"--maxdepth", "+7"}, {"--maxdepth", "0x10"}, {"--maxdepth", " 5"},
	{"--date-format", "bogus"}, {"--date-format", ""}, {"--date-format", "2006-01-02"}, {"--date-format", "Monday"}, {"--date-format", "%Y"},
	{"--today", "garbage"}, {"--today", ""}, {"--today", "2021/02/30"},
	{"--no-database"}, {"--config", "nonexistent.conf"}, {"--config", "."}, {"--config", "food.yaml"}, {"--no-color"},
	{"--config", "food.yaml/config"}, {"--config", "/dev/null/x"}, {"--config", strings.Repeat("n", 300)}, {"--config", strings.Repeat("d/", 3000) + "c"},
	{"-d", "log.yaml/x"}, {"-l", strings.Repeat("n", 300)}, {"--config", "/dev/null"}, {"-d", "/dev/null"},
	{"-d", "."}, {"-l", "."}, {"-d", "nonexistent"}, {"-l", "nonexistent"}, {"-d", "log.yaml", "-l", "food.yaml"}, {"-d", ""}, {"-l", ""},
}

var frameRe = regexp.MustCompile(`github\.com/aquilax/hranoprovod-cli[^\s(]*/([A-Za-z0-9_]+(\.\(\*[A-Za-z0-9_]+\)|\.[A-Za-z0-9_]+)+)`)

func crashSite(stack string) string {
	for _, m := range frameRe.FindAllStringSubmatch(stack, -1) {
		if !strings.Contains(m[1], "verif") {
			return m[1]
		}
	}
	if strings.Contains(stack, "stack overflow") {
		return "stack-overflow"
	}
	if strings.Contains(stack, "TIMEOUT") {
		return "timeout"
	}
	return "unknown"
}

func runC08(c *core.Ctx) {
	c.SetRule("cases: grammar-aware corruptions (23 operators: odd category paths with trailing/leading/doubled separators, truncation at any byte, deleted/duplicated/shuffled lines, junk/NaN/Inf/overflow/hex numbers, stray separators, NUL/invalid UTF-8/control bytes, CR-only, BOM+CRLF, non-date headings, empty/comment-only, 70 kB line, self/mutual recursion, over-deep chains, raw bytes, structured soup, broken indentation, name-less/value-less entries, repeated headings), 1-3 stacked per file, of generated valid files and of the repository examples, in the log, the book or both x 60 command/flag shapes x 38 global-flag variations (bad periods, depths, date formats, today, config, missing/directory files). Oracle: no panic/fatal error/signal (recovered panic with stack in the in-process back-end, confirmed in a fresh process), non-zero exit only with a message, termination (watchdog + isolated re-run). Non-trivial = run whose input differs from a valid file or whose flags are malformed; distinct = hash(files, argv).")
	c.Assume("a crash seen in the in-process back-end is reported only if it reproduces in a fresh process of the real binary (the CLI library keeps package-level state between in-process runs)")
	pool := newPool(c, c.Procs)
	if pool == nil {
		return
	}
	defer pool.Close()
	exBook, _ := os.ReadFile(core.Repo + "/examples/food.yaml")
	exLog, _ := os.ReadFile(core.Repo + "/examples/log.yaml")
	n := c.N(20000, 400000)
	core.ParallelFor(n, c.Procs, func(wk, i int) {
		srv := pool.Servers[wk]
		r := c.Rng("case", i)
		var book, log, element, food string
		if r.Intn(5) == 0 && len(exBook) > 0 {
			book, log, element, food = string(exBook), string(exLog), "calories", "coffee"
		} else {
			w := newWorld(r, worldOpts{Exact: r.Intn(2) == 0, Hostile: r.Intn(2) == 0, Notes: true})
			book, log = w.BookText, w.LogText
			element, food = w.Basics[0], "a"
		}
		switch r.Intn(4) {
		case 0:
			book = corrupt(r, book)
		case 1:
			log = corrupt(r, log)
		case 2:
			book, log = corrupt(r, book), corrupt(r, log)
		case 3:
			for k := 0; k < 3; k++ {
				if r.Intn(2) == 0 {
					book = corrupt(r, book)
				} else {
					log = corrupt(r, log)
				}
			}
		}
		files := map[string]string{"food.yaml": book, "log.yaml": log}
		// the input is on disk before the run starts
		srv.Write(files)
		shapes := c08Shapes(r, element, food)
		sh := shapes[r.Intn(len(shapes))]
		if r.Intn(4) == 0 {
			// a shape drawn from the catalogue: flag combinations and values nobody listed by hand
			sh = c08Shape{args: randomCmd(r, element, food, "2021/01/24").Args}
			c.Count("catalogue_shapes", 1)
		}
		args := []string{"-d", "food.yaml", "-l", "log.yaml", "--today", "2021/02/01"}
		if r.Intn(3) == 0 {
			args = append(args, "--no-color")
		}
		args = append(args, c08Globals[r.Intn(len(c08Globals))]...)
		if r.Intn(6) == 0 {
			// a configuration file written by a confused user or a broken tool
			conf := c08HostileConfig(r)
			files["hostile.conf"] = conf
			srv.Write(map[string]string{"hostile.conf": conf})
			args = append(args, "--config", "hostile.conf")
			c.Count("hostile_config_files", 1)
		}
		args = append(args, sh.args...)
		if r.Intn(10) == 0 {
			// what a shell's completion function appends when TAB is pressed; also after words that do not parse
			args = append(args, "--generate-bash-completion")
			c.Count("completion_requests", 1)
		}
		name := "(no command)"
		if len(sh.args) > 0 {
			name = strings.Join(sh.args[:min(2, len(sh.args))], " ")
			if sh.args[0] == "summary" || sh.args[0] == "lint" || sh.args[0] == "reg" || sh.args[0] == "bal" {
				name = sh.args[0]
			}
		}
		var res run.Result
		viaL1 := sh.l1 || i%20 == 0
		if viaL1 {
			res = run.Exec(c.HR, args, run.ExecOpts{Dir: srv.Dir, Timeout: 30 * time.Second})
			c.Count("l1_runs", 1)
		} else {
			res = srv.App1(args, nil)
			c.Count("l2_runs", 1)
		}
		c.Eval(1)
		c.Nontrivial(book, log, joinArgs(args))
		c.Count("cmd_"+strings.ReplaceAll(name, " ", "_"), 1)
		doc := caseDoc{Files: map[string]string{"food.yaml": clip(book, 6000), "log.yaml": clip(log, 6000)}, Args: args, Observed: resDoc(res)}
		if !viaL1 && (res.Panic != "" || res.TimedOut) {
			// confirm in a fresh process of the real binary, isolated, with a stack dump on timeout
			l1 := run.Exec(c.HR, args, run.ExecOpts{Dir: srv.Dir, Timeout: 120 * time.Second})
			c.Count("l2_crashes_rechecked_in_l1", 1)
			if !l1.Crashed() && !l1.TimedOut {
				c.Count("l2_only_artifacts", 1)
				return
			}
			res = l1
			doc.Observed = resDoc(res)
		}
		switch {
		case res.TimedOut:
			// reproduce serially with a generous limit before calling it a hang
			again := run.Exec(c.HR, args, run.ExecOpts{Dir: srv.Dir, Timeout: 120 * time.Second})
			if again.TimedOut {
				c.Violation(name+"|hang", "no termination within 120 s in an isolated re-run: "+joinArgs(args), doc)
			} else {
				c.Inconclusive("watchdog", "a run exceeded its watchdog once but finished in the isolated re-run: "+joinArgs(args))
			}
		case res.Crashed():
			c.Violation(name+"|crash:"+crashSite(res.Panic+res.Serr), clip(res.Panic+res.Serr, 500), doc)
		case res.Exit != 0 && strings.TrimSpace(res.ErrText()) == "" && strings.TrimSpace(res.Out) == "":
			c.Violation(name+"|nonzero-exit-without-message", fmt.Sprintf("exit %d with no message", res.Exit), doc)
		}
		if i < 3 {
			c.Sample(map[string]any{"args": joinArgs(args), "food.yaml": clip(book, 300), "log.yaml": clip(log, 300), "exit": res.Exit, "message": clip(res.ErrText(), 200)})
		}
	})
	// directories and missing files for every command (L1)
	dir := filepath.Join(c.Work, "l1files")
	os.MkdirAll(filepath.Join(dir, "adir"), 0o755)
	run.WriteFiles(dir, map[string]string{"food.yaml": string(exBook), "log.yaml": string(exLog)})
	for _, sh := range c08Shapes(c.Rng("l1", 0), "calories", "coffee") {
		for _, g := range [][]string{{"-d", "adir"}, {"-l", "adir"}, {"-d", "missing"}, {"-l", "missing"}, {"-d", "/dev/null", "-l", "/dev/null"}} {
			args := append(append([]string{"--today", "2021/02/01"}, g...), sh.args...)
			res := run.Exec(c.HR, args, run.ExecOpts{Dir: dir})
			c.Eval(1)
			c.Count("l1_runs", 1)
			c.Nontrivial("l1files", joinArgs(args))
			if res.Crashed() || res.TimedOut {
				c.Violation(strings.Join(sh.args, " ")+"|crash:"+crashSite(res.Serr), clip(res.Serr, 500), caseDoc{Args: args, Observed: resDoc(res)})
			}
		}
	}
	// legitimate but hostile shape: 9 layers of recipes, each listing every recipe of the next layer
	// (longest chain below the default limit, the number of paths is width^8): must terminate
	for _, width := range []int{6, 16} {
		var sb strings.Builder
		for l := 1; l <= 9; l++ {
			for k := 0; k < width; k++ {
				fmt.Fprintf(&sb, "L%d_%d:\n", l, k)
				for j := 0; j < width; j++ {
					if l < 9 {
						fmt.Fprintf(&sb, "  L%d_%d: 1\n", l+1, j)
					}
				}
				if l == 9 {
					sb.WriteString("  x: 1\n")
				}
			}
		}
		wdir := filepath.Join(c.Work, fmt.Sprintf("wide%d", width))
		run.WriteFiles(wdir, map[string]string{"food.yaml": sb.String(), "log.yaml": "2021/01/24:\n  L1_0: 1\n  L5_1: 2\n"})
		for _, cmd := range [][]string{{"reg"}, {"report", "totals"}, {"csv", "database-resolved"}, {"bal", "-s", "x"}} {
			args := append([]string{"--no-color", "-d", "food.yaml", "-l", "log.yaml"}, cmd...)
			res := run.Exec(c.HR, args, run.ExecOpts{Dir: wdir, Timeout: 60 * time.Second})
			c.Eval(1)
			c.Count("wide_layered_book_runs", 1)
			c.Nontrivial("wide", fmt.Sprint(width), joinArgs(cmd))
			doc := caseDoc{Args: args, Note: fmt.Sprintf("book of 9 layers x %d recipes, each listing every recipe of the next layer (%d lines); longest chain 9 < default limit 10", width, strings.Count(sb.String(), "\n")), Observed: resDoc(res)}
			if res.TimedOut {
				again := run.Exec(c.HR, args, run.ExecOpts{Dir: wdir, Timeout: 120 * time.Second})
				if again.TimedOut {
					c.Violation(strings.Join(cmd, " ")+"|hang", fmt.Sprintf("no termination within 120 s on a legitimate book of 9 layers x %d recipes", width), doc)
				} else {
					c.Inconclusive("watchdog", "wide layered book: first run exceeded 60 s, isolated re-run finished")
				}
			} else if res.Crashed() || res.Exit != 0 {
				c.Violation(strings.Join(cmd, " ")+"|fails-on-wide-book", clip(res.Serr, 300), doc)
			}
		}
	}
	// who runs the program is not an input either: a user id without an entry in the user database (a container
	// started with --user 54321), with HOME empty, unset-like, pointing nowhere or at a file; the current
	// directory unreadable. Every command ends with a report or an error, never with a crash.
	{
		udir := filepath.Join(c.Work, "nobody")
		run.WriteFiles(udir, map[string]string{"food.yaml": "a/b:\n  x: 1\n", "log.yaml": "2021/01/24:\n  a/b: 2\n", "hr.conf": "[Global]\nDateFormat=2006/01/02\n"})
		drop := []string{"setpriv", "--reuid=54321", "--regid=54321", "--clear-groups"}
		if exec.Command(drop[0], append(append([]string{}, drop[1:]...), "test", "-r", filepath.Join(udir, "log.yaml"), "-a", "-x", c.HR)...).Run() != nil {
			c.Count("runs_as_unknown_user_not_available", 1)
		} else {
			for _, home := range []string{"", "/nonexistent-verif-home", filepath.Join(udir, "log.yaml"), "relative/home", "/"} {
				for _, cmd := range [][]string{{"reg"}, {"bal"}, {"stats"}, {"print"}, {"lint", "log.yaml"}, {"csv", "log"}, {"summary", "today"}, {"report", "totals"}, {"--config", "hr.conf", "reg"}, {"--version"}, {"--help"}, {}} {
					for _, user := range []string{"", "ghost"} {
						env := map[string]string{"HOME": home, "USER": user, "LOGNAME": user}
						res := run.Exec(c.HR, cmd, run.ExecOpts{Dir: udir, Env: env, Prefix: drop})
						c.Eval(1)
						c.Count("runs_as_a_user_without_passwd_entry", 1)
						c.Nontrivial("unknown-user", home, user, joinArgs(cmd))
						if res.Crashed() || res.TimedOut {
							c.Violation(c08Name(cmd)+"|crash-as-unknown-user", fmt.Sprintf("uid 54321 (no entry in the user database), HOME=%q USER=%q: %s", home, user, clip(res.Serr, 300)), caseDoc{Args: cmd, Env: env, Note: "run through: " + joinArgs(drop), Observed: resDoc(res)})
						}
					}
				}
			}
		}
	}
	// stats with the first or last record and the current date about a day apart, written under different offsets
	// (an earlier instant that carries the later calendar date, equal instants, a date-only layout with offsets a
	// day apart): it prints its numbers and ends
	{
		sdir := filepath.Join(c.Work, "stats-zones")
		cases := []struct{ layout, heading, today string }{
			{"2006/01/02 -0700", "2021/01/26 +1400", "2021/01/25 -1200"},
			{"2006/01/02 -0700", "2021/01/25 +1200", "2021/01/24 -1200"},
			{"2006/01/02 15:04 -0700", "2021/01/26 00:30 +0100", "2021/01/25 23:45 +0000"},
			{"2006/01/02 15:04 -0700", "2021/01/25 23:45 +0000", "2021/01/26 00:30 +0100"},
			{"2006/01/02 15:04 -0700", "2021/01/26 00:30 +0100", "2021/01/25 23:30 +0000"},
			{"2006/01/02 15:04 -0700", "2021/03/28 03:30 +0200", "2021/03/28 01:30 +0100"},
			{"2006/01/02 15:04:05 -07:00", "0001/01/01 00:00:00 +00:00", "9999/12/31 23:59:59 -12:00"},
			{"2006/01/02 15:04 MST", "2021/01/26 00:30 CET", "2021/01/25 23:45 UTC"},
		}
		hangs := 0
		for ci, cs := range cases {
			for _, tz := range []string{"UTC", "America/Los_Angeles", "Pacific/Kiritimati"} {
				if hangs >= 2 {
					// settled: every further hanging case would cost another two and a half minutes
					continue
				}
				run.WriteFiles(sdir, map[string]string{"food.yaml": "a:\n  x: 1\n", "log.yaml": cs.heading + ":\n  a: 1\n"})
				args := []string{"--no-color", "-d", "food.yaml", "-l", "log.yaml", "--date-format", cs.layout, "--today", cs.today, "stats"}
				res := run.Exec(c.HR, args, run.ExecOpts{Dir: sdir, Env: map[string]string{"TZ": tz}, Timeout: 20 * time.Second})
				if res.TimedOut {
					res = run.Exec(c.HR, args, run.ExecOpts{Dir: sdir, Env: map[string]string{"TZ": tz}, Timeout: 120 * time.Second})
				}
				c.Eval(1)
				c.Count("stats_runs_across_offsets", 1)
				c.Nontrivial("stats-zones", fmt.Sprint(ci), tz)
				doc := caseDoc{Files: map[string]string{"log.yaml": cs.heading + ":\n  a: 1\n"}, Args: args, Env: map[string]string{"TZ": tz}, Observed: resDoc(res)}
				if res.TimedOut {
					hangs++
					c.Violation("stats|hang", fmt.Sprintf("heading %q, --today %q, TZ=%s: no termination within 20 s nor within 120 s in a second run", cs.heading, cs.today, tz), doc)
				} else if res.Crashed() {
					c.Violation("stats|crash", clip(res.Serr, 300), doc)
				}
			}
		}
	}
	// nor is the machine: one processor (taskset -c 0: a single-vCPU host, a one-CPU cpuset), a scheduler limited to
	// one thread, a low limit on open files and on address space that still leaves room for the small inputs
	{
		mdir := filepath.Join(c.Work, "machine")
		run.WriteFiles(mdir, map[string]string{"food.yaml": "a/b:\n  x: 1\n", "log.yaml": "2021/01/24:\n  a/b: 2\n"})
		type limit struct {
			what   string
			prefix []string
			env    map[string]string
		}
		var limits []limit
		if exec.Command("taskset", "-c", "0", "true").Run() == nil {
			limits = append(limits, limit{"one processor (taskset -c 0)", []string{"taskset", "-c", "0"}, nil})
		} else {
			c.Count("runs_on_one_processor_not_available", 1)
		}
		limits = append(limits, limit{"GOMAXPROCS=1", nil, map[string]string{"GOMAXPROCS": "1"}}, limit{"16 open files (ulimit -n 16)", []string{"sh", "-c", "ulimit -n 16; exec \"$@\"", "--"}, nil})
		for _, lm := range limits {
			for _, cmd := range [][]string{{"reg"}, {"bal"}, {"stats"}, {"print"}, {"lint", "log.yaml"}, {"csv", "log"}, {"csv", "database-resolved"}, {"summary", "2021/01/24"}, {"report", "totals"}, {"report", "element-total", "x"}} {
				args := append([]string{"--no-color", "-d", "food.yaml", "-l", "log.yaml"}, cmd...)
				if cmd[0] == "lint" {
					args = append([]string{"--no-color"}, cmd...)
				}
				ref := run.Exec(c.HR, args, run.ExecOpts{Dir: mdir})
				res := run.Exec(c.HR, args, run.ExecOpts{Dir: mdir, Env: lm.env, Prefix: lm.prefix, Timeout: 20 * time.Second})
				if res.TimedOut {
					res = run.Exec(c.HR, args, run.ExecOpts{Dir: mdir, Env: lm.env, Prefix: lm.prefix, Timeout: 120 * time.Second})
				}
				c.Eval(2)
				c.Count("runs_on_a_limited_machine", 1)
				c.Nontrivial("machine", lm.what, joinArgs(cmd))
				doc := caseDoc{Args: args, Env: lm.env, Note: lm.what + "; run through: " + joinArgs(lm.prefix), Expected: resDoc(ref), Observed: resDoc(res)}
				switch {
				case res.TimedOut:
					c.Violation(c08Name(cmd)+"|hang-on-a-limited-machine", fmt.Sprintf("%s: no termination within 20 s nor within 120 s in a second run", lm.what), doc)
				case res.Crashed():
					c.Violation(c08Name(cmd)+"|crash-on-a-limited-machine", fmt.Sprintf("%s: %s", lm.what, clip(res.Serr, 300)), doc)
				case res.Exit != ref.Exit || res.Out != ref.Out:
					c.Violation(c08Name(cmd)+"|differs-on-a-limited-machine", fmt.Sprintf("%s: exit %d, %d bytes; without the limit: exit %d, %d bytes", lm.what, res.Exit, len(res.Out), ref.Exit, len(ref.Out)), doc)
				}
			}
		}
	}
	jobs, deaths := pool.Stats()
	c.Count("l2_jobs", jobs)
	c.Count("l2_process_deaths", deaths)
	c.Count("l2_priming_runs", pool.Primed())
	_ = gen.Half
}

func c08Name(cmd []string) string {
	if len(cmd) == 0 {
		return "(no command)"
	}
	if cmd[0] == "--config" && len(cmd) > 2 {
		return cmd[2]
	}
	return cmd[0]
}
