package checks

import (
	"fmt"
	"net"
	"os"
	"os/exec"
	"os/user"
	"path/filepath"
	"strings"
	"syscall"
	"time"

	"verif/harness/core"
	"verif/harness/obs"
	"verif/harness/run"
)

func init() {
	register(&Check{ID: "C16", Level: "exploration", Run: runC16})
}

// one joint assignment of sources
type c16Assign struct {
	flag map[string]bool // setting -> given on the command line
	env  map[string]bool // setting -> HR_* set
	conf map[string]bool // setting -> entry in the configuration file
	file bool            // a configuration file exists at the chosen location
	src  string          // "--config" | "HR_CONFIG" | "default"
	// defAt: setting -> "flag" | "env": that level restates the documented default value
	// explicitly (e.g. --maxdepth 10); it must still win over the configuration file
	defAt map[string]string
	// alsoDefault: a second configuration file at the default location sets this setting while the
	// named file (src) does not: the named file is the configuration file, the other must be ignored
	alsoDefault string
}

// candidate file names carry characters that only a shell or a template engine would interpret
// ($NAME, ${NAME}, ~, %): every level must take its value literally
const (
	c16DbFlag  = "db_flag_$HOME.yaml"
	c16DbEnv   = "db_env_${PATH}.yaml"
	c16DbConf  = "db_conf_$book~%d.yaml"
	c16LogFlag = "log_flag_$1.yaml"
	c16LogEnv  = "log_env_%s.yaml"
	c16LogConf = "log_conf_${HOME}$x.yaml"
)

var c16Settings = []string{"database", "logfile", "date-format", "maxdepth", "today"}

var c16Layouts = map[string]string{"flag": "2006-01-02", "env": "02.01.2006", "conf": "Jan 2 2006", "default": "2006/01/02"}
var c16Depth = map[string]int{"flag": 3, "env": 5, "conf": 7, "default": 10}

func (a c16Assign) level(s string) string {
	if a.defAt[s] != "" && !a.flag[s] && !(a.defAt[s] == "env" && false) {
		if a.defAt[s] == "flag" || !a.flag[s] {
			return "default"
		}
	}
	switch {
	case a.flag[s]:
		return "flag"
	case a.env[s] && s != "today":
		return "env"
	case a.file && a.conf[s]:
		return "conf"
	}
	return "default"
}

func (a c16Assign) String() string {
	var parts []string
	for _, s := range c16Settings {
		var p []string
		if a.flag[s] {
			p = append(p, "flag")
		}
		if a.env[s] && s != "today" {
			p = append(p, "env")
		}
		if a.file && a.conf[s] {
			p = append(p, "conf")
		}
		if a.defAt[s] != "" {
			p = append(p, a.defAt[s]+"(restating the default)")
		}
		if len(p) > 0 {
			parts = append(parts, s+"="+strings.Join(p, "+"))
		}
	}
	f := "no config file"
	if a.file {
		f = "config via " + a.src
	}
	if a.alsoDefault != "" {
		f += ", another file at the default location sets " + a.alsoDefault
	}
	return strings.Join(parts, " ") + " [" + f + "]"
}

func chainBookText(n int) string { return bookText(chainBook(n, nil)) }

// c16Dir prepares the working directory with every candidate file.
func c16Dir(dir string) error {
	files := map[string]string{}
	for _, lv := range []string{"flag", "env", "conf", "default"} {
		name := map[string]string{"flag": c16DbFlag, "env": c16DbEnv, "conf": c16DbConf, "default": "food.yaml"}[lv]
		files[name] = fmt.Sprintf("marker_db_%s:\n  x: 1\n", lv)
		lname := map[string]string{"flag": c16LogFlag, "env": c16LogEnv, "conf": c16LogConf, "default": "log.yaml"}[lv]
		// every candidate log exists in every candidate date layout
		for dl, layout := range c16Layouts {
			d := time.Date(2021, 1, 24, 0, 0, 0, 0, time.UTC).Format(layout)
			files[strings.TrimSuffix(lname, ".yaml")+"."+dl+".yaml"] = fmt.Sprintf("%s:\n  marker_log_%s: 1\n", d, lv)
		}
		files[lname] = fmt.Sprintf("2021/01/24:\n  marker_log_%s: 1\n", lv)
	}
	for _, n := range []int{2, 4, 6, 8, 11} {
		files[fmt.Sprintf("chain%d.yaml", n)] = chainBookText(n)
	}
	files["empty.yaml"] = ""
	return run.WriteFiles(dir, files)
}

type c16Env struct {
	dir      string
	home     string // private home directory (bind-mounted over the real one)
	realHome string
	unshare  bool
	hr       string
	srv      *run.Server // when set: runs are served by this long-lived process instead of fresh ones
}

// exec runs hr with the assignment; the observable command is appended by the caller.
func (e c16Env) exec(a c16Assign, dbOverride, logLayoutFor string, cmd ...string) (run.Result, []string, map[string]string, string) {
	var args []string
	env := map[string]string{}
	conf := ""
	if a.file {
		var g, rs []string
		if a.conf["database"] {
			g = append(g, "DbFileName="+filepath.Join(e.dir, c16DbConf))
		}
		if a.conf["logfile"] {
			g = append(g, "LogFileName="+filepath.Join(e.dir, c16LogConf))
		}
		if a.conf["date-format"] {
			g = append(g, "DateFormat="+c16Layouts["conf"])
		}
		if a.conf["today"] {
			g = append(g, "Now=2020-01-02T00:00:00Z")
		}
		if a.conf["maxdepth"] {
			rs = append(rs, fmt.Sprintf("MaxDepth=%d", c16Depth["conf"]))
		}
		conf = "[Global]\n" + strings.Join(g, "\n") + "\n[Resolver]\n" + strings.Join(rs, "\n") + "\n"
		if len(a.String())%3 == 0 {
			// a long preamble of comments (a generated file, a pasted manual): the entries start beyond 64 KiB
			conf = strings.Repeat("; "+strings.Repeat("preamble ", 10)+"\n# another comment style\n", 640) + conf
		}
	}
	os.Remove(filepath.Join(e.dir, "hr.conf"))
	os.RemoveAll(filepath.Join(e.home, ".hranoprovod"))
	if a.file {
		switch a.src {
		case "--config":
			os.WriteFile(filepath.Join(e.dir, "hr.conf"), []byte(conf), 0o644)
			args = append(args, "--config", "hr.conf")
		case "HR_CONFIG":
			os.WriteFile(filepath.Join(e.dir, "hr.conf"), []byte(conf), 0o644)
			env["HR_CONFIG"] = filepath.Join(e.dir, "hr.conf")
		case "default":
			os.MkdirAll(filepath.Join(e.home, ".hranoprovod"), 0o755)
			p := filepath.Join(e.home, ".hranoprovod", "config")
			os.WriteFile(p, []byte(conf), 0o644)
			// whatever permission bits let the user read it (created under umask 002, shared with a group, read-only):
			// the file is the user's configuration
			os.Chmod(p, []os.FileMode{0o644, 0o664, 0o666, 0o600, 0o444, 0o640, 0o660}[len(a.String())%7])
			os.Chmod(filepath.Join(e.home, ".hranoprovod"), []os.FileMode{0o755, 0o775, 0o700, 0o777}[len(conf)%4])
		}
	}
	if a.alsoDefault != "" {
		other := map[string]string{
			"database":    "[Global]\nDbFileName=" + filepath.Join(e.dir, c16DbConf) + "\n",
			"logfile":     "[Global]\nLogFileName=" + filepath.Join(e.dir, c16LogConf) + "\n",
			"date-format": "[Global]\nDateFormat=" + c16Layouts["conf"] + "\n",
			"maxdepth":    fmt.Sprintf("[Resolver]\nMaxDepth=%d\n", c16Depth["conf"]),
		}[a.alsoDefault]
		os.MkdirAll(filepath.Join(e.home, ".hranoprovod"), 0o755)
		os.WriteFile(filepath.Join(e.home, ".hranoprovod", "config"), []byte(other), 0o644)
	}
	if len(a.String())%5 == 1 {
		// the switch that would drop the book, spelled with an explicit false value: nothing changes
		args = append(args, []string{"--no-database=false", "--no-database=0", "--no-database=F"}[len(a.String())%3])
	}
	layoutLevel := a.level("date-format")
	layout := c16Layouts[layoutLevel]
	if a.flag["database"] && dbOverride == "" {
		args = append(args, "-d", c16DbFlag)
	}
	if a.env["database"] {
		env["HR_DATABASE"] = c16DbEnv
	}
	if a.flag["logfile"] && logLayoutFor == "" {
		args = append(args, "--logfile", c16LogFlag)
	}
	if a.env["logfile"] {
		env["HR_LOGFILE"] = c16LogEnv
	}
	if a.flag["date-format"] {
		args = append(args, "--date-format", c16Layouts["flag"])
	}
	if a.env["date-format"] {
		env["HR_DATE_FORMAT"] = c16Layouts["env"]
	}
	if a.flag["maxdepth"] {
		args = append(args, "--maxdepth", fmt.Sprint(c16Depth["flag"]))
	}
	if a.env["maxdepth"] {
		env["HR_MAXDEPTH"] = fmt.Sprint(c16Depth["env"])
	}
	if a.flag["today"] {
		args = append(args, "--today", time.Date(2021, 3, 4, 0, 0, 0, 0, time.UTC).Format(layout))
	}
	for s, at := range a.defAt {
		val := map[string]string{"database": "food.yaml", "logfile": "log.yaml", "date-format": c16Layouts["default"], "maxdepth": fmt.Sprint(c16Depth["default"])}[s]
		if at == "flag" {
			if (s == "database" && dbOverride != "") || (s == "logfile" && logLayoutFor != "") {
				continue
			}
			args = append(args, "--"+s, val)
		} else {
			env[map[string]string{"database": "HR_DATABASE", "logfile": "HR_LOGFILE", "date-format": "HR_DATE_FORMAT", "maxdepth": "HR_MAXDEPTH"}[s]] = val
		}
	}
	if dbOverride != "" {
		args = append(args, "-d", dbOverride)
	}
	if logLayoutFor != "" {
		// the log of the level in effect, written in the given layout level
		lv := a.level("logfile")
		base := map[string]string{"flag": strings.TrimSuffix(c16LogFlag, ".yaml"), "env": strings.TrimSuffix(c16LogEnv, ".yaml"), "conf": strings.TrimSuffix(c16LogConf, ".yaml"), "default": "log"}[lv]
		args = append(args, "-l", base+"."+logLayoutFor+".yaml")
	}
	args = append(args, cmd...)
	var prefix []string
	if e.unshare {
		prefix = []string{"unshare", "-m", "sh", "-c", fmt.Sprintf("mount --bind %s %s && exec \"$@\"", e.home, e.realHome), "--"}
	}
	if e.srv != nil && !e.unshare {
		return e.srv.App1(args, env), args, env, conf
	}
	res := run.Exec(e.hr, args, run.ExecOpts{Dir: e.dir, Env: env, Prefix: prefix})
	return res, args, env, conf
}

func runC16(c *core.Ctx) {
	c.SetRule("configurations: for each of the five settings the full product {flag set/unset} x {HR_* set/unset} x {config entry / file without entry / no file} (12 combinations; 6 for --today which has no variable) x config source {--config, HR_CONFIG, default location in a private mount namespace}, with distinguishable values at every level (a marker recipe/food per candidate file, four mutually incompatible date layouts, depths 3/5/7/10 bracketed by chain books 2/4/6/8/11, three 'today' values), plus PRNG joint assignments of all five settings; explicit existing/missing config file; --no-database vs an empty book with a decoy food.yaml. Oracle: value in effect (read off the report) == first defined of flag, variable, config entry, default. Non-trivial = assignment with >= 2 sources defined for the observed setting; distinct = hash(assignment, observed setting).")
	if u, err := user.Current(); err == nil {
		if _, err := os.Stat(filepath.Join(u.HomeDir, ".hranoprovod", "config")); err == nil {
			c.HarnessError("a real ~/.hranoprovod/config exists; the check would not be hermetic")
			return
		}
	}
	e := c16Env{dir: filepath.Join(c.Work, "cwd"), home: filepath.Join(c.Work, "home"), hr: c.HR}
	if err := c16Dir(e.dir); err != nil {
		c.HarnessError(err.Error())
		return
	}
	os.MkdirAll(e.home, 0o755)
	if u, err := user.Current(); err == nil {
		e.realHome = u.HomeDir
	}
	// is a private mount namespace available?
	canUnshare := false
	if e.realHome != "" && (strings.HasPrefix(c.Work, e.realHome+"/") || strings.HasPrefix(c.HR, e.realHome+"/")) {
		c.Inconclusive("default-config-location", "the scratch directory lies inside the home directory that the private mount would hide")
	} else if e.realHome != "" {
		probe := exec.Command("unshare", "-m", "sh", "-c", fmt.Sprintf("mount --bind %s %s && test -d %s", e.home, e.realHome, e.realHome))
		if out, err := probe.CombinedOutput(); err == nil {
			canUnshare = true
		} else {
			c.Inconclusive("default-config-location", "mount namespace not available: "+clip(string(out), 200))
		}
	}

	check := func(a c16Assign, setting string) {
		e.unshare = (a.src == "default" || a.alsoDefault != "") && canUnshare
		if a.src == "default" && !canUnshare {
			return
		}
		lv := a.level(setting)
		defined := 0
		if a.flag[setting] {
			defined++
		}
		if a.env[setting] && setting != "today" {
			defined++
		}
		if a.file && a.conf[setting] {
			defined++
		}
		if defined >= 2 {
			c.Nontrivial(a.String(), setting)
		}
		c.Count("checks_"+setting, 1)
		c.Count("checks_source_"+strings.Trim(a.src, "-"), 1)
		fail := func(class, msg string, res run.Result, args []string, env map[string]string, conf string) {
			c.Violation(setting+"|"+class, fmt.Sprintf("%s: %s", a.String(), msg), caseDoc{Args: args, Env: env, Note: a.String(), Extra: map[string]any{"config_file": conf, "expected_level": lv}, Observed: resDoc(res)})
		}
		switch setting {
		case "database":
			res, args, env, conf := e.exec(a, "", "", "csv", "database")
			c.Eval(1)
			want := "marker_db_" + lv
			if res.Exit != 0 {
				fail("command-fails", clip(res.Serr, 200), res, args, env, conf)
			} else if rows, err := obs.ParseCSV(res.Out); err != nil || len(rows) != 1 || rows[0][0] != want {
				fail("wrong-value-in-effect", fmt.Sprintf("book in effect shows %q, want %s", clip(res.Out, 80), want), res, args, env, conf)
			}
		case "logfile":
			// the date layout in effect may come from another source: use the log written in that layout
			if a.level("date-format") != "default" {
				res, args, env, conf := e.exec(a, "", "", "stats")
				c.Eval(1)
				want := map[string]string{"flag": c16LogFlag, "env": c16LogEnv, "conf": filepath.Join(e.dir, c16LogConf), "default": "log.yaml"}[lv]
				st, _ := obs.ParseStats(res.Out)
				if res.Exit != 0 || st.Fields["Log file"] != want {
					fail("wrong-value-in-effect", fmt.Sprintf("stats says log file %q (exit %d), want %s", st.Fields["Log file"], res.Exit, want), res, args, env, conf)
				}
				return
			}
			res, args, env, conf := e.exec(a, "", "", "csv", "log")
			c.Eval(1)
			want := "marker_log_" + lv
			if res.Exit != 0 {
				fail("command-fails", clip(res.Serr, 200), res, args, env, conf)
			} else if rows, err := obs.ParseCSV(res.Out); err != nil || len(rows) != 1 || rows[0][1] != want {
				fail("wrong-value-in-effect", fmt.Sprintf("log in effect shows %q, want %s", clip(res.Out, 80), want), res, args, env, conf)
			}
		case "date-format":
			// the log written in the expected layout must parse; the ones written in the other layouts must not
			for dl := range c16Layouts {
				res, args, env, conf := e.exec(a, "", dl, "csv", "log")
				c.Eval(1)
				if dl == lv {
					if res.Exit != 0 || !strings.HasPrefix(res.Out, "2021-01-24,") {
						fail("wrong-value-in-effect", fmt.Sprintf("a log written as %q is not read (exit %d %s)", c16Layouts[dl], res.Exit, clip(res.Serr, 120)), res, args, env, conf)
					}
				} else if res.Exit == 0 && strings.HasPrefix(res.Out, "2021-01-24,") {
					fail("wrong-value-in-effect", fmt.Sprintf("a log written as %q (level %s) is read although %q (level %s) should be in effect", c16Layouts[dl], dl, c16Layouts[lv], lv), res, args, env, conf)
				}
			}
			// the positional date of summary is read in it
			sres, sargs, senv, sconf := e.exec(a, "", lv, "summary", time.Date(2021, 1, 24, 0, 0, 0, 0, time.UTC).Format(c16Layouts[lv]))
			c.Eval(1)
			if sres.Exit != 0 || !strings.Contains(sres.Out, "marker_log_") {
				fail("summary-date-argument", fmt.Sprintf("summary %s (a date in the layout in effect) gives exit %d, output %q, %s", time.Date(2021, 1, 24, 0, 0, 0, 0, time.UTC).Format(c16Layouts[lv]), sres.Exit, clip(sres.Out, 60), clip(sres.Serr, 120)), sres, sargs, senv, sconf)
			}
			// and printing uses it
			res, args, env, conf := e.exec(a, "", lv, "print")
			c.Eval(1)
			wantHead := time.Date(2021, 1, 24, 0, 0, 0, 0, time.UTC).Format(c16Layouts[lv]) + ":"
			if res.Exit != 0 || !strings.HasPrefix(res.Out, wantHead) {
				fail("not-used-for-printing", fmt.Sprintf("print shows %q, want heading %q", clip(res.Out, 40), wantHead), res, args, env, conf)
			}
		case "maxdepth":
			n := c16Depth[lv]
			below := map[int]int{3: 2, 5: 4, 7: 6, 10: 8}[n]
			above := map[int]int{3: 4, 5: 6, 7: 8, 10: 11}[n]
			r1, args, env, conf := e.exec(a, fmt.Sprintf("chain%d.yaml", below), "", "csv", "database-resolved")
			r2, args2, _, _ := e.exec(a, fmt.Sprintf("chain%d.yaml", above), "", "csv", "database-resolved")
			c.Eval(2)
			if r1.Exit != 0 {
				fail("wrong-value-in-effect", fmt.Sprintf("chain of %d references rejected, limit should be %d (%s)", below, n, clip(r1.Serr, 100)), r1, args, env, conf)
			} else if r2.Exit == 0 {
				fail("wrong-value-in-effect", fmt.Sprintf("chain of %d references accepted, limit should be %d", above, n), r2, args2, env, conf)
			}
		case "today":
			res, args, env, conf := e.exec(a, "", "", "stats")
			c.Eval(1)
			st, _ := obs.ParseStats(res.Out)
			layout := c16Layouts[a.level("date-format")]
			got := st.Fields["Today"]
			var want []string
			switch lv {
			case "flag":
				want = []string{time.Date(2021, 3, 4, 0, 0, 0, 0, time.UTC).Format(layout)}
			case "conf":
				want = []string{time.Date(2020, 1, 2, 0, 0, 0, 0, time.UTC).Format(layout)}
			default:
				now := time.Now()
				want = []string{now.Format(layout), now.UTC().Format(layout), now.Add(-time.Minute).Format(layout)}
			}
			ok := false
			for _, w := range want {
				if got == w {
					ok = true
				}
			}
			if res.Exit != 0 || !ok {
				fail("wrong-value-in-effect", fmt.Sprintf("stats says Today %q (exit %d), want %v", got, res.Exit, want), res, args, env, conf)
			}
		}
	}

	// (1) exhaustive product per setting x config source
	for _, src := range []string{"--config", "HR_CONFIG", "default"} {
		for _, s := range c16Settings {
			for _, flag := range []bool{false, true} {
				for _, env := range []bool{false, true} {
					if s == "today" && env {
						continue
					}
					for confState := 0; confState < 3; confState++ {
						a := c16Assign{flag: map[string]bool{s: flag}, env: map[string]bool{s: env}, conf: map[string]bool{s: confState == 2}, file: confState > 0, src: src}
						check(a, s)
						c.Count("exhaustive_product_cases", 1)
					}
				}
			}
		}
	}
	// (1b) a higher level that restates the documented default explicitly still wins over the configuration file
	for _, src := range []string{"--config", "HR_CONFIG", "default"} {
		for _, s := range []string{"database", "logfile", "date-format", "maxdepth"} {
			for _, at := range []string{"flag", "env"} {
				a := c16Assign{flag: map[string]bool{}, env: map[string]bool{}, conf: map[string]bool{s: true}, file: true, src: src, defAt: map[string]string{s: at}}
				check(a, s)
				c.Nontrivial(a.String(), s, "restated-default")
				c.Count("restated_default_cases", 1)
			}
		}
	}
	// (1c) a configuration file at the default location must not leak into a run that names another file
	if canUnshare {
		for _, s := range []string{"database", "logfile", "date-format", "maxdepth"} {
			for _, named := range []string{"--config", "HR_CONFIG"} {
				a := c16Assign{flag: map[string]bool{}, env: map[string]bool{}, conf: map[string]bool{}, file: true, src: named, alsoDefault: s}
				check(a, s)
				c.Nontrivial(a.String(), s, "two-config-files")
				c.Count("two_config_file_cases", 1)
			}
		}
	}
	// (2) random joint assignments
	n := c.N(300, 3000)
	for i := 0; i < n; i++ {
		r := c.Rng("joint", i)
		a := c16Assign{flag: map[string]bool{}, env: map[string]bool{}, conf: map[string]bool{}, file: r.Intn(4) > 0, src: []string{"--config", "HR_CONFIG", "default"}[r.Intn(3)]}
		for _, s := range c16Settings {
			a.flag[s], a.env[s], a.conf[s] = r.Intn(2) == 0, r.Intn(2) == 0, r.Intn(2) == 0
		}
		// database/logfile observables need the log readable: observe one PRNG-chosen setting
		s := c16Settings[r.Intn(len(c16Settings))]
		if s == "database" && a.level("maxdepth") != "default" {
			// the marker books are flat; any depth >= 2 accepts them
		}
		check(a, s)
		c.Count("joint_assignments", 1)
		if i < 3 {
			c.Sample(map[string]any{"assignment": a.String(), "observed_setting": s, "expected_level": a.level(s)})
		}
	}

	// (2b) the same kind of assignments, all served one after the other by one long-lived process (the job server):
	// the level that decides is the one of this invocation, whatever earlier invocations of the process were given
	if srv, err := run.NewServer(c.HR, e.dir); err != nil {
		c.HarnessError("cannot start the job server: " + err.Error())
	} else {
		e.srv = srv
		for i := 0; i < c.N(150, 1500); i++ {
			r := c.Rng("joint-in-process", i)
			a := c16Assign{flag: map[string]bool{}, env: map[string]bool{}, conf: map[string]bool{}, file: r.Intn(4) > 0, src: []string{"--config", "HR_CONFIG"}[r.Intn(2)]}
			for _, s := range c16Settings {
				a.flag[s], a.env[s], a.conf[s] = r.Intn(3) == 0, r.Intn(3) == 0, r.Intn(2) == 0
			}
			check(a, c16Settings[r.Intn(len(c16Settings))])
			c.Count("joint_assignments_in_one_process", 1)
		}
		e.srv = nil
		c.Count("l2_jobs", srv.Jobs)
		c.Count("l2_process_deaths", srv.Deaths)
		c.Count("l2_priming_runs", srv.Primed)
		srv.Close()
	}

	// (3) explicit configuration files
	e.unshare = false
	os.WriteFile(filepath.Join(e.dir, "ok.conf"), []byte("[Global]\nLogFileName="+filepath.Join(e.dir, c16LogConf)+"\n"), 0o644)
	for _, v := range []struct {
		what string
		args []string
		env  map[string]string
		want string
	}{
		{"existing --config is loaded", []string{"--config", "ok.conf", "csv", "log"}, nil, "marker_log_conf"},
		{"existing HR_CONFIG is loaded", []string{"csv", "log"}, map[string]string{"HR_CONFIG": filepath.Join(e.dir, "ok.conf")}, "marker_log_conf"},
		{"missing --config is an error", []string{"--config", "missing.conf", "csv", "log"}, nil, ""},
		{"missing HR_CONFIG is an error", []string{"csv", "log"}, map[string]string{"HR_CONFIG": filepath.Join(e.dir, "missing.conf")}, ""},
	} {
		res := run.Exec(c.HR, v.args, run.ExecOpts{Dir: e.dir, Env: v.env})
		c.Eval(1)
		c.Nontrivial("explicit", v.what)
		c.Count("explicit_config_cases", 1)
		doc := caseDoc{Args: v.args, Env: v.env, Note: v.what, Observed: resDoc(res)}
		if v.want != "" {
			if res.Exit != 0 || !strings.Contains(res.Out, v.want) {
				c.Violation("config|explicit-existing-not-loaded", fmt.Sprintf("%s: exit %d, output %q, stderr %q", v.what, res.Exit, clip(res.Out, 80), clip(res.Serr, 120)), doc)
			}
		} else if res.Exit == 0 {
			c.Violation("config|explicit-missing-accepted", v.what+": exit 0", doc)
		}
	}

	// (3b) an explicitly named configuration file need not be a regular file: the null device (no entries),
	// a symbolic link, a named pipe
	{
		okConf := "[Global]\nLogFileName=" + filepath.Join(e.dir, c16LogConf) + "\n"
		os.Symlink(filepath.Join(e.dir, "ok.conf"), filepath.Join(e.dir, "link.conf"))
		type sc struct {
			what, path, want string
			fifo             bool
		}
		for _, v := range []sc{{"--config /dev/null behaves as a file without entries", "/dev/null", "marker_log_default", false}, {"--config through a symbolic link", "link.conf", "marker_log_conf", false}, {"--config through a named pipe", "pipe.conf", "marker_log_conf", true}} {
			if v.fifo {
				p := filepath.Join(e.dir, v.path)
				os.Remove(p)
				if err := syscall.Mkfifo(p, 0o600); err != nil {
					continue
				}
				go func() {
					if w, err := os.OpenFile(p, os.O_WRONLY, 0); err == nil {
						w.Write([]byte(okConf))
						w.Close()
					}
				}()
			}
			args := []string{"--config", v.path, "csv", "log"}
			res := run.Exec(c.HR, args, run.ExecOpts{Dir: e.dir, Timeout: 20 * time.Second})
			c.Eval(1)
			c.Nontrivial("explicit", v.what)
			c.Count("explicit_config_cases", 1)
			if v.fifo {
				// release a writer that may still be blocked in open
				if rd, err := os.OpenFile(filepath.Join(e.dir, v.path), os.O_RDONLY|syscall.O_NONBLOCK, 0); err == nil {
					rd.Close()
				}
				os.Remove(filepath.Join(e.dir, v.path))
			}
			if res.TimedOut {
				c.Inconclusive("config-special-files", v.what+": watchdog")
				continue
			}
			if res.Exit != 0 || !strings.Contains(res.Out, v.want) {
				c.Violation("config|explicit-existing-not-loaded", fmt.Sprintf("%s: exit %d, output %q, stderr %q", v.what, res.Exit, clip(res.Out, 80), clip(res.Serr, 120)), caseDoc{Args: args, Note: v.what, Observed: resDoc(res)})
			}
		}
	}

	// (3b') a configuration file that is there but cannot be opened (a bound unix socket; a file without read
	// permission for a user that is not root) is not "no configuration file": the run fails, it does not go
	// on with the defaults (food.yaml, log.yaml and the default layout are all there to be picked up silently)
	{
		sock := filepath.Join(e.dir, "sock.conf")
		os.Remove(sock)
		var cases []struct {
			what, path string
			prefix     []string
		}
		if ln, err := net.Listen("unix", sock); err == nil {
			defer ln.Close()
			cases = append(cases, struct {
				what, path string
				prefix     []string
			}{"a bound unix socket", "sock.conf", nil})
		}
		secret := filepath.Join(e.dir, "secret.conf")
		os.WriteFile(secret, []byte("[Global]\nLogFileName="+filepath.Join(e.dir, c16LogConf)+"\n"), 0o600)
		os.Chmod(secret, 0)
		drop := []string{"setpriv", "--reuid=65534", "--regid=65534", "--clear-groups"}
		if exec.Command(drop[0], append(append([]string{}, drop[1:]...), "test", "-r", filepath.Join(e.dir, "ok.conf"), "-a", "-x", c.HR, "-a", "!", "-r", secret)...).Run() == nil {
			cases = append(cases, struct {
				what, path string
				prefix     []string
			}{"a file the invoking user (not root) may not read", "secret.conf", drop})
		} else {
			c.Count("unreadable_config_as_other_user_not_available", 1)
		}
		for _, v := range cases {
			for _, how := range []string{"--config", "-c", "HR_CONFIG"} {
				for _, cmd := range [][]string{{"csv", "log"}, {"stats"}, {"reg"}} {
					args, env := append([]string{how, v.path}, cmd...), map[string]string{}
					if how == "HR_CONFIG" {
						args, env = cmd, map[string]string{"HR_CONFIG": filepath.Join(e.dir, v.path)}
					}
					res := run.Exec(c.HR, args, run.ExecOpts{Dir: e.dir, Env: env, Prefix: v.prefix, Timeout: 20 * time.Second})
					c.Eval(1)
					c.Nontrivial("unopenable", v.what, how, cmd[0])
					c.Count("existing_config_that_cannot_be_opened", 1)
					if res.Exit == 0 {
						c.Violation("config|existing-but-unreadable-skipped", fmt.Sprintf("configuration file given by %s is %s: exit 0, the run went on without it (output %q)", how, v.what, clip(res.Out, 80)), caseDoc{Args: args, Env: env, Note: v.what, Observed: resDoc(res)})
					}
				}
			}
		}
		os.Chmod(secret, 0o600)
		os.Remove(secret)
		os.Remove(sock)
	}

	// (3c) the path in effect is the file the operating system finds under that name: a path that leaves a
	// symbolic link through ".." (lnk -> deep/inner, so lnk/.. is deep and not the working directory), a path
	// with doubled separators and "./" segments, a relative path through a sub-directory; a decoy with
	// the same base name sits where a lexical clean-up of the path would point. Every command that takes the
	// path from the configuration, from the variable or from the flag, stats included.
	{
		sd := filepath.Join(c.Work, "paths")
		os.RemoveAll(sd)
		run.WriteFiles(sd, map[string]string{
			"deep/book_t.yaml": "marker_db_target:\n  x: 1\nsecond:\n  x: 2\nthird:\n  x: 3\n", "deep/log_t.yaml": "2021/01/24:\n  marker_log_target: 1\n2021/01/25:\n  marker_log_target: 2\n",
			"book_t.yaml": "marker_db_decoy:\n  x: 1\n", "log_t.yaml": "2021/01/24:\n  marker_log_decoy: 1\n", "deep/inner/keep": "",
			// files whose names are what other programs use for "standard input" / an option
			"dash/-": "marker_db_target:\n  x: 1\nsecond:\n  x: 2\nthird:\n  x: 3\n", "dashlog/-": "2021/01/24:\n  marker_log_target: 1\n2021/01/25:\n  marker_log_target: 2\n",
		})
		os.Symlink(filepath.Join("deep", "inner"), filepath.Join(sd, "lnk"))
		for _, shape := range []struct{ what, db, log, sub string }{
			{"a path that leaves a symbolic link through ..", "lnk/../book_t.yaml", "lnk/../log_t.yaml", ""},
			{"a path with doubled separators and ./ segments", "deep//./book_t.yaml", "./deep/.//log_t.yaml", ""},
			{"an absolute path that leaves a symbolic link through ..", sd + "/lnk/../book_t.yaml", sd + "/lnk/../log_t.yaml", ""},
			{"a book whose name is a single dash", "-", "../deep/log_t.yaml", "dash"},
			{"a log whose name is a single dash", "../deep/book_t.yaml", "-", "dashlog"},
		} {
			sd := filepath.Join(sd, shape.sub)
			for _, via := range []string{"flag", "env", "config"} {
				var pre []string
				env := map[string]string{}
				switch via {
				case "flag":
					pre = []string{"-d", shape.db, "-l", shape.log}
				case "env":
					env["HR_DATABASE"], env["HR_LOGFILE"] = shape.db, shape.log
				case "config":
					os.WriteFile(filepath.Join(sd, "p.conf"), []byte("[Global]\nDbFileName="+shape.db+"\nLogFileName="+shape.log+"\n"), 0o644)
					pre = []string{"--config", "p.conf"}
				}
				for _, cmd := range [][]string{{"csv", "database"}, {"csv", "log"}, {"stats"}, {"reg"}, {"report", "element-total", "x"}, {"lint", shape.db}} {
					args := append(append([]string{"--no-color"}, pre...), cmd...)
					res := run.Exec(c.HR, args, run.ExecOpts{Dir: sd, Env: env})
					c.Eval(1)
					c.Count("path_shape_cases", 1)
					c.Nontrivial("paths", shape.what, via, joinArgs(cmd))
					bad := ""
					switch cmd[0] {
					case "stats":
						st, _ := obs.ParseStats(res.Out)
						if st.Fields["Database records"] != "3" || st.Fields["Log records"] != "2" {
							bad = fmt.Sprintf("stats counts %q database and %q log records; the files named have 3 and 2", st.Fields["Database records"], st.Fields["Log records"])
						}
					case "lint":
						if !strings.Contains(res.Out, "No errors found") {
							bad = "lint of the named file: " + clip(res.Out+res.Serr, 100)
						}
					default:
						if strings.Contains(res.Out, "decoy") || !strings.Contains(res.Out, "target") {
							bad = fmt.Sprintf("output %q does not come from the named files", clip(res.Out, 100))
						}
					}
					if res.Exit != 0 || bad != "" {
						c.Violation("path|another-file-read", fmt.Sprintf("%s given by %s, %s: exit %d %s %s", shape.what, via, joinArgs(cmd), res.Exit, bad, clip(res.Serr, 100)),
							caseDoc{Args: args, Env: env, Note: shape.what + "; lnk -> deep/inner, the named files are in deep/, decoys with the same base names in the working directory", Observed: resDoc(res)})
					}
				}
			}
		}
	}

	// (3d) a depth far above anything a person types, from each source: the value in effect is the value given,
	// not a smaller one some layer finds reasonable (a book nested 120000 deep under a limit of 120001 / 200000)
	{
		bd := filepath.Join(c.Work, "bigdepth")
		const deep = 120000
		var sb strings.Builder
		for i := deep; i >= 1; i-- {
			if i == deep {
				fmt.Fprintf(&sb, "r%06d:\n  x: 1\n", i)
			} else {
				fmt.Fprintf(&sb, "r%06d:\n  r%06d: 1\n", i, i+1)
			}
		}
		run.WriteFiles(bd, map[string]string{"deep.yaml": sb.String(), "log.yaml": "", "d1.conf": fmt.Sprintf("[Resolver]\nMaxDepth=%d\n", deep+1), "d2.conf": "[Resolver]\nMaxDepth=200000\n"})
		for vi, v := range []struct {
			what string
			args []string
			env  map[string]string
		}{
			{"--maxdepth 200000", []string{"--maxdepth", "200000"}, nil},
			{fmt.Sprintf("HR_MAXDEPTH=%d", deep+1), nil, map[string]string{"HR_MAXDEPTH": fmt.Sprint(deep + 1)}},
			{"MaxDepth=200000 in the configuration file", []string{"--config", "d2.conf"}, nil},
			{fmt.Sprintf("--maxdepth %d over MaxDepth=200000 in the configuration file (must fail)", deep), []string{"--config", "d2.conf", "--maxdepth", fmt.Sprint(deep)}, nil},
		} {
			args := append(append([]string{"--no-color", "-d", "deep.yaml", "-l", "log.yaml"}, v.args...), "report", "element-total", "x")
			res := run.Exec(c.HR, args, run.ExecOpts{Dir: bd, Env: v.env, Timeout: 180 * time.Second})
			c.Eval(1)
			c.Count("very_large_depth_cases", 1)
			c.Nontrivial("bigdepth", v.what)
			wantFail := vi == 3
			if res.TimedOut {
				c.Inconclusive("very-large-depth", v.what+": watchdog")
				continue
			}
			if (res.Exit != 0) != wantFail || (!wantFail && strings.Count(res.Out, "\n") != deep) {
				c.Violation("maxdepth|wrong-value-in-effect", fmt.Sprintf("a book nested %d deep under %s: exit %d, %d rows, %s", deep, v.what, res.Exit, strings.Count(res.Out, "\n"), clip(res.Serr, 120)),
					caseDoc{Args: args, Env: v.env, Note: fmt.Sprintf("deep.yaml: r000001 -> r000002 -> ... -> r%06d -> x", deep), Observed: map[string]any{"exit": res.Exit, "stderr": clip(res.Serr, 300), "rows": strings.Count(res.Out, "\n")}})
			}
		}
	}

	// (4) --no-database behaves as an empty book; a food.yaml decoy in the cwd must not be read
	logText := "2021/01/24:\n  marker_db_default: 2\n  other: 1\n"
	os.WriteFile(filepath.Join(e.dir, "nodb.yaml"), []byte(logText), 0o644)
	nodbDir := filepath.Join(c.Work, "nodb-without-food")
	run.WriteFiles(nodbDir, map[string]string{"nodb.yaml": logText, "empty.yaml": ""})
	for _, cmd := range [][]string{{"reg"}, {"bal"}, {"report", "totals"}, {"report", "unresolved"}, {"summary", "2021/01/24"}, {"bal", "-s", "x"}, {"csv", "database"}, {"csv", "database-resolved"}, {"report", "element-total", "x"}} {
		for _, dir := range []string{e.dir, nodbDir} {
			for _, extra := range [][]string{nil, {"-d", "food.yaml"}} {
				ref := run.Exec(c.HR, append([]string{"--no-color", "-l", "nodb.yaml", "-d", "empty.yaml"}, cmd...), run.ExecOpts{Dir: dir})
				args := append(append([]string{"--no-color", "-l", "nodb.yaml", "--no-database"}, extra...), cmd...)
				res := run.Exec(c.HR, args, run.ExecOpts{Dir: dir})
				c.Eval(2)
				c.Count("no_database_cases", 1)
				c.Nontrivial("nodb", dir, joinArgs(args))
				if res.Out != ref.Out || res.Exit != ref.Exit {
					where := "a food.yaml decoy is in the working directory"
					if dir == nodbDir {
						where = "no food.yaml in the working directory"
					}
					c.Violation("no-database|differs-from-empty-book", fmt.Sprintf("%s (%s): exit %d output %q; with an empty book: exit %d output %q", joinArgs(args), where, res.Exit, clip(res.Out+res.Serr, 120), ref.Exit, clip(ref.Out, 120)),
						caseDoc{Args: args, Note: where, Expected: resDoc(ref), Observed: resDoc(res)})
				}
			}
		}
	}
	// (5) the date layout in effect is the one every heading is written in, heading by heading (round 12, K16: a
	// memo of the last formatted heading keyed by second and offset): layouts that show more than the second, set
	// by flag, by variable and by configuration file; neighbouring headings inside one second, and the same
	// wall-clock time under two zone abbreviations of one offset
	fineDir := filepath.Join(c.Work, "fine-layouts")
	for li, lc := range []struct {
		layout string
		stamps []string
	}{
		{"2006/01/02 15:04:05.000", []string{"2021/01/01 10:00:00.250", "2021/01/01 10:00:00.750", "2021/01/01 10:00:01.000", "2021/01/01 10:00:01.999", "2021/01/02 10:00:01.999"}},
		{"2006-01-02 15:04:05.000000000", []string{"2021-01-01 23:59:59.000000001", "2021-01-01 23:59:59.000000002", "2021-01-01 23:59:59.999999999", "2021-01-02 00:00:00.000000000"}},
		{"2006/01/02 15:04 MST", []string{"2021/01/01 10:00 UTC", "2021/01/01 10:00 GMT", "2021/01/01 10:00 UTC", "2021/01/01 10:01 GMT"}},
		{"2006/01/02 15:04:05 -0700", []string{"2021/01/01 10:00:00 +0100", "2021/01/01 09:00:00 +0000", "2021/01/01 04:00:00 -0500", "2021/01/01 10:00:00 +0100"}},
	} {
		var sb strings.Builder
		for k, st := range lc.stamps {
			fmt.Fprintf(&sb, "%s:\n  bread: %d\n", st, k+1)
		}
		files := map[string]string{"food.yaml": "bread:\n  kcal: 2\n", "log.yaml": sb.String(), "fine.conf": "[Global]\nDateFormat=" + lc.layout + "\n"}
		run.WriteFiles(fineDir, files)
		for _, src := range []string{"flag", "env", "conf"} {
			for _, cmd := range [][]string{{"reg"}, {"reg", "--use-old-reg-reporter"}, {"reg", "--internal-template-name", "left-aligned"}, {"reg", "--totals-only"}, {"reg", "-s", "kcal"}, {"reg", "-f", "bread"}, {"print"}} {
				args := []string{"--no-color", "-d", "food.yaml", "-l", "log.yaml"}
				env := map[string]string{"TZ": "UTC"}
				switch src {
				case "flag":
					args = append(args, "--date-format", lc.layout)
				case "env":
					env["HR_DATE_FORMAT"] = lc.layout
				default:
					args = append(args, "--config", "fine.conf")
				}
				args = append(args, cmd...)
				res := run.Exec(c.HR, args, run.ExecOpts{Dir: fineDir, Env: env})
				c.Eval(1)
				c.Count("date_layouts_finer_than_a_second_runs", 1)
				c.Nontrivial("fine", fmt.Sprint(li), src, joinArgs(cmd))
				rest, missing := res.Out, ""
				for _, st := range lc.stamps {
					k := strings.Index(rest, st)
					if k < 0 {
						missing = st
						break
					}
					rest = rest[k+len(st):]
				}
				if res.Exit != 0 || missing != "" {
					c.Violation("date-format|heading-not-written-in-the-layout-in-effect", fmt.Sprintf("%s with layout %q set by %s: exit %d, heading %q is not in the report after the headings before it", joinArgs(cmd), lc.layout, src, res.Exit, missing),
						caseDoc{Files: files, Args: args, Env: env, Observed: resDoc(res)})
				}
			}
		}
	}
}
