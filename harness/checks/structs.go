package checks

import (
	"fmt"
	"math/big"
	"math/rand"
	"strings"

	shared "github.com/aquilax/hranoprovod-cli/v3"
	"github.com/aquilax/hranoprovod-cli/v3/resolver"

	"verif/harness/gen"
	"verif/harness/model"
)

// The exhaustive structure space shared by C01 and C11: three recipe names and
// two basic names; each recipe's ingredient set is any subset of the five
// names (2^15 = 32768 books: every self-loop, 2-cycle, 3-cycle, diamond, chain).
// Every edge carries its own prime coefficient, so a sum of products identifies
// the set of paths that produced it; seed-chosen edges are negative, zero or ½.

var structNames = [5]string{"ra", "rb", "rc", "x", "y"}

var structPrimes = [3][5]int{{2, 3, 5, 7, 11}, {13, 17, 19, 23, 29}, {31, 37, 41, 43, 47}}

type edgeMods [3][5]int // 0: +p, 1: −p, 2: 0, 3: p/2

func newEdgeMods(r *rand.Rand) edgeMods {
	var m edgeMods
	for i := range m {
		for j := range m[i] {
			switch k := r.Intn(10); {
			case k < 5:
				m[i][j] = 0
			case k < 7:
				m[i][j] = 1
			case k < 8:
				m[i][j] = 2
			default:
				m[i][j] = 3
			}
		}
	}
	return m
}

// structBook builds structure s (15 bits) as an abstract book in declaration order ra, rb, rc.
func structBook(s int, m edgeMods) gen.Book {
	b := make(gen.Book, 3)
	for i := 0; i < 3; i++ {
		b[i].Name = structNames[i]
		for j := 0; j < 5; j++ {
			if s>>(5*i+j)&1 == 1 {
				p := structPrimes[i][j]
				var v gen.Num
				switch m[i][j] {
				case 0:
					v = gen.Half(2 * p)
				case 1:
					v = gen.Half(-2 * p)
				case 2:
					v = gen.Half(0)
				default:
					v = gen.Half(p)
				}
				b[i].Ents = append(b[i].Ents, gen.Ent{Name: structNames[j], Val: v})
			}
		}
	}
	return b
}

var perms3 = [6][3]int{{0, 1, 2}, {0, 2, 1}, {1, 0, 2}, {1, 2, 0}, {2, 0, 1}, {2, 1, 0}}

// buildDB inserts the book's recipes into a fresh DBNodeMap in the given order.
func buildDB(b gen.Book, order []int) shared.DBNodeMap {
	db := shared.NewDBNodeMap()
	for _, i := range order {
		rec := b[i]
		n := shared.NewParserNode(rec.Name)
		for _, e := range rec.Ents {
			n.Elements.Add(e.Name, e.Val.F())
		}
		db.Push(shared.NewDBNodeFromNode(n))
	}
	return db
}

// buildDBShared builds the same book the way a caller does that keeps all ingredient lines in one table and gives
// every recipe a window of it (table[a:b]): the lists of different recipes lie next to each other in one backing
// array, each with spare capacity that reaches into its neighbours. Every fifth recipe is additionally entered from
// one parsed node used twice (the second under its own name again: the later Push wins, the lists are shared).
func buildDBShared(b gen.Book, order []int) shared.DBNodeMap {
	total := 0
	for _, rec := range b {
		total += len(rec.Ents)
	}
	table := make(shared.Elements, 0, total)
	db := shared.NewDBNodeMap()
	for k, i := range order {
		rec := b[i]
		start := len(table)
		for _, e := range rec.Ents {
			table = append(table, shared.NewElement(e.Name, e.Val.F()))
		}
		n := shared.NewParserNode(rec.Name)
		n.Elements = table[start:len(table)]
		db.Push(shared.NewDBNodeFromNode(n))
		if k%5 == 4 {
			db.Push(shared.NewDBNodeFromNode(n))
		}
	}
	return db
}

// resolveVia runs one of the two public entry points (entry 2 and 3: the same two on a book built by buildDBShared).
func resolveVia(entry int, db shared.DBNodeMap, maxDepth int) error {
	entry %= 2
	if entry == 0 {
		_, err := resolver.Resolve(resolver.Config{MaxDepth: maxDepth}, db)
		return err
	}
	return resolver.NewResolver(db, resolver.Config{MaxDepth: maxDepth}).Resolve()
}

func bookText(b gen.Book) string { return gen.RenderBook(b, nil) }

func orderStr(o []int) string { return strings.Trim(fmt.Sprint(o), "[]") }

// compareResolved checks a resolved DBNodeMap against the model. exact: values
// must be bit-exact; otherwise |got − exact| ≤ 1e-12·Σ_paths|Π|.
func compareResolved(db shared.DBNodeMap, b gen.Book, want model.Resolved, absPaths map[string]map[string]*big.Rat, exact bool) (class, msg string) {
	def := b.Defined()
	if len(db) != len(want) {
		return "keys-changed", fmt.Sprintf("map has %d recipes, book defines %d", len(db), len(want))
	}
	for name, es := range want {
		node, ok := db[name]
		if !ok {
			return "keys-changed", fmt.Sprintf("recipe %q missing after resolve", name)
		}
		if node.Header != name {
			return "keys-changed", fmt.Sprintf("recipe %q has header %q", name, node.Header)
		}
		for i, e := range node.Elements {
			if def[e.Name] {
				return "unexpanded", fmt.Sprintf("recipe %q still lists recipe %q", name, e.Name)
			}
			if i > 0 && !(node.Elements[i-1].Name < e.Name) {
				return "not-sorted-unique", fmt.Sprintf("recipe %q: element %q after %q", name, e.Name, node.Elements[i-1].Name)
			}
		}
		if len(node.Elements) != len(es) {
			return "element-set", fmt.Sprintf("recipe %q: got elements %v, want %d elements %v", name, node.Elements, len(es), elemNames(es))
		}
		for i, e := range es {
			g := node.Elements[i]
			if g.Name != e.Name {
				return "element-set", fmt.Sprintf("recipe %q: got element %q, want %q", name, g.Name, e.Name)
			}
			gr := ratOfFloat(g.Value)
			if gr == nil {
				return "value", fmt.Sprintf("recipe %q element %q: non-finite %v", name, g.Name, g.Value)
			}
			if exact {
				if gr.Cmp(e.V) != 0 {
					return "value", fmt.Sprintf("recipe %q element %q: got %v, want %s", name, g.Name, g.Value, rs(e.V))
				}
			} else {
				tol := new(big.Rat).Mul(big.NewRat(1, 1000000000000), absPaths[name][e.Name])
				if absDiff(gr, e.V).Cmp(tol) > 0 {
					return "value", fmt.Sprintf("recipe %q element %q: got %v, want %s (tolerance %s)", name, g.Name, g.Value, rs(e.V), tol.FloatString(15))
				}
			}
		}
	}
	return "", ""
}

func elemNames(es []model.Elem) []string {
	var out []string
	for _, e := range es {
		out = append(out, e.Name+"="+rs(e.V))
	}
	return out
}

func snapshotDB(db shared.DBNodeMap) string {
	var sb strings.Builder
	for _, k := range sortedKeys(db) {
		fmt.Fprintf(&sb, "%s:", k)
		for _, e := range db[k].Elements {
			fmt.Fprintf(&sb, " %s=%v", e.Name, e.Value)
		}
		sb.WriteString("\n")
	}
	return sb.String()
}
