//go:build race

package checks

const raceEnabled = true
