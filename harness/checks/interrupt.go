package checks

import (
	"fmt"
	"path/filepath"
	"strings"
	"syscall"
	"time"

	"verif/harness/core"
	"verif/harness/run"
)

// interruptedRuns: the program is sent a terminating signal (INT: ctrl-C, TERM, HUP: the terminal went away)
// while it is in the middle of a report - its log or book comes from a named pipe that has delivered half of
// the file and stays open. Whatever the program does about the signal, a run that ends with status 0 has
// written the complete report: success is never reported for a report cut short.
// cmds: command -> which of its files comes from the pipe ("log" or "book").
func interruptedRuns(c *core.Ctx, cmds map[string]string) {
	dir := filepath.Join(c.Work, "interrupted")
	var log, book strings.Builder
	for d := 0; d < 3000; d++ {
		fmt.Fprintf(&log, "%04d/%02d/%02d:\n  bread, \"dark\": %d\n  r%03d: 1.5\n", 2000+d/336, 1+(d/28)%12, 1+d%28, 1+d%9, d%400)
	}
	for k := 0; k < 3000; k++ {
		fmt.Fprintf(&book, "r%03d:\n  kcal: %d\n  fat, \"total\": 0.%d\n", k, 100+k, 1+k%9)
	}
	files := map[string]string{"log.yaml": log.String(), "food.yaml": book.String()}
	if err := run.WriteFiles(dir, files); err != nil {
		c.HarnessError(err.Error())
		return
	}
	for _, name := range sortedKeys(cmds) {
		which := cmds[name]
		cmd := strings.Fields(name)
		base := []string{"--no-color", "-d", "food.yaml", "-l", "log.yaml"}
		ref := run.Exec(c.HR, append(append([]string{}, base...), cmd...), run.ExecOpts{Dir: dir})
		if ref.Exit != 0 || len(ref.Out) < 100 {
			c.HarnessError(fmt.Sprintf("interrupted runs: reference run of %s: exit %d, %d bytes", name, ref.Exit, len(ref.Out)))
			continue
		}
		text, fifoArgs := files["log.yaml"], []string{"--no-color", "-d", "food.yaml", "-l", "pipe.yaml"}
		if which == "book" {
			text, fifoArgs = files["food.yaml"], []string{"--no-color", "-d", "pipe.yaml", "-l", "log.yaml"}
		}
		half := strings.Index(text[len(text)/2:], "\n") + len(text)/2 + 1
		for _, sig := range []syscall.Signal{syscall.SIGINT, syscall.SIGTERM, syscall.SIGHUP} {
			args := append(append([]string{}, fifoArgs...), cmd...)
			res, delivered, ok := run.ExecInterrupted(c.HR, args, run.ExecOpts{Dir: dir}, "pipe.yaml", text[:half], text[half:], sig)
			c.Eval(1)
			if !ok || res.TimedOut {
				c.Inconclusive("interrupted-runs", fmt.Sprintf("%s with %v: the scenario could not be set up (pipe opened: %v, watchdog: %v)", name, sig, ok, res.TimedOut))
				continue
			}
			c.Count("interrupted_runs", 1)
			if delivered {
				c.Count("interrupted_runs_with_half_of_the_file_delivered", 1)
			}
			if res.Exit != 0 {
				c.Count("interrupted_runs_ending_non_zero", 1)
			}
			c.Nontrivial("interrupted", name, sig.String())
			if res.Exit == 0 && res.Out != ref.Out {
				c.Violation(name+"|success-after-an-interrupted-report", fmt.Sprintf("%s, %v sent while the %s had delivered half of its %d bytes: exit status 0 with %d of %d bytes of the report", name, sig, which, len(text), len(res.Out), len(ref.Out)),
					caseDoc{Args: args, Note: fmt.Sprintf("pipe.yaml is a named pipe that delivers the first %d bytes of the %s (3000 generated records), stays open, and delivers the rest after signal %v was sent", half, which, sig),
						Expected: "non-zero exit status, or the complete report", Observed: map[string]any{"exit": res.Exit, "signal": res.Signal, "stdout_bytes": len(res.Out), "complete_report_bytes": len(ref.Out), "stderr": clip(res.Serr, 500), "stdout_tail": clip(res.Out[max(0, len(res.Out)-200):], 300)}})
			}
		}
	}
}

// pausedPipes: the log or the book comes through a named pipe whose writer falls silent in the middle for longer
// than any idle limit a reader might have (31 s; thorough: also 65 s) and then goes on. A silent writer is not the
// end of the file: the report is the report of the whole text, or the command fails. Started in the background by
// the checks that use it (returns a function that waits for the verdicts), so that the pause costs no extra time.
// cmds: command -> which of its files comes from the pipe ("log" or "book").
func pausedPipes(c *core.Ctx, cmds map[string]string) (wait func()) {
	dir := filepath.Join(c.Work, "paused-pipes")
	var log, book strings.Builder
	for d := 0; d < 60; d++ {
		fmt.Fprintf(&log, "%04d/%02d/%02d:\n  bread, \"dark\": %d\n  r%03d: 1.5\n", 2021, 1+(d/28)%12, 1+d%28, 1+d%9, d%40)
	}
	for k := 0; k < 60; k++ {
		fmt.Fprintf(&book, "r%03d:\n  kcal: %d\n  fat, \"total\": 0.%d\n", k, 100+k, 1+k%9)
	}
	files := map[string]string{"log.yaml": log.String(), "food.yaml": book.String()}
	done := make(chan struct{})
	pauses := []time.Duration{31 * time.Second}
	if !c.Quick() {
		pauses = append(pauses, 65*time.Second)
	}
	go func() {
		defer close(done)
		if err := run.WriteFiles(dir, files); err != nil {
			c.HarnessError(err.Error())
			return
		}
		type job struct {
			name  string
			pause time.Duration
		}
		var jobs []job
		for _, name := range sortedKeys(cmds) {
			for _, p := range pauses {
				jobs = append(jobs, job{name, p})
			}
		}
		core.ParallelFor(len(jobs), len(jobs), func(_, i int) {
			name, pause := jobs[i].name, jobs[i].pause
			which := cmds[name]
			cmd := strings.Fields(name)
			fifo := fmt.Sprintf("pipe%d.yaml", i)
			base := []string{"--no-color", "-d", "food.yaml", "-l", "log.yaml"}
			ref := run.Exec(c.HR, append(append([]string{}, base...), cmd...), run.ExecOpts{Dir: dir})
			text, fifoArgs := files["log.yaml"], []string{"--no-color", "-d", "food.yaml", "-l", fifo}
			if which == "book" {
				text, fifoArgs = files["food.yaml"], []string{"--no-color", "-d", fifo, "-l", "log.yaml"}
			}
			half := strings.Index(text[len(text)/2:], "\n") + len(text)/2 + 1
			args := append(append([]string{}, fifoArgs...), cmd...)
			res, ok := run.ExecPausedPipe(c.HR, args, run.ExecOpts{Dir: dir}, fifo, text[:half], text[half:], pause)
			c.Eval(2)
			if !ok || res.TimedOut || ref.Exit != 0 {
				c.Inconclusive("paused-pipes", fmt.Sprintf("%s: the scenario could not be set up (pipe opened: %v, watchdog: %v, reference exit %d)", name, ok, res.TimedOut, ref.Exit))
				return
			}
			c.Count("runs_on_a_pipe_whose_writer_pauses", 1)
			c.Nontrivial("paused-pipe", name, pause.String())
			if res.Exit == 0 && res.Out != ref.Out {
				c.Violation(name+"|success-on-a-prefix-after-a-silent-writer", fmt.Sprintf("%s, the %s through a named pipe whose writer pauses for %v after %d of %d bytes: exit status 0 with %d bytes of report, the whole text gives %d", name, which, pause, half, len(text), len(res.Out), len(ref.Out)),
					caseDoc{Args: args, Note: fmt.Sprintf("%s is a named pipe; its writer delivers %d bytes, is silent for %v with the pipe open, then delivers the rest and closes", fifo, half, pause),
						Expected: "the report of the whole text, or a non-zero exit status", Observed: map[string]any{"exit": res.Exit, "stdout_bytes": len(res.Out), "complete_report_bytes": len(ref.Out), "stderr": clip(res.Serr, 400)}})
			}
		})
	}()
	return func() { <-done }
}
