package checks

import (
	"encoding/json"
	"fmt"
	"os"
	"strings"

	shared "github.com/aquilax/hranoprovod-cli/v3"
	"github.com/aquilax/hranoprovod-cli/v3/parser"

	"verif/harness/core"
	"verif/harness/run"
)

// genericReplay re-runs one recorded case against the freshly built program / library and
// prints what it observes now next to what was recorded. Three shapes of cases are understood:
//   - files + args (+ env): the real binary in a fresh process;
//   - book + max_depth (+ insertion_order, entry_point): the library resolver;
//   - file (+ fail_at_offset, chunk): the library parser behind a counting reader.
func genericReplay(c *core.Ctx, raw []byte) error {
	var d struct {
		Files    map[string]string `json:"files"`
		Args     []string          `json:"args"`
		Env      map[string]string `json:"env"`
		Note     string            `json:"note"`
		Expected any               `json:"expected"`
		Observed any               `json:"observed"`
		Book     string            `json:"book"`
		Depth    int               `json:"max_depth"`
		Entry    int               `json:"entry_point"`
		File     *string           `json:"file"`
		FailAt   *int              `json:"fail_at_offset"`
		Chunk    int               `json:"chunk"`
		Partial  bool              `json:"error_with_data"`
		Comment  int               `json:"comment_char"`
	}
	if err := json.Unmarshal(raw, &d); err != nil {
		return err
	}
	// strings that were not valid UTF-8 when recorded come back byte for byte
	for k, v := range d.Files {
		delete(d.Files, k)
		d.Files[core.UnsafeString(k)] = core.UnsafeString(v)
	}
	for i := range d.Args {
		d.Args[i] = core.UnsafeString(d.Args[i])
	}
	for k, v := range d.Env {
		d.Env[k] = core.UnsafeString(v)
	}
	d.Book = core.UnsafeString(d.Book)
	if d.File != nil {
		f := core.UnsafeString(*d.File)
		d.File = &f
	}
	switch {
	case len(d.Args) > 0 && (len(d.Files) > 0 || d.Book == ""):
		dir := c.Work + "/replay"
		if err := run.WriteFiles(dir, d.Files); err != nil {
			return err
		}
		args := d.Args
		var prefix []string
		for i, a := range args {
			if strings.HasSuffix(a, "/hr") || a == c.HR {
				prefix, args = args[:i], args[i+1:]
				break
			}
		}
		res := run.Exec(c.HR, args, run.ExecOpts{Dir: dir, Env: d.Env, Prefix: prefix})
		fmt.Printf("note: %s\nargv: %q env: %v\nexit: %d signal: %q\n--- stdout ---\n%s--- stderr ---\n%s", d.Note, args, d.Env, res.Exit, res.Signal, res.Out, res.Serr)
		if d.Expected != nil {
			b, _ := json.MarshalIndent(d.Expected, "", " ")
			fmt.Printf("--- recorded expectation ---\n%s\n", b)
		}
		return nil
	case d.Book != "":
		for entry := 0; entry < 2; entry++ {
			if d.Entry >= 0 && entry != d.Entry {
				continue
			}
			db := shared.NewDBNodeMap()
			err := parser.ParseStreamCallback(strings.NewReader(d.Book), parser.NewDefaultConfig(), func(n *shared.ParserNode, err error) (bool, error) {
				if err != nil {
					return true, err
				}
				db.Push(shared.NewDBNodeFromNode(n))
				return false, nil
			})
			if err != nil {
				return err
			}
			depth := d.Depth
			if depth == 0 {
				depth = 10
			}
			rerr := resolveVia(entry, db, depth)
			fmt.Printf("entry point %d, max depth %d: error = %v\n%s", entry, depth, rerr, snapshotDB(db))
		}
		return nil
	case d.File != nil && d.Comment != 0 && d.Comment != '#':
		evs, ret, pnc := parseAllCfg(*d.File, parser.Config{CommentChar: uint8(d.Comment)})
		fmt.Printf("parser configured with comment character %q: returned %v, panic %q\n", rune(d.Comment), ret, pnc)
		for _, e := range evs {
			if e.Err != "" {
				fmt.Println("  err:", e.Err)
			} else {
				fmt.Println("  node:", nodeString(e.Node))
			}
		}
		return nil
	case d.File != nil:
		limit := -1
		if d.FailAt != nil {
			limit = *d.FailAt
		}
		rd := &countingReader{data: []byte(*d.File), limit: limit, chunk: d.Chunk, partial: d.Partial}
		evs, ret, pnc := parseWith(rd)
		fmt.Printf("reader fails at %d (chunk %d): returned %v, panic %q, delivered %d bytes, error delivered %v, EOF delivered %v\n", limit, d.Chunk, ret, pnc, rd.delivered, rd.errd, rd.eof)
		for _, e := range evs {
			if e.Err != "" {
				fmt.Println("  err:", e.Err)
			} else {
				fmt.Println("  node:", nodeString(e.Node))
			}
		}
		return nil
	}
	os.Stdout.Write(raw)
	fmt.Println("\n(no automatic replay for this case shape; the record above is complete)")
	return nil
}

func init() {
	// registered after all checks (file name sorts last among the checks' init functions is not
	// guaranteed, so main() also calls EnsureReplay)
	EnsureReplay()
}

// EnsureReplay gives every check without its own replayer the generic one.
func EnsureReplay() {
	for _, ch := range Registry {
		if ch.Replay == nil {
			ch.Replay = genericReplay
		}
	}
}
