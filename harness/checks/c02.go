package checks

import (
	"fmt"
	"math/big"
	"strings"
	"time"

	"verif/harness/core"
	"verif/harness/gen"
	"verif/harness/model"
	"verif/harness/obs"
	"verif/harness/run"
)

func init() {
	register(&Check{ID: "C02", Level: "exploration", Run: runC02})
}

type regRenderer struct {
	name  string
	args  []string
	parse func(string) ([]obs.RegDay, error)
}

var regRenderers = []regRenderer{
	{"reg", []string{"reg"}, obs.ParseReg},
	{"reg left-aligned", []string{"reg", "--internal-template-name", "left-aligned"}, obs.ParseRegLeft},
	{"reg old-reporter", []string{"reg", "--use-old-reg-reporter"}, obs.ParseReg},
}

// checkReg runs one register renderer on the world's files (already written) and compares with the model.
func checkReg(c *core.Ctx, srv *run.Server, w *World, rr regRenderer, extra []string, days gen.Log, withFoods, withTotals bool) (run.Result, bool) {
	args := w.base(append(append([]string{}, rr.args...), extra...)...)
	if w.Layout != "2006/01/02" {
		args = append([]string{"--date-format", w.Layout}, args...)
	}
	args = respell(c.Rng("spell", len(w.LogText)+len(args)), args)
	res := srv.App1(args, nil)
	c.Eval(1)
	c.Count("runs_"+rr.name, 1)
	doc := caseDoc{Files: w.Files(), Args: args, Observed: resDoc(res)}
	if res.Panic != "" || res.Exit != 0 {
		c.Violation(rr.name+"|fails-on-valid-input", fmt.Sprintf("exit %d err %q %s", res.Exit, res.Err, clip(res.Panic, 300)), doc)
		return res, false
	}
	got, err := rr.parse(res.Out)
	if err != nil {
		c.Violation(rr.name+"|unparsable-output", err.Error(), doc)
		return res, false
	}
	if len(got) != len(days) {
		c.Violation(rr.name+"|day-count", fmt.Sprintf("%d days shown, want %d", len(got), len(days)), doc)
		return res, false
	}
	for i, d := range days {
		want := model.Account(d, w.Res, w.Abs)
		if class, msg := compareRegDay(got[i], want, w.Layout, w.Exact, withFoods, withTotals); class != "" {
			doc.Expected = fmt.Sprintf("%+v", want)
			c.Violation(rr.name+"|"+class, msg, doc)
			return res, false
		}
	}
	return res, true
}

func runC02(c *core.Ctx) {
	c.SetRule("cases: generated (book, log) pairs - nested recipes, 0-6 days in any date order with repeats, repeated foods within a day, negative/zero quantities, foods in and not in the book, elements logged directly that also come from recipes, contributions of both signs, empty recipes, empty days; exact pool (compared exactly) and general decimals (half-unit bound); hostile file layout; five date layouts given by --date-format (headings must be printed in it). Each pair x {reg default, left-aligned, old reporter} + summary DATE for every date of the log. Oracle: rational day-accounting model over the rational resolve model. Non-trivial = log with a recipe food and >= 1 total row; distinct = hash(files, renderer).")
	c.Assume("ingredient rows are compared as a multiset (the property does not fix their order); totals rows as an ordered list")
	pool := newPool(c, c.Procs)
	if pool == nil {
		return
	}
	defer pool.Close()
	n := c.N(1500, 30000)
	core.ParallelFor(n, c.Procs, func(wk, i int) {
		srv := pool.Servers[wk]
		r := c.Rng("world", i)
		layout := []string{"2006/01/02", "2006/01/02", "2006-01-02", "02.01.2006", "Jan 2 2006"}[r.Intn(5)]
		w := newWorld(r, worldOpts{Exact: i%2 == 0, Hostile: i%3 == 0, Notes: true, Layout: layout, AltComment: true})
		srv.Write(w.Files())
		nontrivial := false
		for _, d := range w.Log {
			for _, e := range d.Ents {
				if _, ok := w.Res[e.Name]; ok && len(w.Res[e.Name]) > 0 {
					nontrivial = true
				}
			}
		}
		if i%7 == 3 {
			// one file named as book and as log (a journal whose days are also recipes): each role reads the
			// whole file, exactly as if two copies had been named
			srv.Write(map[string]string{"journal.yaml": w.LogText, "journal2.yaml": w.LogText})
			for _, rr := range regRenderers[:2] {
				pre := []string{"--no-color"}
				if w.Conf != "" {
					pre = append(pre, "--config", "hr.conf")
				}
				if w.Layout != "2006/01/02" {
					pre = append(pre, "--date-format", w.Layout)
				}
				same := srv.App1(append(append(append([]string{}, pre...), "-d", "journal.yaml", "-l", "journal.yaml"), rr.args...), nil)
				twoArgs := append(append(append([]string{}, pre...), "-d", "journal2.yaml", "-l", "journal.yaml"), rr.args...)
				two := srv.App1(twoArgs, nil)
				c.Eval(2)
				c.Count("runs_one_file_in_both_roles", 1)
				if same.Exit != two.Exit || same.Out != two.Out {
					c.Violation(rr.name+"|one-file-in-both-roles", fmt.Sprintf("-d F -l F: exit %d, %d bytes of report; with a copy of F as the book: exit %d, %d bytes", same.Exit, len(same.Out), two.Exit, len(two.Out)),
						caseDoc{Files: map[string]string{"journal.yaml": w.LogText, "journal2.yaml": w.LogText, "hr.conf": w.Conf}, Args: twoArgs, Expected: resDoc(two), Observed: resDoc(same)})
				}
			}
		}
		for ri, rr := range regRenderers {
			res, ok := checkReg(c, srv, w, rr, nil, w.Log, true, true)
			if nontrivial {
				c.Nontrivial(w.BookText, w.LogText, rr.name)
			}
			if i%40 == ri {
				cargs := w.base(rr.args...)
				if w.Layout != "2006/01/02" {
					cargs = append([]string{"--date-format", w.Layout}, cargs...)
				}
				crossCheck(c, srv, cargs, nil, res)
			}
			if i < 2 && ri == 0 && ok {
				c.Sample(map[string]any{"food.yaml": w.BookText, "log.yaml": w.LogText, "args": "reg", "stdout": clip(res.Out, 1200), "exact_pool": w.Exact})
			}
		}
		// summary DATE for each distinct date
		seen := map[gen.Date]bool{}
		for _, d := range w.Log {
			if seen[d.Date] {
				continue
			}
			seen[d.Date] = true
			var sel gen.Log
			for _, dd := range w.Log {
				if dd.Date == d.Date {
					sel = append(sel, dd)
				}
			}
			args := w.base("summary", d.Date.Format(w.Layout))
			if w.Layout != "2006/01/02" {
				args = append([]string{"--date-format", w.Layout}, args...)
			}
			res := srv.App1(args, nil)
			c.Eval(1)
			c.Count("runs_summary", 1)
			doc := caseDoc{Files: w.Files(), Args: args, Observed: resDoc(res)}
			if res.Panic != "" || res.Exit != 0 {
				c.Violation("summary|fails-on-valid-input", fmt.Sprintf("exit %d err %q %s", res.Exit, res.Err, clip(res.Panic, 300)), doc)
				continue
			}
			got, err := obs.ParseSummary(res.Out)
			if err != nil {
				c.Violation("summary|unparsable-output", err.Error(), doc)
				continue
			}
			if len(got) != len(sel) {
				c.Violation("summary|day-count", fmt.Sprintf("%d day blocks for %s, want %d", len(got), d.Date.ISO(), len(sel)), doc)
				continue
			}
			for k, dd := range sel {
				want := model.Account(dd, w.Res, w.Abs)
				g := got[k]
				bad := ""
				if g.Date != dd.Date.Format(w.Layout) {
					bad = fmt.Sprintf("date %q", g.Date)
				} else if len(g.Totals) != len(want.Totals) || len(g.Foods) != len(want.Foods) {
					bad = fmt.Sprintf("%d totals/%d foods, want %d/%d", len(g.Totals), len(g.Foods), len(want.Totals), len(want.Foods))
				} else {
					for x, t := range want.Totals {
						if g.Totals[x].Name != t.Name || !numOK(g.Totals[x].V, t.Pos, 2, t.Abs, w.Exact) {
							bad = fmt.Sprintf("total row %d: (%q,%s), want (%q, positive %s)", x, g.Totals[x].Name, g.Totals[x].Raw, t.Name, rs(t.Pos))
							break
						}
					}
					for x, f := range want.Foods {
						if bad == "" && (g.Foods[x].Name != f.Name || !numOK(g.Foods[x].V, f.Qty, 2, f.QtyAbs, w.Exact)) {
							bad = fmt.Sprintf("food row %d: (%q,%s), want (%q,%s)", x, g.Foods[x].Name, g.Foods[x].Raw, f.Name, rs(f.Qty))
						}
					}
				}
				if bad != "" {
					c.Violation("summary|content", bad, doc)
					break
				}
			}
		}
	})
	// one log larger than any plausible internal cap (18 MiB): every day must still be reported
	{
		var sb strings.Builder
		days := 0
		d := gen.Date{Y: 1990, M: 1, D: 1}
		for sb.Len() < 18<<20 {
			sb.WriteString(d.AddDays(days).Format("2006/01/02") + ":\n")
			for k := 0; k < 40; k++ {
				fmt.Fprintf(&sb, "  snack/number/%02d/with/a/long/name: %d\n", k, 1+k%3)
			}
			sb.WriteString("  kcal: 2\n\n")
			days++
		}
		dir := c.Work + "/large"
		run.WriteFiles(dir, map[string]string{"food.yaml": "", "log.yaml": sb.String()})
		args := []string{"--no-color", "-d", "food.yaml", "-l", "log.yaml", "reg", "-s", "kcal"}
		res := run.Exec(c.HR, args, run.ExecOpts{Dir: dir, Timeout: 120 * time.Second})
		c.Eval(1)
		c.Count("large_log_days", days)
		c.Nontrivial("large-log", fmt.Sprint(days))
		rows, err := obs.ParseRegSingle(res.Out, "kcal")
		bad := ""
		if res.Exit != 0 || err != nil {
			bad = fmt.Sprintf("exit %d, %v, %s", res.Exit, err, clip(res.Serr, 200))
		} else if len(rows) != days {
			bad = fmt.Sprintf("%d of %d days reported", len(rows), days)
		} else if last := rows[len(rows)-1]; last.Date != d.AddDays(days-1).Format("2006/01/02") || last.Sum.Cmp(big.NewRat(2, 1)) != 0 {
			bad = fmt.Sprintf("last row is %s %s", last.Date, rs(last.Sum))
		}
		if bad != "" {
			c.Violation("reg -s|large-log", fmt.Sprintf("log of %d MiB with %d days: %s", sb.Len()>>20, days, bad), caseDoc{Args: args, Note: "generated log: one heading per day from 1990/01/01, 40 foods and 'kcal: 2' per day", Observed: map[string]any{"exit": res.Exit, "stderr": clip(res.Serr, 500), "rows": len(rows)}})
		}
	}
	// the register while another register is alive in the same process
	nestedReports(c, pool, c.N(120, 1500), nestedRegShape)
	// selected day = heading between the bounds as instants, also when heading and bound share a second
	c06SubSecond(c, [][]string{{"reg"}, {"reg", "--csv"}, {"reg", "--use-old-reg-reporter"}})
	// reports produced side by side in goroutines of one process, the program built with the race detector
	parallelReports(c, c.N(40, 500), nestedRegShape)
	jobs, deaths := pool.Stats()
	c.Count("l2_jobs", jobs)
	c.Count("l2_process_deaths", deaths)
	c.Count("l2_priming_runs", pool.Primed())
}
