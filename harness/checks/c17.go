package checks

import (
	"fmt"
	"os"
	"os/exec"
	"path/filepath"
	"strings"
	"time"

	"verif/harness/core"
	"verif/harness/gen"
	"verif/harness/run"
)

func init() {
	register(&Check{ID: "C17", Level: "fault_enumeration", Run: runC17})
}

var c17Cmds = [][]string{
	{"reg"}, {"reg", "--use-old-reg-reporter"}, {"reg", "--internal-template-name", "left-aligned"}, {"reg", "--totals-only"}, {"reg", "--no-totals"}, {"reg", "--shorten"},
	{"reg", "-s", "x"}, {"reg", "-s", "x", "--csv"}, {"reg", "-s", "x", "-g"}, {"reg", "-f", "a"},
	{"bal"}, {"bal", "-c"}, {"bal", "--collapse-last"}, {"bal", "-s", "x"}, {"bal", "-s", "x", "-c"}, {"bal", "-s", "x", "--collapse-last"},
	{"csv", "log"}, {"csv", "database"}, {"csv", "database-resolved"},
	{"print"}, {"summary", "2021/01/24"},
	{"report", "totals"}, {"report", "quantity"}, {"report", "quantity", "--desc"}, {"report", "unresolved"}, {"report", "element-total", "x"},
	{"stats"}, {"lint", "log.yaml"}, {"lint", "food.yaml"}, {"lint", "bad.yaml"}, {"lint", "--silent", "bad.yaml"},
	// further arguments after the file with findings; a file whose first lines come before any heading
	{"lint", "--silent", "bad.yaml", "food.yaml"}, {"lint", "bad.yaml", "log.yaml"}, {"lint", "stray.yaml"}, {"lint", "-s", "stray.yaml"},
	// output options together
	{"reg", "-s", "x", "-g", "--csv"}, {"reg", "-f", "a", "--csv"}, {"reg", "--csv"}, {"reg", "--use-old-reg-reporter", "--totals-only", "--shorten"}, {"bal", "-c", "--collapse-last"},
	// foods selected by pattern whose rows are longer than one output buffer (the long-name inputs below)
	{"reg", "-f", "u"}, {"reg", "-f", "[0uv]"}, {"reg", "-f", "^r", "--csv"},
}

var c17UnshareOnce struct {
	done bool
	ok   bool
}

func c17CanUnshare() bool {
	if !c17UnshareOnce.done {
		c17UnshareOnce.done = true
		c17UnshareOnce.ok = exec.Command("unshare", "-m", "true").Run() == nil
	}
	return c17UnshareOnce.ok
}

func c17Name(cmd []string) string {
	n := strings.Join(cmd[:min(2, len(cmd))], " ")
	if cmd[0] == "summary" || cmd[0] == "lint" {
		n = cmd[0]
	}
	if cmd[0] == "reg" && len(cmd) > 1 && strings.HasPrefix(cmd[1], "--") {
		n = "reg " + cmd[1]
	}
	return n
}

func c17Files(r *core.Ctx, idx int, big bool) map[string]string {
	rr := r.Rng("files", idx)
	b := gen.RandomBook(rr, gen.BookOpts{Recipes: 4, Basics: 2, MaxDepth: 2, Exact: true, RecipeNames: []string{"a/b", "a/c", "d", "e f"}, BasicNames: []string{"x", "y"}, NoEmpty: true})
	days := 2 + rr.Intn(3)
	if big {
		days = 500
	}
	l := gen.RandomLog(rr, gen.LogOpts{Days: days, MaxEnts: 4, Foods: []string{"a/b", "a/c", "d", "e f", "x", "zz", "unknown/food"}, Exact: true, Sorted: true, Start: gen.Date{Y: 2021, M: 1, D: 24}})
	l[0].Date = gen.Date{Y: 2021, M: 1, D: 24}
	if big {
		// a big book too, for csv database*, element-total
		var names []string
		for i := 0; i < 600; i++ {
			names = append(names, fmt.Sprintf("recipe/number/%04d", i))
		}
		b = gen.RandomBook(rr, gen.BookOpts{Recipes: 600, Basics: 2, MaxDepth: 2, Exact: true, RecipeNames: names, BasicNames: []string{"x", "y"}, NoEmpty: true})
		foods := append([]string{"x", "zz"}, names[:300]...)
		l = gen.RandomLog(rr, gen.LogOpts{Days: 500, MaxEnts: 4, Foods: foods, Exact: true, Sorted: true, NoDupFoods: true, Start: gen.Date{Y: 2021, M: 1, D: 24}})
		l[0].Date = gen.Date{Y: 2021, M: 1, D: 24}
	}
	bad := "2021/01/24:\n  ok: 1\n  broken\n  also: 1,5\n\n2021/01/25:\n  x: abc\n"
	if big {
		bad = strings.Repeat("2021/01/24:\n  ok: 1\n  broken line number\n  also: 1,5\n", 300)
	}
	return map[string]string{"food.yaml": gen.RenderBook(b, nil), "log.yaml": gen.RenderLog(l, "2006/01/02", nil), "bad.yaml": bad, "stray.yaml": c17Stray}
}

// entry lines before the first heading belong to no record
const c17Stray = "  stray: 1\n- another: 2\n\tthird: 3\n2021/01/24:\n  apple: 1\n"

func runC17(c *core.Ctx) {
	c.SetRule("faults: every report command shape (31: reg in all variants, bal x3 with/without -s, csv x3, print, summary, report x4, stats, lint with and without findings) x output sink failing from byte offset k: every k in 0..len for reports <= 3000 bytes (exhaustive), for reports of several bufio buffers and for inputs whose names are longer than one output buffer (4096..9000 bytes) k in {0, 1, multiples of 4096 -1/0/+1, len-1, 64 PRNG-chosen offsets}; plus the real binary (incl. gen man/markdown) with stdout = /dev/full, a pipe closed before the first write / at once / after 4 KiB, a regular file opened read-only, a file on a full tmpfs, a file under ulimit -f. Invariants on the counting sink: the sink returned an error to a Write => non-zero exit; exit 0 => the complete report was accepted. Non-trivial = run in which the sink did return an error (counted by the wrapper); distinct = hash(files, argv, k).")
	c.Assume("--help/--version are printed by the CLI library and are not reports")
	pool := newPool(c, c.Procs)
	if pool == nil {
		return
	}
	defer pool.Close()
	// plus command shapes drawn from the catalogue (flag combinations nobody listed by hand)
	{
		r := c.Rng("shapes", 0)
		have := map[string]bool{}
		for _, cmd := range c17Cmds {
			have[joinArgs(cmd)] = true
		}
		for n := 0; n < 8; {
			sp := randomCmd(r, "x", "a", "2021/01/24")
			if !have[joinArgs(sp.Args)] {
				have[joinArgs(sp.Args)] = true
				c17Cmds = append(c17Cmds, sp.Args)
				n++
			}
		}
	}
	type job struct {
		world int
		cmd   int
		k     int
		full  int
	}
	nsmall := c.N(2, 8)
	var worlds []map[string]string
	for i := 0; i < nsmall; i++ {
		worlds = append(worlds, c17Files(c, i, false))
	}
	// names longer than one output buffer: writes that bypass the buffer
	long := func(n int, ch string) string { return strings.Repeat(ch, n) }
	worlds = append(worlds, map[string]string{
		"food.yaml": "a/b:\n  x: 1\n  " + long(5000, "e") + ": 2\n\n" + long(4096, "r") + ":\n  x: 3\n",
		"log.yaml":  "2021/01/24:\n  " + long(5000, "u") + ": 1\n  aa: 2\n  " + long(8200, "v") + ": 3\n  a/b: 1\n  " + long(4096, "r") + ": 2\n",
		"bad.yaml":  "2021/01/24:\n  " + long(6000, "m") + "\n  ok: 1\n  " + long(9000, "n") + ": x\n", "stray.yaml": c17Stray,
	})
	// the same with the long names sorting first (the first line of a sorted report bypasses the buffer)
	worlds = append(worlds, map[string]string{
		"food.yaml": long(4200, "0") + ":\n  x: 3\n  " + long(4300, "1") + ": 2\n\nzz/b:\n  x: 1\n",
		"log.yaml":  "2021/01/24:\n  " + long(4200, "0") + ": 2\n  00" + long(5000, "u") + ": 1\n  zz/b: 2\n  x: 1\n",
		"bad.yaml":  "2021/01/24:\n  " + long(6000, "m") + "\n", "stray.yaml": c17Stray,
	})
	long2Idx := len(worlds) - 1
	longIdx := len(worlds) - 2
	// logs of exactly 512 and 1024 records (round numbers at which a batching writer hands over), one entry a day
	for _, nd := range []int{512, 1024} {
		var sb strings.Builder
		d0 := gen.Date{Y: 2019, M: 1, D: 1}
		for k := 0; k < nd; k++ {
			fmt.Fprintf(&sb, "%s:\n  a/b: %d\n", d0.AddDays(k).Format("2006/01/02"), 1+k%7)
		}
		worlds = append(worlds, map[string]string{"food.yaml": "a/b:\n  x: 1\n  y: 2\n", "log.yaml": sb.String(), "bad.yaml": "2021/01/24:\n  broken\n", "stray.yaml": c17Stray})
	}
	round2Idx, round1Idx := len(worlds)-1, len(worlds)-2
	worlds = append(worlds, c17Files(c, 1000, true))
	bigIdx := len(worlds) - 1
	// degenerate shapes of the single-element reports (round 13, L17: a shortcut in bal -s for a tree that is one leaf
	// named like the element returned without looking at the flush error): the element only ever logged directly under
	// its own name, alone and next to one other food; appended after the large world, every offset
	worlds = append(worlds,
		map[string]string{"food.yaml": "a/b:\n  y: 1\n", "log.yaml": "2021/01/24:\n  x: 2\n2021/01/25:\n  x: 1.5\n", "bad.yaml": "2021/01/24:\n  broken\n", "stray.yaml": c17Stray},
		map[string]string{"food.yaml": "x:\n", "log.yaml": "2021/01/24:\n  x: 2\n", "bad.yaml": "2021/01/24:\n  broken\n", "stray.yaml": c17Stray},
		map[string]string{"food.yaml": "", "log.yaml": "2021/01/24:\n  x: 2\n  a: 1\n", "bad.yaml": "2021/01/24:\n  broken\n", "stray.yaml": c17Stray})
	pre := []string{"--no-color", "-d", "food.yaml", "-l", "log.yaml", "--today", "2021/02/01"}
	fullOut := map[[2]int]string{}
	var jobs []job
	exhaustiveCmds := 0
	for wi, files := range worlds {
		srv := pool.Servers[0]
		srv.Write(files)
		for ci, cmd := range c17Cmds {
			res := srv.Fault(run.FaultJob{Args: append(append([]string{}, pre...), cmd...), SinkLimit: -1}, nil)
			if res.Died != "" || res.Panic != "" || (res.Exit != 0 && cmd[0] != "lint") {
				c.HarnessError(fmt.Sprintf("fault-free run of %v failed: exit %d %s %s %s", cmd, res.Exit, res.Err, res.Panic, res.Died))
				return
			}
			L := len(res.Out)
			fullOut[[2]int{wi, ci}] = res.Out
			if wi != bigIdx && wi != longIdx && wi != long2Idx && wi != round1Idx && wi != round2Idx {
				if L <= 3000 {
					exhaustiveCmds++
					for k := 0; k <= L; k++ {
						jobs = append(jobs, job{wi, ci, k, L})
					}
				}
			} else {
				ks := map[int]bool{0: true, 1: true, L - 1: true, L: true}
				for m := 4096; m < L; m += 4096 {
					ks[m-1], ks[m], ks[m+1] = true, true, true
				}
				r := c.Rng("bigk", ci)
				for x := 0; x < 64 && L > 2; x++ {
					ks[r.Intn(L)] = true
				}
				for k := range ks {
					if k >= 0 && k <= L {
						jobs = append(jobs, job{wi, ci, k, L})
					}
				}
				c.Max("largest_report_bytes", L)
			}
		}
	}
	c.Count("exhaustive_offset_command_runs", exhaustiveCmds)
	last := make([]int, c.Procs)
	for i := range last {
		last[i] = -1
	}
	core.ParallelFor(len(jobs), c.Procs, func(wk, ji int) {
		j := jobs[ji]
		srv := pool.Servers[wk]
		if last[wk] != j.world {
			srv.Write(worlds[j.world])
			last[wk] = j.world
		}
		cmd := c17Cmds[j.cmd]
		args := append(append([]string{}, pre...), cmd...)
		// the kind of error the sink returns rotates: a made-up error value and the real ones of a pipe whose reader is
		// gone, a full device and a closed file (what a command does with an error must not depend on its kind)
		kind := []string{"", "epipe", "enospc", "closed"}[(j.k+j.cmd)%4]
		res := srv.Fault(run.FaultJob{Args: args, SinkLimit: j.k, SinkKind: kind}, nil)
		c.Eval(1)
		c.Count("sink_error_kind_"+map[string]string{"": "synthetic", "epipe": "EPIPE", "enospc": "ENOSPC", "closed": "closed_file"}[kind], 1)
		name := c17Name(cmd)
		files := worlds[j.world]
		if j.world == bigIdx {
			files = map[string]string{"note": "large generated files (500 days, 600 recipes), see c17Files"}
		}
		if j.world == longIdx || j.world == long2Idx {
			files = map[string]string{"note": "names of 4096, 5000, 6000, 8200 and 9000 bytes (longer than one output buffer), see runC17"}
		}
		doc := caseDoc{Files: files, Args: args, Note: fmt.Sprintf("sink fails from byte %d of %d with error kind %q", j.k, j.full, kind),
			Observed: map[string]any{"exit": res.Exit, "err": res.Err, "accepted": res.Accepted, "sink_errors": res.SinkErrs, "writes": res.Writes, "panic": clip(res.Panic, 1000), "died": clip(res.Died, 1000)}}
		lintFindings := cmd[0] == "lint" && strings.Contains(strings.Join(cmd, " "), "bad.yaml")
		switch {
		case res.Died != "" || res.Panic != "":
			c.Violation(name+"|crash-on-write-fault", clip(res.Died+res.Panic, 300), doc)
		case res.SinkErrs > 0 && res.Exit == 0:
			c.Violation(name+"|write-error-dropped", fmt.Sprintf("%s: the sink failed at byte %d of %d, exit 0", joinArgs(cmd), j.k, j.full), doc)
		case res.Exit == 0 && res.Out != fullOut[[2]int{j.world, j.cmd}]:
			c.Violation(name+"|success-with-partial-report", fmt.Sprintf("%s: exit 0 but only %d of %d bytes were written", joinArgs(cmd), res.Accepted, j.full), doc)
		case res.SinkErrs == 0 && res.Exit != 0 && !lintFindings && cmd[0] != "lint":
			c.Violation(name+"|failure-without-fault", fmt.Sprintf("%s: sink never failed (k=%d >= %d) but exit %d: %s", joinArgs(cmd), j.k, j.full, res.Exit, res.Err), doc)
		}
		if res.SinkErrs > 0 {
			c.Nontrivial(fmt.Sprint(j.world), joinArgs(cmd), fmt.Sprint(j.k))
			c.Count("sink_errors_delivered", 1)
		}
		if ji == 500 {
			c.Sample(map[string]any{"part": "fault-job", "args": joinArgs(args), "fault": doc.Note, "exit": res.Exit, "err": res.Err, "accepted": res.Accepted, "sink_errors": res.SinkErrs})
		}
	})
	c.Count("fault_jobs", len(jobs))

	// real binary
	dir := filepath.Join(c.Work, "l1")
	run.WriteFiles(dir, worlds[0])
	bigdir := filepath.Join(c.Work, "l1big")
	run.WriteFiles(bigdir, worlds[bigIdx])
	devfull, err := os.OpenFile("/dev/full", os.O_WRONLY, 0)
	if err != nil {
		c.Inconclusive("dev-full", err.Error())
	}
	cmds := append(append([][]string{}, c17Cmds...), []string{"gen", "man"}, []string{"gen", "markdown"})
	core.ParallelFor(len(cmds), c.Procs, func(_, ci int) {
		cmd := cmds[ci]
		args := append(append([]string{}, pre...), cmd...)
		name := c17Name(cmd)
		// how long is the report?
		ref := run.Exec(c.HR, args, run.ExecOpts{Dir: dir})
		if len(ref.Out) == 0 {
			return
		}
		if devfull != nil {
			// under the conventions by which the environment asks for plain or coloured output as well (whatever the
			// program makes of them, a lost report is a failure)
			for _, env := range []map[string]string{nil, {"NO_COLOR": "1"}, {"TERM": "dumb", "CLICOLOR": "0"}, {"CLICOLOR_FORCE": "1", "FORCE_COLOR": "1", "TERM": "xterm-256color"}} {
				res := run.Exec(c.HR, args, run.ExecOpts{Dir: dir, Stdout: devfull, Env: env})
				c.Eval(1)
				c.Count("l1_dev_full_runs", 1)
				c.Nontrivial("devfull", joinArgs(cmd), fmt.Sprint(env))
				if res.Exit == 0 {
					c.Violation(name+"|write-error-dropped", fmt.Sprintf("%s > /dev/full exits 0 (report of %d bytes lost; environment %v)", joinArgs(cmd), len(ref.Out), env), caseDoc{Files: worlds[0], Args: args, Env: env, Note: "stdout = /dev/full", Observed: resDoc(res)})
				} else if res.Crashed() && res.Signal == "" {
					c.Violation(name+"|crash-on-write-fault", clip(res.Serr, 300), caseDoc{Files: worlds[0], Args: args, Env: env, Note: "stdout = /dev/full", Observed: resDoc(res)})
				}
			}
		}
		// closed pipe / pipe closed after 4 KiB / file size limit, through the shell
		q := func(a []string) string {
			var out []string
			for _, x := range a {
				out = append(out, "'"+strings.ReplaceAll(x, "'", `'\''`)+"'")
			}
			return strings.Join(out, " ")
		}
		for _, v := range []struct{ what, script, dir string }{
			{"pipe closed before the first write", fmt.Sprintf("{ sleep 0.3; exec %s %s; } | true; exit ${PIPESTATUS[0]}", c.HR, q(args)), dir},
			{"pipe closed at once", fmt.Sprintf("%s %s | true; exit ${PIPESTATUS[0]}", c.HR, q(args)), bigdir},
			{"pipe closed after 4 KiB", fmt.Sprintf("%s %s | head -c 4096 >/dev/null; exit ${PIPESTATUS[0]}", c.HR, q(args)), bigdir},
			{"stdout is a regular file opened read-only", fmt.Sprintf(": > ro.$$.out; %s %s 1< ro.$$.out; rc=$?; rm -f ro.$$.out; exit $rc", c.HR, q(args)), dir},
			{"file on a full 64 KiB tmpfs", fmt.Sprintf("unshare -m bash -c 'mkdir -p full.$$ && mount -t tmpfs -o size=64k tmpfs full.$$ && head -c 70000 /dev/zero > full.$$/filler 2>/dev/null; \"$@\" > full.$$/out; rc=$?; umount full.$$; rmdir full.$$; exit $rc' -- %s %s", c.HR, q(args)), dir},
			{"file under ulimit -f 1", fmt.Sprintf("ulimit -f 1; %s %s > limited.$$.out; rc=$?; rm -f limited.$$.out; exit $rc", c.HR, q(args)), bigdir},
		} {
			big := run.Exec(c.HR, args, run.ExecOpts{Dir: v.dir})
			need := 1
			switch v.what {
			case "pipe closed after 4 KiB":
				need = 80000 // must exceed the 64 KiB pipe buffer to be sure the writer notices
			case "file under ulimit -f 1":
				need = 2048
			case "pipe closed at once":
				need = 70000
			case "pipe closed before the first write", "stdout is a regular file opened read-only", "file on a full 64 KiB tmpfs":
				need = 1
			}
			if v.what == "file on a full 64 KiB tmpfs" && !c17CanUnshare() {
				continue
			}
			if len(big.Out) < need {
				continue
			}
			sh := exec.Command("bash", "-c", v.script)
			sh.Dir = v.dir
			sh.Env = run.BaseEnv()
			done := make(chan error, 1)
			var out []byte
			go func() { var e error; out, e = sh.CombinedOutput(); done <- e }()
			var werr error
			select {
			case werr = <-done:
			case <-time.After(60 * time.Second):
				sh.Process.Kill()
				c.Inconclusive("l1-sinks", v.what+": watchdog")
				continue
			}
			c.Eval(1)
			c.Count("l1_pipe_and_limit_runs", 1)
			c.Nontrivial(v.what, joinArgs(cmd))
			if werr == nil {
				c.Violation(name+"|write-error-dropped", fmt.Sprintf("%s with %s exits 0 (report of %d bytes)", joinArgs(cmd), v.what, len(big.Out)), caseDoc{Args: args, Note: v.what + ": " + v.script, Observed: string(out)})
			}
		}
	})
	// part of the report is lost just as well when the run is cut short by a signal: never with status 0
	interruptedRuns(c, map[string]string{"reg": "log", "print": "log", "reg -s kcal": "log", "bal": "log", "report totals": "log", "csv log": "log", "reg --use-old-reg-reporter": "log", "report element-total kcal": "book"})
}
