package checks

import (
	"fmt"
	"math/big"
	"math/rand"
	"os"
	"regexp"
	"strings"
	"time"

	"verif/harness/core"
	"verif/harness/gen"
	"verif/harness/model"
	"verif/harness/obs"
	"verif/harness/run"
)

func init() {
	register(&Check{ID: "C13", Level: "exploration", Run: runC13})
}

var (
	isoDateRe = regexp.MustCompile(`^\d{4}-\d{2}-\d{2}$`)
	amt3Re    = regexp.MustCompile(`^-?\d+\.\d{3}$`)
	amt2Re    = regexp.MustCompile(`^-?\d+\.\d{2}$`)
)

var namesCSV = gen.NameOpts{Unicode: true, Spaces: true, Slash: true, Punct: ",,,\"\".;:'()&%+*=!?@_-#\\", MaxLen: 14, Edge: gen.EdgePunct}

// c13Num: quantities that stress the printed precision: ties, tiny, large, negative
func c13Num(r *rand.Rand) gen.Num {
	if r.Intn(3) == 0 {
		return gen.N([]string{"0.0005", "0.0015", "0.0025", "-0.0005", "0.0004", "0.00049999", "123456.7895", "-123456.7895", "0.005", "0.015", "0.025", "1e-7", "-1e-7", "99999999.999", "0.9995", "-0.9995", "1.0005", "2.5e-4", "0.125", "0.375", "1e6", "0"}[r.Intn(22)])
	}
	return gen.GNum(r)
}

func runC13(c *core.Ctx) {
	c.SetRule("cases: books and logs whose names range over letters of many scripts, digits, blanks, '/', commas, inner double quotes, backslash-dot and other punctuation; quantities negative, tiny, large and on rounding ties of the printed precision; repeated foods within a day; periods; logs written in five date layouts (the export stays ISO). The three exports are read by a strict RFC 4180 reader written for the harness (not encoding/csv). Oracle: row count and order (log: one row per (day, distinct food) in file order; raw book: one per entry in file order; resolved book: per (recipe, element) sorted by recipe then element), names byte-identical, ISO dates, amounts matching ^-?\\d+\\.\\d{3}$ (\\d{2} for the book) within half a unit of the last digit (+1e-9 relative) of the exact value. Non-trivial = export with a name that needs quoting; distinct = hash(file, command).")
	pool := newPool(c, c.Procs)
	if pool == nil {
		return
	}
	defer pool.Close()
	n := c.N(1500, 30000)
	needsQuote := regexp.MustCompile(`[",]`)
	core.ParallelFor(n, c.Procs, func(wk, i int) {
		srv := pool.Servers[wk]
		r := c.Rng("case", i)
		nrec := 1 + r.Intn(6)
		depth := 1 + r.Intn(3)
		var depthArgs []string
		if r.Intn(8) == 0 {
			// a book nested more deeply than the default limit, exported under a raised limit
			nrec, depth = 14, 10+r.Intn(4)
			depthArgs = []string{"--maxdepth", "20"}
			if r.Intn(2) == 0 {
				depthArgs = nil
			}
		}
		extra := 5
		if r.Intn(12) == 0 {
			extra = 40 // enough names for days with more than 32 different foods
		}
		all := gen.Names(r, nrec+extra, namesCSV)
		recipes, basics, unknown := all[:nrec], all[nrec:nrec+3], all[nrec+3:]
		book := gen.RandomBook(r, gen.BookOpts{Recipes: nrec, Basics: 3, MaxDepth: depth, Exact: false, RecipeNames: recipes, BasicNames: basics, Redeclare: r.Intn(6) == 0})
		for ri := range book {
			for ei := range book[ri].Ents {
				if r.Intn(3) == 0 {
					book[ri].Ents[ei].Val = c13Num(r)
				}
			}
		}
		if r.Intn(4) == 0 && len(book) >= 1 {
			// a heading whose name begins with the comment character (written in quotes): a recipe like any other
			// in the exports; sometimes it refers to another recipe
			hash := gen.Recipe{Name: "#1 \"combo\", large", Ents: []gen.Ent{{Name: basics[0], Val: gen.N("180")}, {Name: basics[2], Val: gen.N("75")}}}
			if r.Intn(2) == 0 && depth <= 8 {
				hash.Ents = append(hash.Ents, gen.Ent{Name: recipes[0], Val: gen.N("2")})
			}
			at := 1 + r.Intn(len(book))
			book = append(book[:at:at], append(gen.Book{hash}, book[at:]...)...)
			c.Count("books_with_a_quoted_heading_that_begins_with_the_comment_character", 1)
		}
		foods := append(append(append([]string{}, recipes...), basics...), unknown...)
		log := gen.RandomLog(r, gen.LogOpts{Days: 1 + r.Intn(5), Foods: foods, Exact: false, EmptyDays: true})
		for di := range log {
			for ei := range log[di].Ents {
				if r.Intn(2) == 0 {
					log[di].Ents[ei].Val = c13Num(r)
				}
			}
		}
		var st *gen.Style
		if i%3 == 0 {
			st = gen.Hostile(r)
		}
		layout := []string{"2006/01/02", "2006/01/02", "02.01.2006", "Jan 2 2006", "2006-01-02"}[r.Intn(5)]
		files := map[string]string{"food.yaml": gen.RenderBook(book, st), "log.yaml": gen.RenderLog(log, layout, st)}
		srv.Write(files)
		quoted := needsQuote.MatchString(files["food.yaml"]) || needsQuote.MatchString(files["log.yaml"])

		type want struct {
			f0, f1 string
			exact  *big.Rat
			abs    *big.Rat
		}
		check := func(name string, args []string, wants []want, dec int, first string) {
			odd := false
			if i%5 == 3 {
				// a configuration file with entries this version has no use for (an unknown key, an unknown
				// section): the export is either refused or exactly the export - never CSV mixed with remarks
				conf := []string{"[Global]\nTheme=dark\n", "[Plugins]\nName=x\n", "[Global]\nDbFileName=food.yaml\nColour=1\n", "; just a comment\n[Resolver]\nMaxdepth=10\nDepth=3\n"}[r.Intn(4)]
				srv.Write(map[string]string{"odd.conf": conf})
				args = append([]string{"--config", "odd.conf"}, args...)
				odd = true
				c.Count("runs_under_a_config_file_with_unknown_entries", 1)
			}
			if i%7 == 2 {
				// the switch that would drop the book, spelled with an explicit false value: nothing changes
				args = append([]string{[]string{"--no-database=false", "--no-database=0"}[i%2]}, args...)
			}
			res := srv.App1(args, nil)
			c.Eval(1)
			c.Count("runs_"+name, 1)
			if odd && res.Exit != 0 && res.Panic == "" && strings.TrimSpace(res.Out) == "" {
				c.Count("runs_refused_because_of_the_config_file", 1)
				return
			}
			if quoted {
				c.Nontrivial(files["food.yaml"], files["log.yaml"], name)
			}
			doc := caseDoc{Files: files, Args: args, Observed: resDoc(res)}
			if res.Exit != 0 || res.Panic != "" {
				c.Violation(name+"|fails-on-valid-input", fmt.Sprintf("exit %d err %q %s", res.Exit, res.Err, clip(res.Panic, 200)), doc)
				return
			}
			rows, err := obs.ParseCSV(res.Out)
			if err != nil {
				c.Violation(name+"|not-rfc4180", err.Error(), doc)
				return
			}
			if len(rows) != len(wants) {
				c.Violation(name+"|row-count", fmt.Sprintf("%d rows, want %d", len(rows), len(wants)), doc)
				return
			}
			re := amt3Re
			if dec == 2 {
				re = amt2Re
			}
			for k, w := range wants {
				row := rows[k]
				if len(row) != 3 {
					c.Violation(name+"|field-count", fmt.Sprintf("row %d has %d fields", k, len(row)), doc)
					return
				}
				if first == "date" && !isoDateRe.MatchString(row[0]) {
					c.Violation(name+"|date-not-iso", fmt.Sprintf("row %d date %q", k, row[0]), doc)
					return
				}
				if row[0] != w.f0 || row[1] != w.f1 {
					c.Violation(name+"|row-identity", fmt.Sprintf("row %d is (%q,%q), want (%q,%q)", k, row[0], row[1], w.f0, w.f1), doc)
					return
				}
				if !re.MatchString(row[2]) {
					c.Violation(name+"|amount-format", fmt.Sprintf("row %d amount %q", k, row[2]), doc)
					return
				}
				v, _ := obs.Dec(row[2])
				if !printedOK(v, w.exact, dec, w.abs) {
					c.Violation(name+"|amount-value", fmt.Sprintf("row %d (%q,%q): printed %s, exact %s", k, row[0], row[1], row[2], w.exact.FloatString(9)), doc)
					return
				}
			}
			if i%30 == 0 {
				crossCheck(c, srv, args, nil, res)
			}
		}

		// csv log (optionally with a period)
		var b, e *gen.Date
		args := []string{"-d", "food.yaml", "-l", "log.yaml"}
		if layout != "2006/01/02" {
			args = append(args, "--date-format", layout)
		}
		if r.Intn(3) == 0 && len(log) > 0 {
			d := log[r.Intn(len(log))].Date
			b = &d
			args = append(args, "-b", d.Format(layout))
		}
		var wl []want
		for _, d := range restrict(log, b, e) {
			absq := map[string]*big.Rat{}
			for _, en := range d.Ents {
				if absq[en.Name] == nil {
					absq[en.Name] = new(big.Rat)
				}
				absq[en.Name].Add(absq[en.Name], absRat(en.Val.R))
			}
			for _, en := range model.MergeDay(d) {
				wl = append(wl, want{d.Date.ISO(), en.Name, en.Val.R, absq[en.Name]})
			}
		}
		check("csv log", append(args, "csv", "log"), wl, 3, "date")

		// csv database: raw, file order (recipe names are distinct)
		var wd []want
		for _, rec := range book {
			for _, en := range rec.Ents {
				wd = append(wd, want{rec.Name, en.Name, en.Val.R, absRat(en.Val.R)})
			}
		}
		check("csv database", []string{"-d", "food.yaml", "csv", "database"}, wd, 2, "")

		// csv database-resolved
		res := model.Resolve(book)
		abs := model.AbsPaths(book)
		var wr []want
		for _, name := range sortedKeys(res) {
			for _, el := range res[name] {
				wr = append(wr, want{name, el.Name, el.V, abs[name][el.Name]})
			}
		}
		if chain, _ := model.Chain(book); chain >= 10 && depthArgs == nil {
			// deeper than the default limit and no raised limit: the export must fail, not print rows
			res := srv.App1([]string{"-d", "food.yaml", "csv", "database-resolved"}, nil)
			c.Eval(1)
			c.Count("deep_books_under_the_default_limit", 1)
			if res.Exit == 0 {
				c.Violation("csv database-resolved|deep-book-accepted", fmt.Sprintf("chain of %d references exported under the default limit", chain), caseDoc{Files: files, Args: []string{"csv", "database-resolved"}, Observed: resDoc(res)})
			}
		} else {
			if depthArgs != nil {
				c.Count("deep_books_under_a_raised_limit", 1)
			}
			check("csv database-resolved", append(append([]string{"-d", "food.yaml"}, depthArgs...), "csv", "database-resolved"), wr, 2, "")
		}
		if i < 2 {
			c.Sample(map[string]any{"food.yaml": clip(files["food.yaml"], 500), "log.yaml": clip(files["log.yaml"], 500)})
		}
	})
	// real processes in zones whose DST starts at local midnight, logs dated on the switch days:
	// the exported dates must still be the file's calendar dates
	for zi, zc := range []struct {
		zone string
		day  gen.Date
	}{{"America/Santiago", gen.Date{Y: 2022, M: 9, D: 11}}, {"America/Havana", gen.Date{Y: 2022, M: 3, D: 13}}, {"Asia/Beirut", gen.Date{Y: 2022, M: 3, D: 27}}, {"UTC", gen.Date{Y: 2022, M: 3, D: 13}}, {"Pacific/Kiritimati", gen.Date{Y: 2022, M: 1, D: 1}}, {"America/Los_Angeles", gen.Date{Y: 2022, M: 3, D: 13}}} {
		if _, err := os.Stat("/usr/share/zoneinfo/" + zc.zone); err != nil {
			continue
		}
		var log gen.Log
		for off := -1; off <= 1; off++ {
			log = append(log, gen.Day{Date: zc.day.AddDays(off), Ents: []gen.Ent{{Name: "tea, green", Val: gen.N("1.5")}, {Name: fmt.Sprintf("day%d", off+1), Val: gen.N("2")}}})
		}
		files := map[string]string{"log.yaml": gen.RenderLog(log, "2006/01/02", nil)}
		dir := fmt.Sprintf("%s/tz%d", c.Work, zi)
		run.WriteFiles(dir, files)
		args := []string{"-l", "log.yaml", "csv", "log"}
		res := run.Exec(c.HR, args, run.ExecOpts{Dir: dir, Env: map[string]string{"TZ": zc.zone}})
		c.Eval(1)
		c.Count("runs_csv log in DST-at-midnight zones", 1)
		c.Nontrivial("tz", zc.zone)
		rows, err := obs.ParseCSV(res.Out)
		bad := ""
		if res.Exit != 0 || err != nil || len(rows) != 6 {
			bad = fmt.Sprintf("exit %d, %v, %d rows", res.Exit, err, len(rows))
		} else {
			for k, row := range rows {
				if want := log[k/2].Date.ISO(); row[0] != want {
					bad = fmt.Sprintf("row %d has date %s, the file says %s", k, row[0], want)
					break
				}
			}
		}
		if bad != "" {
			c.Violation("csv log|date-depends-on-time-zone", fmt.Sprintf("TZ=%s: %s", zc.zone, bad), caseDoc{Files: files, Args: args, Env: map[string]string{"TZ": zc.zone}, Observed: resDoc(res)})
		}
	}
	// a recipe reached at depth 10..14 and, next to it, a shallow recipe whose name is that recipe's name with the
	// last digit of the depth in front ("x" at level 10 and "0x" at level 1: level and name written next to each
	// other read the same). Resolved under a raised limit, many times (the visiting order of the book varies): the
	// export is the resolved book, row for row
	{
		srv := pool.Servers[0]
		for _, depth := range []int{10, 11, 12, 14} {
			twin := fmt.Sprint(depth)[1:] + "x"
			x := func(n string, k int) gen.Ent { return gen.Ent{Name: n, Val: gen.Half(2 * k)} }
			book := gen.Book{{Name: "base", Ents: []gen.Ent{x("kcal", 5)}}, {Name: "x", Ents: []gen.Ent{x("base", 3)}}, {Name: twin, Ents: []gen.Ent{x("base", 2)}}}
			for k := depth - 1; k >= 1; k-- {
				next := fmt.Sprintf("s%d", k+1)
				if k == depth-1 {
					next = "x"
				}
				book = append(book, gen.Recipe{Name: fmt.Sprintf("s%d", k), Ents: []gen.Ent{x(next, 1)}})
			}
			book = append(book, gen.Recipe{Name: "menu", Ents: []gen.Ent{x("s1", 1), x(twin, 2)}})
			res := model.Resolve(book)
			var want []string
			for _, name := range sortedKeys(res) {
				for _, e := range res[name] {
					want = append(want, fmt.Sprintf("%s,%s,%s", name, e.Name, e.V.FloatString(2)))
				}
			}
			files := map[string]string{"food.yaml": gen.RenderBook(book, nil)}
			srv.Write(files)
			args := []string{"--maxdepth", "20", "-d", "food.yaml", "csv", "database-resolved"}
			outcomes := map[string]int{}
			for _, v := range srv.App(args, nil, 80) {
				outcomes[fmt.Sprintf("exit=%d\n%s", v.Exit, v.Out)] += v.Count
			}
			for k := 0; k < 8; k++ {
				v := run.Exec(c.HR, args, run.ExecOpts{Dir: srv.Dir})
				outcomes[fmt.Sprintf("exit=%d\n%s", v.Exit, v.Out)]++
			}
			c.Eval(88)
			c.Count("deep_books_with_a_digit_prefixed_twin", 1)
			c.Nontrivial("digit-twin", fmt.Sprint(depth))
			wantOut := "exit=0\n" + strings.Join(want, "\n") + "\n"
			for got, cnt := range outcomes {
				if got != wantOut {
					c.Violation("csv database-resolved|rows", fmt.Sprintf("book with recipe \"x\" at depth %d and recipe %q at depth 1, --maxdepth 20: %d of 88 runs give another export than the resolved book", depth, twin, cnt),
						caseDoc{Files: files, Args: args, Expected: wantOut, Observed: clip(got, 1500)})
					break
				}
			}
		}
	}
	// elements of one recipe whose names agree up to a path separator in one and a byte that sorts below it in the
	// other (round 13, L13: names compared segment by segment instead of byte by byte - "vitamins/b12" against
	// "vitamins minerals/iron"): the rows of a recipe stand in the byte order of the element names, also when the
	// elements arrive through a sub-recipe
	{
		srv := pool.Servers[0]
		x := func(n string, k int) gen.Ent { return gen.Ent{Name: n, Val: gen.Half(2 * k)} }
		for bi, names := range [][]string{
			{"vitamins/b12", "vitamins minerals/iron", "vitamins-c/x", "vitamins.d/y", "vitamins+e/z", "vitamins!/q", "vitamins(k)/r", "vitamins/a"},
			{"a/b/c", "a/b-x/c", "a/b x/c", "a/b/d", "a/b.x/a", "a-b/c", "a b/c", "a/b"},
			{"fat/sat", "fat sat/x", "fat", "fat/", "fat!", "fat0/x", "fat/0"},
		} {
			var ents, inner []gen.Ent
			for k, n := range names {
				ents = append(ents, x(n, k+1))
				if k%2 == 0 {
					inner = append(inner, x(n, k+2))
				}
			}
			book := gen.Book{{Name: "plain", Ents: ents}, {Name: "inner", Ents: inner}, {Name: "outer", Ents: append([]gen.Ent{x("inner", 1)}, ents[1:]...)}}
			res := model.Resolve(book)
			var want []string
			for _, name := range sortedKeys(res) {
				for _, e := range res[name] {
					want = append(want, fmt.Sprintf("%s,%s,%s", name, e.Name, e.V.FloatString(2)))
				}
			}
			files := map[string]string{"food.yaml": gen.RenderBook(book, nil)}
			srv.Write(files)
			args := []string{"-d", "food.yaml", "csv", "database-resolved"}
			outcomes := map[string]int{}
			for _, v := range srv.App(args, nil, 20) {
				outcomes[fmt.Sprintf("exit=%d\n%s", v.Exit, v.Out)] += v.Count
			}
			v := run.Exec(c.HR, args, run.ExecOpts{Dir: srv.Dir})
			outcomes[fmt.Sprintf("exit=%d\n%s", v.Exit, v.Out)]++
			c.Eval(21)
			c.Count("books_with_element_names_that_differ_at_a_path_separator", 1)
			c.Nontrivial("separator-order", fmt.Sprint(bi))
			wantOut := "exit=0\n" + strings.Join(want, "\n") + "\n"
			for got, cnt := range outcomes {
				if got != wantOut {
					c.Violation("csv database-resolved|rows", fmt.Sprintf("recipe with the elements %q: %d of 21 runs give another export than the resolved book (rows in the byte order of the element names)", names, cnt),
						caseDoc{Files: files, Args: args, Expected: wantOut, Observed: clip(got, 1500)})
					break
				}
			}
		}
	}
	// headings written with a zone offset: the date of a row is the calendar date of its own heading as written,
	// also when the previous heading denotes the very same instant under another offset, is repeated, or is a
	// neighbouring instant
	for zi := 0; zi < c.N(40, 400); zi++ {
		r := c.Rng("zoned", zi)
		layout := []string{"2006/01/02 15:04 -07:00", "2006/01/02 15:04 -0700", "2006-01-02T15:04:05Z07:00"}[zi%3]
		type head struct {
			text, iso string
		}
		mk := func(y, m, d, hh, mm, offMin int) head {
			t := time.Date(y, time.Month(m), d, hh, mm, 0, 0, time.FixedZone("", offMin*60))
			return head{t.Format(layout), t.Format("2006-01-02")}
		}
		var heads []head
		offs := []int{120, 0, -300, 330, 765, -720}
		for len(heads) < 3+r.Intn(6) {
			y, m, d, hh, mm := 2020+r.Intn(3), 1+r.Intn(12), 1+r.Intn(28), r.Intn(24), r.Intn(60)
			o1 := offs[r.Intn(len(offs))]
			h := mk(y, m, d, hh, mm, o1)
			heads = append(heads, h)
			switch r.Intn(4) {
			case 0, 1:
				// the same instant under another offset (often another calendar date)
				o2 := offs[r.Intn(len(offs))]
				t := time.Date(y, time.Month(m), d, hh, mm, 0, 0, time.FixedZone("", o1*60)).In(time.FixedZone("", o2*60))
				heads = append(heads, head{t.Format(layout), t.Format("2006-01-02")})
			case 2:
				heads = append(heads, h)
			}
		}
		var sb strings.Builder
		var want [][2]string
		for k, h := range heads {
			fmt.Fprintf(&sb, "%s:\n  tea, green: 1.5\n  food%d: 2\n", h.text, k)
			want = append(want, [2]string{h.iso, "tea, green"}, [2]string{h.iso, fmt.Sprintf("food%d", k)})
		}
		files := map[string]string{"log.yaml": sb.String()}
		dir := fmt.Sprintf("%s/zoned%d", c.Work, zi)
		run.WriteFiles(dir, files)
		args := []string{"-l", "log.yaml", "--date-format", layout, "csv", "log"}
		env := map[string]string{"TZ": []string{"UTC", "Europe/Sofia", "America/New_York", "Asia/Kolkata"}[zi%4]}
		res := run.Exec(c.HR, args, run.ExecOpts{Dir: dir, Env: env})
		c.Eval(1)
		c.Count("runs_csv_log_with_zoned_headings", 1)
		c.Nontrivial("zoned", sb.String())
		rows, err := obs.ParseCSV(res.Out)
		bad := ""
		if res.Exit != 0 || err != nil || len(rows) != len(want) {
			bad = fmt.Sprintf("exit %d, %v, %d rows for %d", res.Exit, err, len(rows), len(want))
		} else {
			for k, row := range rows {
				if row[0] != want[k][0] || row[1] != want[k][1] {
					bad = fmt.Sprintf("row %d is %s,%s; its heading %q says %s,%s", k, row[0], row[1], heads[k/2].text, want[k][0], want[k][1])
					break
				}
			}
		}
		if bad != "" {
			c.Violation("csv log|date-of-a-zoned-heading", fmt.Sprintf("layout %q, TZ=%s: %s", layout, env["TZ"], bad), caseDoc{Files: files, Args: args, Env: env, Observed: resDoc(res)})
		}
	}
	// selection by instants that differ only in the fraction of a second (shared with C06)
	c06SubSecond(c, [][]string{{"csv", "log"}})
	// an export that was interrupted is not a complete export: it never ends with status 0
	interruptedRuns(c, map[string]string{"csv log": "log", "csv database": "book", "csv database-resolved": "book"})
	// reports produced side by side in goroutines of one process, the program built with the race detector
	parallelReports(c, c.N(40, 500), nestedCsvShape)
	jobs, deaths := pool.Stats()
	c.Count("l2_jobs", jobs)
	c.Count("l2_process_deaths", deaths)
	c.Count("l2_priming_runs", pool.Primed())
}
