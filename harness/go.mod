module verif/harness

go 1.23

require github.com/aquilax/hranoprovod-cli/v3 v3.0.0
