package core

import (
	"encoding/base64"
	"reflect"
	"strings"
	"unicode/utf8"
)

// B64Prefix marks a string of a replay document that is not valid UTF-8 (JSON would silently replace
// the offending bytes, and the replay would then run on a different input).
const B64Prefix = "\u0001b64:"

// SafeString encodes s when it is not valid UTF-8.
func SafeString(s string) string {
	if utf8.ValidString(s) {
		return s
	}
	return B64Prefix + base64.StdEncoding.EncodeToString([]byte(s))
}

// UnsafeString undoes SafeString.
func UnsafeString(s string) string {
	if strings.HasPrefix(s, B64Prefix) {
		if b, err := base64.StdEncoding.DecodeString(s[len(B64Prefix):]); err == nil {
			return string(b)
		}
	}
	return s
}

// SafeJSON rebuilds v out of maps, slices and scalars with every string passed through SafeString,
// honouring json tags of struct fields (name, omitempty, "-").
func SafeJSON(v any) any {
	return safeValue(reflect.ValueOf(v))
}

func safeValue(v reflect.Value) any {
	if !v.IsValid() {
		return nil
	}
	switch v.Kind() {
	case reflect.Interface, reflect.Pointer:
		if v.IsNil() {
			return nil
		}
		return safeValue(v.Elem())
	case reflect.String:
		return SafeString(v.String())
	case reflect.Slice, reflect.Array:
		if v.Kind() == reflect.Slice && v.IsNil() {
			return nil
		}
		if v.Type().Elem().Kind() == reflect.Uint8 {
			// []byte: keep encoding/json's own base64 form
			return v.Interface()
		}
		out := make([]any, v.Len())
		for i := range out {
			out[i] = safeValue(v.Index(i))
		}
		return out
	case reflect.Map:
		if v.IsNil() {
			return nil
		}
		if v.Type().Key().Kind() != reflect.String {
			return v.Interface()
		}
		out := map[string]any{}
		it := v.MapRange()
		for it.Next() {
			out[SafeString(it.Key().String())] = safeValue(it.Value())
		}
		return out
	case reflect.Struct:
		t := v.Type()
		out := map[string]any{}
		for i := 0; i < t.NumField(); i++ {
			f := t.Field(i)
			if !f.IsExported() {
				continue
			}
			name, omit := f.Name, false
			if tag, ok := f.Tag.Lookup("json"); ok {
				parts := strings.Split(tag, ",")
				if parts[0] == "-" {
					continue
				}
				if parts[0] != "" {
					name = parts[0]
				}
				for _, p := range parts[1:] {
					omit = omit || p == "omitempty"
				}
			}
			fv := v.Field(i)
			if omit && fv.IsZero() {
				continue
			}
			out[name] = safeValue(fv)
		}
		return out
	default:
		return v.Interface()
	}
}
