package core

import (
	"encoding/json"
	"fmt"
	"os"
	"os/exec"
	"path/filepath"
	"strings"
	"time"
)

// Library-level (L3) monitors link the code under test into this process, so
// a process-fatal error (stack overflow, runtime throw) would take the monitor
// down with it. RunPart therefore executes such a part in a child process of
// the same binary; the child leaves a breadcrumb (the case it is about to run)
// on disk before every risky call and hands its counters back through a state
// file. A child that dies is reported as a violation of the case named by the
// breadcrumb, not as a broken check.

type childState struct {
	Evals      int64               `json:"evals"`
	Distinct   [][12]byte          `json:"distinct"`
	Samples    []any               `json:"samples"`
	Counters   map[string]int64    `json:"counters"`
	Inconcl    []string            `json:"inconcl"`
	HarnessErr []string            `json:"harness_err"`
	Viols      map[string]childVio `json:"viols"`
	Order      []string            `json:"order"`
	Rule       string              `json:"rule"`
	Assume     []string            `json:"assume"`
}

type childVio struct {
	Count   int      `json:"count"`
	First   string   `json:"first"`
	Replays []string `json:"replays"`
}

func (c *Ctx) InChild() bool { return os.Getenv("VERIF_CHILD_PART") != "" }

// Crumb records what worker w is about to execute (child mode only).
func (c *Ctx) Crumb(w int, s string) {
	if !c.InChild() {
		return
	}
	c.mu.Lock()
	f := c.crumbs[w]
	if f == nil {
		var err error
		f, err = os.Create(filepath.Join(c.Work, fmt.Sprintf("crumb.%s.%d", os.Getenv("VERIF_CHILD_PART"), w)))
		if err != nil {
			c.mu.Unlock()
			return
		}
		if c.crumbs == nil {
			c.crumbs = map[int]*os.File{}
		}
		c.crumbs[w] = f
	}
	c.mu.Unlock()
	b := []byte(s + "\n")
	f.Truncate(0)
	f.WriteAt(b, 0)
}

// RunPart runs f in a child process (see above). timeout is a watchdog: its
// firing is inconclusive unless a breadcrumb shows the child spinning, which
// the caller decides from the returned flag.
func (c *Ctx) RunPart(part string, timeout time.Duration, f func(c *Ctx)) {
	c.RunPartAs(part, timeout, nil, f)
}

// RunPartAs is RunPart with the child started through a wrapper command (prefix), e.g. setpriv to run the part as
// another user. The work directory and the state file are made writable for that user.
func (c *Ctx) RunPartAs(part string, timeout time.Duration, prefix []string, f func(c *Ctx)) {
	if p := os.Getenv("VERIF_CHILD_PART"); p != "" {
		if p != part {
			return
		}
		f(c)
		c.dumpState(os.Getenv("VERIF_CHILD_STATE"))
		os.Exit(0)
	}
	state := filepath.Join(c.Work, "state."+part+".json")
	os.Remove(state)
	olds, _ := filepath.Glob(filepath.Join(c.Work, "crumb."+part+".*"))
	for _, o := range olds {
		os.Remove(o)
	}
	argv := append(append([]string{}, prefix...), os.Args...)
	if len(prefix) > 0 {
		os.Chmod(c.Work, 0o777)
		os.WriteFile(state, nil, 0o666)
		os.Chmod(state, 0o666)
	}
	cmd := exec.Command(argv[0], argv[1:]...)
	cmd.Env = append(os.Environ(), "VERIF_CHILD_PART="+part, "VERIF_CHILD_STATE="+state, "VERIF_TIER="+c.Tier, fmt.Sprintf("VERIF_SEED=%d", c.Seed))
	errFile := filepath.Join(c.Work, "stderr."+part)
	ef, _ := os.Create(errFile)
	cmd.Stdout = os.Stdout
	cmd.Stderr = ef
	if err := cmd.Start(); err != nil {
		c.HarnessError("cannot start child for part " + part + ": " + err.Error())
		return
	}
	done := make(chan error, 1)
	go func() { done <- cmd.Wait() }()
	var werr error
	timedOut := false
	select {
	case werr = <-done:
	case <-time.After(timeout):
		timedOut = true
		cmd.Process.Signal(os.Interrupt)
		cmd.Process.Kill()
		werr = <-done
	}
	ef.Close()
	if b, err := os.ReadFile(state); err == nil {
		var st childState
		if err := json.Unmarshal(b, &st); err == nil {
			c.mergeState(st)
			if werr == nil {
				return
			}
		}
	}
	// the child died or was stopped
	crumbs, _ := filepath.Glob(filepath.Join(c.Work, "crumb."+part+".*"))
	var cs []string
	for _, p := range crumbs {
		if b, err := os.ReadFile(p); err == nil {
			cs = append(cs, strings.TrimSpace(string(b)))
		}
	}
	eb, _ := os.ReadFile(errFile)
	es := string(eb)
	if len(es) > 4000 {
		es = es[:2000] + "\n…\n" + es[len(es)-2000:]
	}
	if timedOut {
		c.Inconclusive(part, fmt.Sprintf("watchdog %v expired; cases in flight: %v", timeout, cs))
		c.Count("watchdog_expired", 1)
		return
	}
	c.Violation(part+"|process-died", fmt.Sprintf("the process running the library died (%v); cases in flight: %v; stderr: %s", werr, cs, oneLine(es, 1500)),
		map[string]any{"part": part, "in_flight": cs, "stderr": es})
}

func (c *Ctx) dumpState(path string) {
	c.mu.Lock()
	defer c.mu.Unlock()
	st := childState{Evals: c.evals, Samples: c.samples, Counters: c.counters, Inconcl: c.inconcl, HarnessErr: c.harnessErr,
		Viols: map[string]childVio{}, Order: c.violOrder, Rule: c.rule, Assume: c.assumptions}
	for k := range c.distinct {
		st.Distinct = append(st.Distinct, k)
	}
	for k, g := range c.viols {
		st.Viols[k] = childVio{g.count, g.first, g.replays}
	}
	b, _ := json.Marshal(st)
	os.WriteFile(path, b, 0o644)
}

func (c *Ctx) mergeState(st childState) {
	c.mu.Lock()
	defer c.mu.Unlock()
	c.evals += st.Evals
	for _, k := range st.Distinct {
		c.distinct[k] = struct{}{}
	}
	for _, s := range st.Samples {
		if len(c.samples) < c.maxSamples {
			c.samples = append(c.samples, s)
		}
	}
	for k, v := range st.Counters {
		c.counters[k] += v
	}
	c.inconcl = append(c.inconcl, st.Inconcl...)
	c.harnessErr = append(c.harnessErr, st.HarnessErr...)
	for _, k := range st.Order {
		v := st.Viols[k]
		g := c.viols[k]
		if g == nil {
			g = &violGroup{sig: k, first: v.First}
			c.viols[k] = g
			c.violOrder = append(c.violOrder, k)
		}
		g.count += v.Count
		for _, r := range v.Replays {
			if len(g.replays) < 3 {
				g.replays = append(g.replays, r)
			}
		}
	}
	if st.Rule != "" && c.rule == "" {
		c.rule = st.Rule
	}
	for _, a := range st.Assume {
		dup := false
		for _, x := range c.assumptions {
			if x == a {
				dup = true
			}
		}
		if !dup {
			c.assumptions = append(c.assumptions, a)
		}
	}
}
