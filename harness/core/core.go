// Package core: check context, evidence, violations, known findings.
package core

import (
	"crypto/sha256"
	"encoding/hex"
	"encoding/json"
	"fmt"
	"math/rand"
	"os"
	"path/filepath"
	"runtime/debug"
	"sort"
	"strings"
	"sync"
	"time"
)

// Root is the verification tree (VERIF_ROOT, default /verif); Repo the repository under test.
var Root = envOr("VERIF_ROOT", "/verif")
var Repo = envOr("VERIF_REPO", "/repo")

func envOr(k, d string) string {
	if v := os.Getenv(k); v != "" {
		return v
	}
	return d
}

// KnownFinding is one entry of known_findings.json (committed, read-only at run time).
type KnownFinding struct {
	Property  string `json:"property"`
	Status    string `json:"status"` // "open" | "fixed"
	Signature string `json:"signature"`
	What      string `json:"what"`
	Commit    string `json:"commit,omitempty"`
}

type violGroup struct {
	sig     string
	count   int
	first   string
	replays []string
}

// Ctx is the per-run context of one check.
type Ctx struct {
	ID    string
	Tier  string
	Seed  int64
	Level string // exploration | fault_enumeration
	HR    string // binary built from /repo with -tags verif
	HRAlt string // same, built with go1.26.8 ("" if unavailable)
	// HRRace: the program built with the race detector ("" if the check does not use it)
	HRRace string
	Work   string // scratch directory, removed by the caller
	Procs  int

	mu          sync.Mutex
	start       time.Time
	evals       int64
	distinct    map[[12]byte]struct{}
	rule        string
	samples     []any
	maxSamples  int
	counters    map[string]int64
	exhaustive  *bool
	assumptions []string
	inconcl     []string
	viols       map[string]*violGroup
	violOrder   []string
	known       []KnownFinding
	harnessErr  []string
	crumbs      map[int]*os.File
}

func NewCtx(id, tier string, seed int64) *Ctx {
	c := &Ctx{ID: id, Tier: tier, Seed: seed, Level: "exploration", start: time.Now(),
		distinct: map[[12]byte]struct{}{}, counters: map[string]int64{}, viols: map[string]*violGroup{}, maxSamples: 6, Procs: 16}
	b, err := os.ReadFile(filepath.Join(Root, "known_findings.json"))
	if err == nil {
		var kf struct {
			Findings []KnownFinding `json:"findings"`
		}
		if err := json.Unmarshal(b, &kf); err != nil {
			c.HarnessError("known_findings.json: " + err.Error())
		}
		c.known = kf.Findings
	}
	return c
}

func (c *Ctx) Quick() bool { return c.Tier != "thorough" }

// N picks a tier-dependent count.
func (c *Ctx) N(quick, thorough int) int {
	if c.Quick() {
		return quick
	}
	return thorough
}

// Rng returns a PRNG that is a pure function of (seed, check id, stream, index).
func (c *Ctx) Rng(stream string, idx int) *rand.Rand {
	h := sha256.Sum256([]byte(fmt.Sprintf("%d|%s|%s|%d", c.Seed, c.ID, stream, idx)))
	var s int64
	for i := 0; i < 8; i++ {
		s = s<<8 | int64(h[i])
	}
	return rand.New(rand.NewSource(s))
}

func (c *Ctx) SetRule(r string) { c.mu.Lock(); c.rule = r; c.mu.Unlock() }
func (c *Ctx) Assume(a string) {
	c.mu.Lock()
	defer c.mu.Unlock()
	for _, x := range c.assumptions {
		if x == a {
			return
		}
	}
	c.assumptions = append(c.assumptions, a)
}
func (c *Ctx) SetExhaustive(b bool)   { c.mu.Lock(); c.exhaustive = &b; c.mu.Unlock() }
func (c *Ctx) Eval(n int)             { c.mu.Lock(); c.evals += int64(n); c.mu.Unlock() }
func (c *Ctx) Count(k string, n int)  { c.mu.Lock(); c.counters[k] += int64(n); c.mu.Unlock() }
func (c *Ctx) Counter(k string) int64 { c.mu.Lock(); defer c.mu.Unlock(); return c.counters[k] }
func (c *Ctx) HarnessError(msg string) {
	c.mu.Lock()
	c.harnessErr = append(c.harnessErr, msg)
	c.mu.Unlock()
}

// Max keeps the maximum seen for a counter.
func (c *Ctx) Max(k string, n int) {
	c.mu.Lock()
	if int64(n) > c.counters[k] {
		c.counters[k] = int64(n)
	}
	c.mu.Unlock()
}

// Nontrivial records one non-trivial case, identified by the given parts.
func (c *Ctx) Nontrivial(parts ...string) {
	h := sha256.New()
	for _, p := range parts {
		fmt.Fprintf(h, "%d:", len(p))
		h.Write([]byte(p))
	}
	var k [12]byte
	copy(k[:], h.Sum(nil))
	c.mu.Lock()
	c.distinct[k] = struct{}{}
	c.mu.Unlock()
}

// Sample keeps a few complete cases for the evidence file.
func (c *Ctx) Sample(v any) {
	c.mu.Lock()
	if len(c.samples) < c.maxSamples {
		c.samples = append(c.samples, v)
	}
	c.mu.Unlock()
}

func (c *Ctx) WantSample() bool {
	c.mu.Lock()
	defer c.mu.Unlock()
	return len(c.samples) < c.maxSamples
}

// Inconclusive records a part of the check that could not be decided.
func (c *Ctx) Inconclusive(part, reason string) {
	c.mu.Lock()
	c.inconcl = append(c.inconcl, part+": "+reason)
	c.mu.Unlock()
	fmt.Printf("INCONCLUSIVE property=%s part=%s reason=%s\n", c.ID, part, strings.ReplaceAll(reason, "\n", " "))
}

func Hash(parts ...string) string {
	h := sha256.New()
	for _, p := range parts {
		fmt.Fprintf(h, "%d:", len(p))
		h.Write([]byte(p))
	}
	return hex.EncodeToString(h.Sum(nil))[:16]
}

// Violation records a refuting execution. sig = "<command or call site>|<failure class>";
// replay is any JSON-serialisable description that reproduces it.
func (c *Ctx) Violation(sig, what string, replay any) {
	full := c.ID + "|" + sig
	c.mu.Lock()
	defer c.mu.Unlock()
	g := c.viols[full]
	if g == nil {
		g = &violGroup{sig: full, first: what}
		c.viols[full] = g
		c.violOrder = append(c.violOrder, full)
	}
	g.count++
	if len(g.replays) < 3 {
		dir := filepath.Join(Root, "replay", c.ID)
		os.MkdirAll(dir, 0o755)
		doc := map[string]any{"property": c.ID, "signature": full, "what": SafeString(what), "seed": c.Seed, "tier": c.Tier, "case": SafeJSON(replay)}
		b, err := json.MarshalIndent(doc, "", " ")
		if err != nil {
			b = []byte(fmt.Sprintf(`{"property":%q,"signature":%q,"what":%q}`, c.ID, full, what))
		}
		p := filepath.Join(dir, Hash(full, string(b))+".json")
		os.WriteFile(p, b, 0o644)
		g.replays = append(g.replays, p)
	}
}

func (c *Ctx) ViolationCount() int {
	c.mu.Lock()
	defer c.mu.Unlock()
	n := 0
	for _, g := range c.viols {
		n += g.count
	}
	return n
}

// Finish writes the evidence file, prints verdict lines and returns the exit status.
func (c *Ctx) Finish() int {
	c.mu.Lock()
	defer c.mu.Unlock()
	unlisted := 0
	total := 0
	sort.Strings(c.violOrder)
	for _, full := range c.violOrder {
		g := c.viols[full]
		total += g.count
		known := false
		for _, k := range c.known {
			if k.Status == "open" && k.Property == c.ID && c.ID+"|"+k.Signature == full {
				known = true
				fmt.Printf("KNOWN-FINDING: property=%s %s (%s; seen %d times this run)\n", c.ID, k.Signature, k.What, g.count)
			}
		}
		if !known {
			unlisted++
			fmt.Printf("VIOLATION property=%s replay=%s\n", c.ID, g.replays[0])
			fmt.Printf("  signature=%s count=%d first: %s\n", full, g.count, oneLine(g.first, 600))
		}
	}
	cov := map[string]any{
		"evaluations":         c.evals,
		"distinct_nontrivial": len(c.distinct),
		"rule":                c.rule,
		"samples":             c.samples,
	}
	if c.exhaustive != nil {
		cov["exhaustive"] = *c.exhaustive
	}
	for k, v := range c.counters {
		cov[k] = v
	}
	if len(c.inconcl) > 0 {
		cov["inconclusive_parts"] = c.inconcl
	}
	if c.samples == nil {
		cov["samples"] = []any{}
	}
	evd := map[string]any{
		"property_id": c.ID,
		"tier":        c.Tier,
		"seed":        c.Seed,
		"level":       c.Level,
		"coverage":    cov,
		"assumptions": c.assumptions,
		"wall_s":      float64(int(time.Since(c.start).Seconds()*100)) / 100,
		"violations":  total,
	}
	if c.assumptions == nil {
		evd["assumptions"] = []string{}
	}
	status := 0
	if unlisted > 0 {
		status = 1
	}
	if len(c.harnessErr) > 0 {
		for _, m := range c.harnessErr {
			fmt.Printf("HARNESS-ERROR property=%s %s\n", c.ID, oneLine(m, 800))
		}
		if status == 0 {
			status = 3
		}
	}
	if status == 0 && (c.evals < 1 || len(c.distinct) < 2) {
		fmt.Printf("HARNESS-ERROR property=%s observed nothing (evaluations=%d distinct=%d)\n", c.ID, c.evals, len(c.distinct))
		status = 3
	}
	if status != 3 {
		b, _ := json.MarshalIndent(evd, "", " ")
		os.MkdirAll(filepath.Join(Root, "evidence"), 0o755)
		if err := os.WriteFile(filepath.Join(Root, "evidence", c.ID+".json"), append(b, '\n'), 0o644); err != nil {
			fmt.Printf("HARNESS-ERROR property=%s cannot write evidence: %v\n", c.ID, err)
			status = 3
		}
	}
	keys := make([]string, 0, len(c.counters))
	for k := range c.counters {
		keys = append(keys, k)
	}
	sort.Strings(keys)
	var sb strings.Builder
	for _, k := range keys {
		fmt.Fprintf(&sb, " %s=%d", k, c.counters[k])
	}
	fmt.Printf("SUMMARY property=%s tier=%s seed=%d evaluations=%d distinct_nontrivial=%d violations=%d unlisted_signatures=%d wall_s=%.1f%s\n",
		c.ID, c.Tier, c.Seed, c.evals, len(c.distinct), total, unlisted, time.Since(c.start).Seconds(), sb.String())
	return status
}

func oneLine(s string, max int) string {
	s = strings.ReplaceAll(s, "\n", "\\n")
	if len(s) > max {
		s = s[:max] + "…"
	}
	return s
}

// workerPanic is set by the current context: a panic inside a monitor goroutine is a defect of the
// harness itself and must surface as exit 3 (HARNESS-ERROR), never as a crash or a silent pass.
var workerPanic = func(msg string) { fmt.Println("HARNESS-ERROR " + oneLine(msg, 1500)); os.Exit(3) }

// ParallelFor runs f(worker, i) for i in [0,n) on the given number of workers.
func ParallelFor(n, workers int, f func(worker, i int)) {
	if workers < 1 {
		workers = 1
	}
	if workers > n {
		workers = n
	}
	var wg sync.WaitGroup
	var mu sync.Mutex
	next := 0
	for w := 0; w < workers; w++ {
		wg.Add(1)
		go func(w int) {
			defer wg.Done()
			for {
				mu.Lock()
				i := next
				next++
				mu.Unlock()
				if i >= n {
					return
				}
				func() {
					defer func() {
						if p := recover(); p != nil {
							workerPanic(fmt.Sprintf("monitor goroutine panicked on item %d: %v\n%s", i, p, debug.Stack()))
						}
					}()
					f(w, i)
				}()
			}
		}(w)
	}
	wg.Wait()
}
