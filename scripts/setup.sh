#!/bin/bash
# One-time setup after a fresh restore: warm the Go build cache (offline) by building the program and the harness once.
set -e
. /verif/scripts/env.sh
rm -f $VERIF_ROOT/.build/go.work; . /verif/scripts/env.sh
(cd /repo/cmd/hranoprovod-cli && go build -tags verif -o $VERIF_ROOT/.build/hr.setup . )
(cd /verif/harness && go build -o $VERIF_ROOT/.build/vcheck.setup ./cmd/vcheck && go build -race -o $VERIF_ROOT/.build/vcheck.race.setup ./cmd/vcheck)
if command -v go1.26.8 >/dev/null 2>&1; then (cd /repo/cmd/hranoprovod-cli && go1.26.8 build -tags verif -o $VERIF_ROOT/.build/hr126.setup . ) || true; fi
rm -f $VERIF_ROOT/.build/*.setup
git -C /repo status --porcelain | grep -q . && echo "note: /repo working tree has local changes" || true
echo setup ok
