#!/bin/bash
# One-time setup after a fresh restore: warm the Go build cache (offline) by building the program and the harness once.
set -e
. "$(dirname "${BASH_SOURCE[0]}")/env.sh"
B=$VERIF_ROOT/.build/setup.$$; mkdir -p $B; trap 'rm -rf "$B"' EXIT
mkwork $B/go.work; export GOWORK=$B/go.work
(cd $VERIF_REPO/cmd/hranoprovod-cli && go build -tags verif -o $B/hr . )
(cd $VERIF_ROOT/harness && go vet ./... && go build -o $B/vcheck ./cmd/vcheck && go build -race -o $B/vcheck.race ./cmd/vcheck)
if command -v go1.26.8 >/dev/null 2>&1; then (cd $VERIF_REPO/cmd/hranoprovod-cli && go1.26.8 build -tags verif -o $B/hr126 . ) || true; fi
echo setup ok
