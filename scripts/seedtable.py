#!/usr/bin/env python3
"""seedtable.py: regenerate the table of DESIGN.md section 10.5 from seeded/*/meta.json (between the
markers <!-- seedtable:begin --> and <!-- seedtable:end -->)."""
import json, glob, os, re
rows = []
for d in sorted(glob.glob("/verif/seeded/*/meta.json")):
    m = json.load(open(d))
    sid = m["seed"]
    cur = m.get("current") or {k: v for k, v in m["results"].items()}
    verdict = ", ".join(f"{k.split(' ')[0]}: {v['verdict'].lower()}" for k, v in cur.items())
    first = m.get("first_verdict_before_strengthening") or ("missed" if "missed_at_first_then_strengthened" in m else "caught")
    st = m.get("missed_at_first_then_strengthened") or m.get("strengthened_although_caught", "–")
    need = m["needs_to_manifest"].replace("|", "\\|").replace("\n", " ")
    rows.append(f"| {sid} | {m['breaks_property']} | {need} | {first} | {verdict} | {st.replace('|', chr(92)+'|')} |")
head = "| seed | aimed at | what it needs to manifest | first verdict | verdict now (quick tier) | strengthening it caused |\n|------|----------|---------------------------|---------------|--------------------------|-------------------------|\n"
s = open("/verif/DESIGN.md").read()
a, b = s.index("<!-- seedtable:begin -->"), s.index("<!-- seedtable:end -->")
s = s[:a] + "<!-- seedtable:begin -->\n" + head + "\n".join(rows) + "\n" + s[b:]
open("/verif/DESIGN.md", "w").write(s)
print(len(rows), "rows")
