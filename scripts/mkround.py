#!/usr/bin/env python3
"""mkround.py <round-dir> <suffixes> : create one scratch worktree of /repo per property (and per suffix, e.g.
"a,b") under <round-dir> (outside /repo and /verif) and write the sub-agents' task files there. The task text is
the template in seeded/_tasks plus the property text from properties.jsonl plus the round's extra paragraph
(seeded/_tasks/<round-name>.json: {"avoid": {Cnn: text}, "extra": {suffix: text}}). Nothing from /verif other
than the property text reaches the sub-agent."""
import json, os, subprocess, sys
rd, sufs = sys.argv[1].rstrip("/"), sys.argv[2].split(",")
name = os.path.basename(rd)
cfg = json.load(open(f"/verif/seeded/_tasks/{name}.json"))
t = open("/verif/seeded/_tasks/TEMPLATE.txt").read()
os.makedirs(rd, exist_ok=True)
for l in open("/verif/properties.jsonl"):
    p = json.loads(l)
    prop = p["id"] + " — " + p["title"] + "\n\nStatement: " + p["statement"] + "\n\nQuantified over: " + p["quantifier"]["text"] + "\n"
    for s in sufs:
        wid = p["id"] + s
        wt = f"{rd}/{wid}"
        if not os.path.exists(wt):
            subprocess.run(["git", "-C", "/repo", "worktree", "add", "-q", "--detach", wt, "HEAD"], check=True)
        extra = "\n\nEarlier reviewers already proposed changes in: " + cfg["avoid"][p["id"]] + ". " + cfg["extra"][s] + "\n"
        open(f"{rd}/{wid}.task.txt", "w").write(t.replace("WORKTREE", wt).replace("ROUNDDIR", rd).replace("PROPERTY", prop + extra).replace("bin_ID", "bin_" + wid))
print("ok", len(os.listdir(rd)))
