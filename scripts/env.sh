# Common environment for building the repository and the harness offline without touching the repository.
# VERIF_ROOT: this verification tree (default: where this script lives); VERIF_REPO: the repository (default /repo).
export GOFLAGS= GOPROXY=off GOSUMDB=off GOTOOLCHAIN=local CGO_ENABLED=${CGO_ENABLED:-1}
export CARGO_NET_OFFLINE=true PIP_NO_INDEX=1
VERIF_ROOT=${VERIF_ROOT:-$(cd "$(dirname "${BASH_SOURCE[0]}")/.." && pwd)}
VERIF_REPO=${VERIF_REPO:-/repo}
export VERIF_ROOT VERIF_REPO
mkdir -p $VERIF_ROOT/.build $VERIF_ROOT/.work
# private workspace file: building through it leaves the repository byte-for-byte untouched
mkwork() { # mkwork <file>
cat > "$1" <<EOW
go 1.23

use (
	$VERIF_REPO
	$VERIF_REPO/cmd/hranoprovod-cli
	$VERIF_ROOT/harness
)
EOW
}
