# Common environment for building /repo and the harness offline without touching /repo.
export GOFLAGS= GOPROXY=off GOSUMDB=off GOTOOLCHAIN=local CGO_ENABLED=${CGO_ENABLED:-1}
export CARGO_NET_OFFLINE=true PIP_NO_INDEX=1
VERIF_ROOT=/verif
mkdir -p $VERIF_ROOT/.build $VERIF_ROOT/.work
if [ ! -f $VERIF_ROOT/.build/go.work ]; then
cat > $VERIF_ROOT/.build/go.work.tmp.$$ <<EOW
go 1.23

use (
	/repo
	/repo/cmd/hranoprovod-cli
	/verif/harness
)
EOW
mv $VERIF_ROOT/.build/go.work.tmp.$$ $VERIF_ROOT/.build/go.work
fi
export GOWORK=$VERIF_ROOT/.build/go.work
