#!/usr/bin/env python3-vt
"""Regenerates /verif/MANIFEST.json from the table below and validates it."""
import json, sys
CHECKS = {}
NA = {}
def chk(pid, cat, technique, text, note, ref):
    CHECKS[pid] = dict(cat=cat, technique=technique, text=text, note=note, ref=ref)

exec(open("/verif/scripts/manifest_table.py").read())

props = [json.loads(l)["id"] for l in open("/verif/properties.jsonl")]
checks = []
for pid in props:
    if pid in CHECKS:
        c = CHECKS[pid]
        checks.append({
            "property_id": pid,
            "quick_cmd": f"scripts/check.sh {pid} quick",
            "thorough_cmd": f"scripts/check.sh {pid} thorough",
            "evidence_file": f"/verif/evidence/{pid}.json",
            "replay_cmd_template": "scripts/replay.sh {path}",
            "engine": "vcheck",
            "level_claimed": {"category": c["cat"], "text": c["text"], "design_ref": c["ref"]},
            "level_note": c["note"],
            "technique": c["technique"],
        })
na = [{"property_id": p, "reason": NA.get(p, "monitor not built yet in this round; see DESIGN.md section 4")} for p in props if p not in CHECKS]
m = {
    "version": 1,
    "setup_cmd": "scripts/setup.sh",
    "hooks": {
        "guard": "verif",
        "enable": "go build -tags verif (cmd/hranoprovod-cli); the job server is inert unless VERIF_SERVE=1",
        "baseline_off_cmd": "scripts/baseline_off.sh",
        "source_commits": HOOK_COMMITS,
        "add_only": True,
    },
    "engines": [{"name": "vcheck", "path": "/verif/harness", "serves_properties": sorted(CHECKS), "kind_free_text": "runtime monitors: generators with ground truth + reference models/metamorphic relations/fault-counting wrappers over the real binary (child process and in-process job server) and the public library (harness under the race detector for C01 and C18; race-detector build of the program for C02, C05, C13)"}],
    "checks": checks,
    "not_applicable": na,
    "notes": "All checks rebuild hr (tag verif) and the harness from /repo's working tree on every run. VERIF_SEED selects the case list. Exit 3 = the check itself could not observe anything (build failure); never a pass.",
}
json.dump(m, open("/verif/MANIFEST.json", "w"), indent=1)
try:
    import jsonschema
    jsonschema.validate(m, json.load(open("/root/.vp/MANIFEST.schema.json")))
    print("MANIFEST.json valid;", len(checks), "checks,", len(na), "not_applicable")
except ImportError:
    print("jsonschema not importable; not validated")
