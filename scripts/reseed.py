#!/usr/bin/env python3
"""reseed.py [id-prefix ...]: regression sweep over the stored seeded changes. For every seeded/<id>
(or those whose id starts with a given prefix) apply patch.diff to /repo, run the quick tier of the check
the change was aimed at, undo, and record the verdict in meta.json under "current". Prints one line per
seed and a summary; exits 1 if any stored change is no longer caught."""
import json, os, subprocess, sys, glob, time
pref = sys.argv[1:]
assert subprocess.run(["git","-C","/repo","status","--porcelain"],capture_output=True,text=True).stdout.strip()=="" , "/repo not clean"
missed = []
for d in sorted(glob.glob("/verif/seeded/*/")):
    sid = os.path.basename(d.rstrip("/"))
    if pref and not any(sid.startswith(p) for p in pref):
        continue
    mp = d + "meta.json"
    if not os.path.exists(mp):
        continue
    m = json.load(open(mp))
    aimed = m["breaks_property"]
    # a change documented as caught only by another check keeps that check
    checks = m.get("regression_checks") or [aimed]
    cur = {}
    try:
        subprocess.run(["git","-C","/repo","apply",d+"patch.diff"],check=True)
        for cid in checks:
            t0 = time.time()
            r = subprocess.run(["/verif/scripts/check.sh", cid, "quick"], capture_output=True, text=True, errors="replace")
            out = r.stdout + r.stderr
            sigs = [l.strip()[:240] for l in out.splitlines() if l.startswith("  signature")]
            verdict = "CAUGHT" if r.returncode == 1 and "VIOLATION" in out else ("HARNESS-ERROR" if r.returncode == 3 else "MISSED")
            cur[cid] = {"verdict": verdict, "rc": r.returncode, "signatures": sigs[:3], "wall_s": round(time.time()-t0, 1)}
            print(sid, cid, verdict, "rc=%d" % r.returncode, "%.0fs" % (time.time()-t0), (sigs[:1] or [""])[0][:160], flush=True)
            if verdict != "CAUGHT" and m.get("not_caught_by_design"):
                print(sid, cid, "EXPECTED-MISS (see meta.json / DESIGN 10.5)", flush=True)
            elif verdict != "CAUGHT":
                missed.append((sid, cid))
    finally:
        subprocess.run(["git","-C","/repo","checkout","--","."],check=True); subprocess.run(["git","-C","/repo","clean","-fdq"],check=True)
    m["current"] = cur
    json.dump(m, open(mp, "w"), indent=1)
subprocess.run("cd /verif && git checkout -- evidence 2>/dev/null; true", shell=True)
print("missed:", missed)
sys.exit(1 if missed else 0)
