#!/bin/bash
# replay.sh <replay file>: rebuild from the repository's working tree and re-run exactly that case.
set -u
. "$(dirname "${BASH_SOURCE[0]}")/env.sh"
B=$VERIF_ROOT/.build/replay.$$; W=$VERIF_ROOT/.work/replay.$$
mkdir -p $B $W; trap 'rm -rf "$B" "$W"' EXIT
mkwork $B/go.work; export GOWORK=$B/go.work
(cd $VERIF_REPO/cmd/hranoprovod-cli && go build -tags verif -o $B/hr . ) || exit 3
(cd $VERIF_ROOT/harness && go build -o $B/vcheck ./cmd/vcheck ) || exit 3
VERIF_HR=$B/hr VERIF_WORK=$W $B/vcheck replay "$1"
