HOOK_COMMITS = ["dcb282e", "a300540"]
chk("C01", "exploration", "runtime monitoring: reference-model oracle (exact rational sum-of-products) over the real resolver (library, in a child process) and the real CLI; exhaustive small structure space x insertion orders + seeded random DAGs",
    "Every execution of both public resolve entry points on all 1600 acyclic books of a 32768-structure space (x6 insertion orders x R repetitions) and on seeded random DAGs is compared with an exact big.Rat model (values, sortedness, no unexpanded recipe, idempotence, order independence); the same books go through csv database-resolved and report element-total of the real binary. Held on what was observed; beyond the enumerated space it is sampling.",
    "Trusts: the harness's 20-line rational model; that maps of <=8 entries iterate as rotations of insertion order (measured on both runtimes); float tolerance 1e-12*sum|paths| on the general number pool.",
    "DESIGN.md 4/C01")
