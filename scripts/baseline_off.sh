#!/bin/bash
# The repository's own test suite with the verif guard OFF (no -tags verif), as BASELINE.json runs it.
export GOFLAGS= GOPROXY=off GOSUMDB=off GOTOOLCHAIN=local
rc=0
for m in . cmd/hranoprovod-cli; do
  (cd /repo/$m && go test -json -vet=off -count=1 -timeout 25m ./...) || rc=1
done
exit $rc
