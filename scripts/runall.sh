#!/bin/bash
# runall.sh [tier]: every registered check once; prints one line per check.
TIER=${1:-quick}
rc=0
for id in $(python3 -c "import json;print(' '.join(c['property_id'] for c in json.load(open('$(dirname "$0")/../MANIFEST.json'))['checks']))"); do
  s=$(date +%s)
  out=$($(dirname "$0")/check.sh $id $TIER 2>&1); r=$?
  e=$(( $(date +%s) - s ))
  echo "$id rc=$r ${e}s $(echo "$out" | grep -c '^VIOLATION') violations, $(echo "$out" | grep -c '^INCONCLUSIVE') inconclusive, $(echo "$out" | grep -c '^HARNESS')" harness-errors
  [ $r -ne 0 ] && { rc=1; echo "$out" | grep -E '^(VIOLATION|HARNESS|  signature)' | head -5 | cut -c1-300; }
done
exit $rc
