#!/usr/bin/env python3
"""mutant.py <mutant-id|patch-file> <check-id> [tier]: apply a change to /repo, run one check, undo.
Mutant ids come from notes/mutants.json (old/new text replacement). Prints CAUGHT / MISSED."""
import json, subprocess, sys, os
mid, cid = sys.argv[1], sys.argv[2]
tier = sys.argv[3] if len(sys.argv) > 3 else "quick"
assert subprocess.run(["git","-C","/repo","status","--porcelain"],capture_output=True,text=True).stdout.strip()=="" , "/repo not clean"
try:
    if os.path.exists(mid):
        subprocess.run(["git","-C","/repo","apply",os.path.abspath(mid)],check=True)
    else:
        ms = {m["id"]: m for m in json.load(open("/verif/notes/mutants.json"))}
        ms.update({m["id"]: m for m in json.load(open("/verif/selftest/mutants_extra.json"))} if os.path.exists("/verif/selftest/mutants_extra.json") else {})
        m = ms[mid]
        p = "/repo/" + m["file"]
        s = open(p).read()
        if m["old"] not in s:
            print("NOT-APPLICABLE", mid, "old text not found in", m["file"]); sys.exit(2)
        open(p, "w").write(s.replace(m["old"], m["new"], 1))
    r = subprocess.run(["/verif/scripts/check.sh", cid, tier], capture_output=True, text=True)
    out = r.stdout + r.stderr
    v = [l for l in out.splitlines() if l.startswith("VIOLATION") or l.startswith("  signature") or l.startswith("HARNESS") or l.startswith("SUMMARY")]
    print("\n".join(l[:400] for l in v[:12]))
    print(("CAUGHT" if r.returncode == 1 and "VIOLATION" in out else "MISSED"), mid, cid, "rc=%d" % r.returncode)
finally:
    subprocess.run(["git","-C","/repo","checkout","--","."],check=True); subprocess.run(["git","-C","/repo","clean","-fdq"],check=True)
    # evidence/replay written by a mutant run are not evidence of the real tree
    subprocess.run("cd /verif && git checkout -- evidence 2>/dev/null; true", shell=True)
