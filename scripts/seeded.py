#!/usr/bin/env python3
"""seeded.py <seed-id> <worktree> <property> [more checks...]
Confirms a sub-agent's change in its scratch worktree (existing suite passes with it; the
demonstration fails with it and passes without it), stores it under /verif/seeded/<seed-id>/,
then applies it to /repo, runs the given checks' quick tier and reverts. Prints CAUGHT/MISSED per check."""
import json, os, shutil, subprocess, sys, glob
sid, wt, prop = sys.argv[1], sys.argv[2], sys.argv[3]
checks = sys.argv[3:]
ENV = dict(os.environ, GOFLAGS="", GOPROXY="off", GOSUMDB="off", GOTOOLCHAIN="local")
def sh(cmd, cwd=wt, **kw):
    return subprocess.run(cmd, shell=True, cwd=cwd, env=ENV, capture_output=True, text=True, errors="replace", **kw)
diff = os.path.join(wt, "MUTATION.diff")
assert os.path.exists(diff), "no MUTATION.diff"
demos = [p for p in glob.glob(wt + "/**/mutation_demo*", recursive=True)]
assert demos, "no demonstration"
ran = []
def suite():
    r1 = sh("go build ./... && go test -vet=off -count=1 ./...")
    r2 = sh("go build ./... && go test -vet=off -count=1 ./...", cwd=wt + "/cmd/hranoprovod-cli")
    return r1.returncode == 0 and r2.returncode == 0, (r1.stdout + r1.stderr + r2.stdout + r2.stderr)[-1500:]
def demo():
    ok = True; out = ""
    for d in demos:
        if d.endswith(".sh"):
            r = sh("bash " + d)
        else:
            pkg = os.path.dirname(d)
            r = sh("go test -vet=off -count=1 -run 'Mutation|mutation|Demo' .", cwd=pkg)
        ok = ok and r.returncode == 0; out += (r.stdout + r.stderr)[-800:]
    return ok, out
# keep the deliverables aside, then make the tree exactly base + diff
keep = f"/tmp/mut/keep/{sid}"
shutil.rmtree(keep, ignore_errors=True); os.makedirs(keep)
rel = {}
for f in [diff, wt + "/MUTATION.md"] + demos:
    if os.path.exists(f):
        r = os.path.relpath(f, wt); rel[f] = r
        os.makedirs(os.path.dirname(os.path.join(keep, r)) or keep, exist_ok=True)
        shutil.copy(f, os.path.join(keep, r))
sh("git checkout -q -- . && git clean -fdq")
st = sh("git apply " + os.path.join(keep, "MUTATION.diff"))
assert st.returncode == 0, "diff does not apply to the base tree: " + st.stderr
s_ok, s_out = suite()                      # existing suite with the change, without the demo files
for f, r in rel.items():
    os.makedirs(os.path.dirname(f), exist_ok=True)
    shutil.copy(os.path.join(keep, r), f)
d_with, o_with = demo()
sh("git apply -R " + diff)
d_without, o_without = demo()
sh("git apply " + diff)
confirmed = s_ok and (not d_with) and d_without
print(f"suite passes with change: {s_ok}; demo fails with change: {not d_with}; demo passes without: {d_without} => confirmed={confirmed}")
if not confirmed:
    print(s_out[-600:] if not s_ok else "", o_with[-400:], o_without[-400:]); sys.exit(2)
dst = f"/verif/seeded/{sid}"
os.makedirs(dst, exist_ok=True)
shutil.copy(diff, dst + "/patch.diff")
for d in demos:
    shutil.copy(d, dst + "/" + os.path.basename(d))
    open(dst + "/" + os.path.basename(d) + ".where", "w").write(os.path.relpath(d, wt) + "\n")
if os.path.exists(wt + "/MUTATION.md"):
    shutil.copy(wt + "/MUTATION.md", dst + "/MUTATION.md")
# run my checks against it
assert subprocess.run(["git","-C","/repo","status","--porcelain"],capture_output=True,text=True).stdout.strip()=="" , "/repo not clean"
results = {}
try:
    subprocess.run(["git","-C","/repo","apply",dst+"/patch.diff"],check=True)
    for cid in checks:
        r = subprocess.run(["/verif/scripts/check.sh", cid, "quick"], capture_output=True, text=True, errors="replace")
        out = r.stdout + r.stderr
        sigs = [l.strip()[:300] for l in out.splitlines() if l.startswith("  signature")]
        results[cid] = {"verdict": "CAUGHT" if r.returncode == 1 and "VIOLATION" in out else ("HARNESS-ERROR" if r.returncode == 3 else "MISSED"), "rc": r.returncode, "signatures": sigs[:4]}
        print(cid, results[cid]["verdict"], "rc=%d" % r.returncode, *sigs[:2], sep="\n  ")
finally:
    subprocess.run(["git","-C","/repo","checkout","--","."],check=True); subprocess.run(["git","-C","/repo","clean","-fdq"],check=True)
    subprocess.run("cd /verif && git checkout -- evidence 2>/dev/null; true", shell=True)
meta = {"seed": sid, "breaks_property": prop, "source": "independent sub-agent given only the property text and a scratch worktree",
        "confirmed": {"existing_suite_passes_with_change": s_ok, "demo_fails_with_change": not d_with, "demo_passes_without_change": d_without},
        "needs_to_manifest": "see MUTATION.md", "ran": [f"scripts/check.sh {c} quick (patch applied to /repo, reverted afterwards)" for c in checks], "results": results}
json.dump(meta, open(dst + "/meta.json", "w"), indent=1)
