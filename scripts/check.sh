#!/bin/bash
# check.sh <ID> <quick|thorough>: rebuild the program (hooks on) and the harness
# from the repository's current working tree, run the property's monitor, clean up.
set -u
ID=${1:?property id}
TIER=${2:-quick}
. "$(dirname "${BASH_SOURCE[0]}")/env.sh"
B=$VERIF_ROOT/.build/$ID.$$
W=$VERIF_ROOT/.work/$ID.$$
mkdir -p $B $W
# whatever still runs from this build (a program left spinning by a killed harness) goes with it
reap() { for p in /proc/[0-9]*; do e=$(readlink "$p/exe" 2>/dev/null) || continue; case "$e" in "$B"/*) kill -9 "${p#/proc/}" 2>/dev/null;; esac; done; }
cleanup() { reap; rm -rf "$B" "$W"; }
trap 'exit 143' TERM INT
trap cleanup EXIT
mkwork $B/go.work
export GOWORK=$B/go.work
RACE=
# C18 (channel parser) and C01 (library: independent books resolved concurrently) run under the race detector
[ "$ID" = C18 ] && RACE=-race
[ "$ID" = C01 ] && RACE=-race
if ! (cd $VERIF_REPO/cmd/hranoprovod-cli && go build -tags verif -o $B/hr . ) > $B/build.log 2>&1; then
  echo "HARNESS-ERROR property=$ID cannot build the repository with hooks on:"; cat $B/build.log; exit 3
fi
if ! (cd $VERIF_ROOT/harness && go build $RACE -o $B/vcheck ./cmd/vcheck ) > $B/build.log 2>&1; then
  # the harness links the repository's public packages: a change of their API shows up here
  echo "HARNESS-ERROR property=$ID cannot build the harness against the repository:"; cat $B/build.log; exit 3
fi
# the program itself under the race detector, for the checks that run reports side by side in one process
HRRACE=
case "$ID" in C02|C05|C13)
  if (cd $VERIF_REPO/cmd/hranoprovod-cli && go build -race -tags verif -o $B/hr.race . ) > $B/buildrace.log 2>&1; then HRRACE=$B/hr.race; fi;;
esac
ALT=
if [ "$TIER" = thorough ] && command -v go1.26.8 >/dev/null 2>&1; then
  if (cd $VERIF_REPO/cmd/hranoprovod-cli && go1.26.8 build -tags verif -o $B/hr126 . ) > $B/build126.log 2>&1; then ALT=$B/hr126; fi
fi
rm -rf $VERIF_ROOT/replay/$ID; mkdir -p $VERIF_ROOT/replay/$ID
export VERIF_HR=$B/hr VERIF_HR_RACE=$HRRACE VERIF_HR_ALT=$ALT VERIF_WORK=$W VERIF_TIER=$TIER VERIF_SEED=${VERIF_SEED:-1}
export GORACE="halt_on_error=0 exitcode=0 log_path=$W/race"
cd $VERIF_ROOT
$B/vcheck run $ID --tier $TIER
rc=$?
exit $rc
